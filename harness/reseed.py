"""reseed.py <ID>-<n> [check ids...] : re-run a stored seeded change (seeded/<ID>-<n>/) against the current checks and
update its meta.json (caught_by; `history` records a first miss that later strengthening turned into a catch)."""
import json
import os
import re
import subprocess
import sys

VERIF = os.path.dirname(os.path.dirname(os.path.abspath(__file__)))
name = sys.argv[1]
d = os.path.join(VERIF, "seeded", name)
meta = json.load(open(os.path.join(d, "meta.json")))
pid = meta["property"]
checks = sys.argv[2:] or [pid]
p = subprocess.run([os.path.join(VERIF, "harness", "seedtest.sh"), pid, os.path.join(d, "patch.diff"), os.path.join(d, "demo.py")] + checks,
                   stdout=subprocess.PIPE, stderr=subprocess.STDOUT)
out = p.stdout.decode(errors="replace")
old = dict(meta.get("caught_by", {}))
for c in checks:
    m = re.search(r"== check %s\n(.*?)(?=\n== |\Z)" % c, out, re.S)
    body = m.group(1) if m else ""
    if "VIOLATION" in body and "no-failing-input-found" in body:
        r = "VIOLATION no-failing-input-found (proof/correspondence broke)"
    elif "VIOLATION" in body:
        r = "VIOLATION with concrete failing input"
    elif "INFRA" in body:
        r = "INFRA error"
    else:
        r = "missed"
    prev = old.get(c)
    if prev and prev != r and "concrete failing input" in r and "after strengthening" not in prev:
        meta["history"] = ("first run of the check: %s; the generators/oracle/model were then strengthened (round 4, see docs/notes/NOTES-%s.md) "
                           "and the seed is now caught with a failing input" % (prev.split(" (")[0], c))
        r += " (after strengthening)"
    meta.setdefault("caught_by", {})[c] = r
    print(name, c, r)
json.dump(meta, open(os.path.join(d, "meta.json"), "w"), indent=1)

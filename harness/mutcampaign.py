"""Mutation campaign: how many small behaviour-changing edits of the anchored code do the checks detect?

usage: mutcampaign.py [--n N] [--seed S] [--files f1,f2] [--out DIR] [--max-checks K]

For a seeded random sample of single-token mutants of the non-test source files the properties are
anchored in (comparison swaps, and/or, off-by-one constants, dropped `not`, regex quantifier tweaks,
slice bounds, dropped `continue`/early `return`, swapped string constants of verdict levels):
  1. the mutant must compile and the repository's test suite must still pass (otherwise it is discarded:
     the tests already see it);
  2. every check whose property is anchored in the mutated file runs (quick tier) against the mutant
     (VERIF_REPO override; nothing is written to /repo);
  3. the outcome (caught with failing input / caught no-failing-input / missed) is recorded.
Missed mutants are either equivalent (no behaviour change) or a gap of the generators: they are triaged by
hand (docs/MUTATION.md).  This is a measuring tool, not a registered check.
"""
import argparse
import ast
import json
import os
import random
import re
import shutil
import subprocess
import sys
import time

VERIF = os.path.dirname(os.path.dirname(os.path.abspath(__file__)))
REPO = "/repo"
PY = "/venv/bin/python"


def anchors():
    out = {}
    for line in open(os.path.join(VERIF, "properties.jsonl")):
        p = json.loads(line)
        for f in p["anchors"]["files"]:
            out.setdefault(f, []).append(p["id"])
    return out


CMP = {ast.Lt: "<=", ast.LtE: "<", ast.Gt: ">=", ast.GtE: ">", ast.Eq: "!=", ast.NotEq: "==",
       ast.Is: "is not", ast.IsNot: "is", ast.In: "not in", ast.NotIn: "in"}
CMP_SRC = {ast.Lt: "<", ast.LtE: "<=", ast.Gt: ">", ast.GtE: ">=", ast.Eq: "==", ast.NotEq: "!=",
           ast.Is: "is", ast.IsNot: "is not", ast.In: "in", ast.NotIn: "not in"}


def seg(lines, node):
    """(line index, col start, col end) of a single-line node, else None"""
    if node.lineno != node.end_lineno:
        return None
    return node.lineno - 1, node.col_offset, node.end_col_offset


def mutants_of(src):
    """list of (description, new source)"""
    tree = ast.parse(src)
    lines = src.split("\n")
    res = []

    def replace(li, a, b, new, desc):
        l = lines[li]
        # columns are utf8 byte offsets: convert
        bl = l.encode("utf-8")
        nl = (bl[:a] + new.encode("utf-8") + bl[b:]).decode("utf-8")
        out = lines[:li] + [nl] + lines[li + 1:]
        res.append(("%d: %s" % (li + 1, desc), "\n".join(out)))

    for fn in ast.walk(tree):
        if not isinstance(fn, (ast.FunctionDef, ast.AsyncFunctionDef, ast.ClassDef, ast.Module)):
            continue
        for node in ast.iter_child_nodes(fn):
            pass
    in_func = set()
    for fn in ast.walk(tree):
        if isinstance(fn, (ast.FunctionDef, ast.AsyncFunctionDef)):
            for n in ast.walk(fn):
                in_func.add(id(n))
    for node in ast.walk(tree):
        if isinstance(node, ast.Compare) and len(node.ops) == 1 and type(node.ops[0]) in CMP:
            l, r = node.left, node.comparators[0]
            if l.end_lineno == r.lineno:
                li = l.end_lineno - 1
                bl = lines[li].encode("utf-8")
                mid = bl[l.end_col_offset:r.col_offset].decode("utf-8")
                old = CMP_SRC[type(node.ops[0])]
                if re.fullmatch(r"\s*%s\s*" % re.escape(old).replace(r"\ ", r"\s+"), mid):
                    replace(li, l.end_col_offset, r.col_offset, " %s " % CMP[type(node.ops[0])],
                            "compare `%s` -> `%s`" % (old, CMP[type(node.ops[0])]))
        elif isinstance(node, ast.BoolOp) and len(node.values) == 2:
            a, b = node.values
            if a.end_lineno == b.lineno:
                li = a.end_lineno - 1
                bl = lines[li].encode("utf-8")
                mid = bl[a.end_col_offset:b.col_offset].decode("utf-8")
                old = "and" if isinstance(node.op, ast.And) else "or"
                new = "or" if old == "and" else "and"
                if re.fullmatch(r"\s*%s\s*" % old, mid):
                    replace(li, a.end_col_offset, b.col_offset, " %s " % new, "`%s` -> `%s`" % (old, new))
        elif isinstance(node, ast.UnaryOp) and isinstance(node.op, ast.Not) and id(node) in in_func:
            s = seg(lines, node)
            o = seg(lines, node.operand)
            if s and o:
                replace(s[0], s[1], o[1], "", "dropped `not`")
        elif isinstance(node, ast.Constant) and id(node) in in_func:
            s = seg(lines, node)
            if not s:
                continue
            v = node.value
            if isinstance(v, bool):
                replace(s[0], s[1], s[2], str(not v), "%s -> %s" % (v, not v))
            elif isinstance(v, int) and 0 <= v <= 4:
                replace(s[0], s[1], s[2], str(v + 1), "%d -> %d" % (v, v + 1))
                if v > 0:
                    replace(s[0], s[1], s[2], str(v - 1), "%d -> %d" % (v, v - 1))
            elif isinstance(v, str) and v in ("error", "warning", "ignore"):
                new = {"error": "warning", "warning": "error", "ignore": "error"}[v]
                q = lines[s[0]].encode("utf-8")[s[1]:s[1] + 1].decode()
                if q in "'\"":
                    replace(s[0], s[1], s[2], q + new + q, "'%s' -> '%s'" % (v, new))
        elif isinstance(node, (ast.Continue, ast.Break)) and id(node) in in_func:
            s = seg(lines, node)
            if s:
                replace(s[0], s[1], s[2], "pass", "`%s` -> `pass`" % type(node).__name__.lower())
    # regular expressions: quantifier tweaks inside string constants that look like patterns
    for node in ast.walk(tree):
        if isinstance(node, ast.Constant) and isinstance(node.value, str) and len(node.value) >= 3:
            s = seg(lines, node)
            if not s:
                continue
            text = lines[s[0]].encode("utf-8")[s[1]:s[2]].decode("utf-8")
            if not re.search(r"[\[\(\\][^ ]*[*+?]|\(\?P<", text):
                continue
            for m in re.finditer(r"(?<![\\(])([*+])(?![?+*])", text):
                new = "+" if m.group(1) == "*" else "*"
                t2 = text[:m.start(1)] + new + text[m.end(1):]
                replace(s[0], s[1], s[2], t2, "regex `%s` -> `%s` at col %d in %s" % (m.group(1), new, m.start(1), text[:40]))
            for m in re.finditer(r"([*+])\?", text):
                t2 = text[:m.end(1)] + text[m.end():]
                replace(s[0], s[1], s[2], t2, "regex lazy -> greedy at col %d in %s" % (m.start(), text[:40]))
            ws = "\\s" if text[:1] in "rR" else "\\\\s"
            for m in re.finditer(r"\[ \\t\]", text):
                t2 = text[:m.start()] + ws + text[m.end():]
                replace(s[0], s[1], s[2], t2, "regex `[ \\t]` -> `\\s` in %s" % text[:40])
    # keep only mutants that compile and differ
    good = []
    for d, s2 in res:
        if s2 == src:
            continue
        try:
            compile(s2, "<mutant>", "exec")
        except (SyntaxError, ValueError):
            continue
        good.append((d, s2))
    return good


def run(cmd, env=None, timeout=3000, cwd=None):
    p = subprocess.run(cmd, stdout=subprocess.PIPE, stderr=subprocess.STDOUT, env=env, timeout=timeout, cwd=cwd)
    return p.returncode, p.stdout.decode(errors="replace")


def main():
    ap = argparse.ArgumentParser()
    ap.add_argument("--n", type=int, default=40)
    ap.add_argument("--seed", type=int, default=1)
    ap.add_argument("--files", default="")
    ap.add_argument("--out", default=os.path.join(VERIF, "docs", "mutation"))
    ap.add_argument("--max-checks", type=int, default=4)
    ap.add_argument("--scratch", default="/tmp/mut")
    args = ap.parse_args()
    anc = anchors()
    files = [f for f in sorted(anc) if not args.files or f in args.files.split(",")]
    pool = []
    for f in files:
        src = open(os.path.join(REPO, f), encoding="utf-8").read()
        for d, s2 in mutants_of(src):
            pool.append((f, d, s2))
    rng = random.Random(args.seed)
    rng.shuffle(pool)
    print("mutant pool: %d over %d files; sampling %d" % (len(pool), len(files), args.n), flush=True)
    os.makedirs(args.out, exist_ok=True)
    log = os.path.join(args.out, "campaign-seed%d.jsonl" % args.seed)
    done = 0
    stats = {"tests_kill": 0, "caught_input": 0, "caught_nfi": 0, "missed": 0, "infra": 0}
    for f, d, s2 in pool:
        if done >= args.n:
            break
        wt = os.path.join(args.scratch, "m%d" % os.getpid())
        shutil.rmtree(wt, ignore_errors=True)
        os.makedirs(wt)
        shutil.copytree(os.path.join(REPO, "compare_locales"), os.path.join(wt, "compare_locales"))
        with open(os.path.join(wt, f), "w", encoding="utf-8") as fh:
            fh.write(s2)
        env = dict(os.environ, PYTHONPATH=wt)
        try:
            rc, out = run([PY, "-m", "pytest", "-q", "-x", "-p", "no:cacheprovider", "compare_locales"], env=env, cwd=wt, timeout=600)
        except subprocess.TimeoutExpired:
            rc, out = 1, "timeout"
        if rc != 0:
            stats["tests_kill"] += 1
            shutil.rmtree(wt, ignore_errors=True)
            continue
        done += 1
        rec = {"file": f, "mutation": d, "checks": {}}
        verdict = "missed"
        for cid in anc[f][:args.max_checks] if args.max_checks else anc[f]:
            t0 = time.time()
            try:
                rc, out = run([os.path.join(VERIF, "check"), cid, "--tier", "quick"], env=dict(os.environ, VERIF_REPO=wt), cwd=VERIF)
            except subprocess.TimeoutExpired:
                rc, out = 2, "timeout"
            vio = [l for l in out.splitlines() if l.startswith("VIOLATION")]
            if rc == 1 and vio:
                r = "caught-nfi" if "no-failing-input-found" in vio[0] else "caught-input"
            elif rc == 0:
                r = "missed"
            else:
                r = "infra"
            rec["checks"][cid] = {"result": r, "s": round(time.time() - t0, 1)}
            if r == "caught-input":
                verdict = "caught-input"
                break
            if r == "caught-nfi" and verdict != "caught-input":
                verdict = "caught-nfi"
            if r == "infra" and verdict == "missed":
                verdict = "infra"
        rec["verdict"] = verdict
        stats[{"caught-input": "caught_input", "caught-nfi": "caught_nfi", "missed": "missed", "infra": "infra"}[verdict]] += 1
        with open(log, "a") as fh:
            fh.write(json.dumps(rec) + "\n")
        print("[%d/%d] %s %s :: %s  %s" % (done, args.n, f, d, verdict, {k: v["result"] for k, v in rec["checks"].items()}), flush=True)
        shutil.rmtree(wt, ignore_errors=True)
    # leave the generated Lean files in line with /repo again
    run([os.path.join(VERIF, "setup.sh")], cwd=VERIF)
    print("SUMMARY", json.dumps(stats))


if __name__ == "__main__":
    main()

"""seedbatch.py <ID> [check ids...] : confirm the three seeded changes of a sub-agent, run the checks against each,
store them under /verif/seeded/<ID>-<n>/ with the observed outcome."""
import json
import os
import re
import shutil
import subprocess
import sys

ID = sys.argv[1]
checks = sys.argv[2:] or [ID]
SD = os.environ.get("SEED_DIR", "/tmp/seed")
for n in [int(x) for x in os.environ.get("SEED_NUMS", "1,2,3").split(",")]:
    patch = SD + "/%s_patch_%d.diff" % (ID, n)
    demo = SD + "/%s_demo_%d.py" % (ID, n)
    if not os.path.exists(patch):
        print("missing", patch)
        continue
    p = subprocess.run(["/verif/harness/seedtest.sh", ID, patch, demo] + checks, stdout=subprocess.PIPE, stderr=subprocess.STDOUT)
    out = p.stdout.decode(errors="replace")
    clean = re.search(r"demo_clean_rc=(\d+)", out)
    patched = re.search(r"demo_patched_rc=(\d+)", out)
    suite = re.search(r"(\d+ passed[^\n]*)", out)
    caught = {}
    for c in checks:
        m = re.search(r"== check %s\n(.*?)(?=\n== |\Z)" % c, out, re.S)
        body = m.group(1) if m else ""
        if "VIOLATION" in body and "no-failing-input-found" in body:
            caught[c] = "VIOLATION no-failing-input-found (proof/correspondence broke)"
        elif "VIOLATION" in body:
            caught[c] = "VIOLATION with concrete failing input"
        elif "INFRA" in body:
            caught[c] = "INFRA error"
        else:
            caught[c] = "missed"
    d = "/verif/seeded/%s-%d" % (ID, n)
    os.makedirs(d, exist_ok=True)
    shutil.copy(patch, d + "/patch.diff")
    shutil.copy(demo, d + "/demo.py")
    try:
        m = json.load(open(SD + "/%s_meta_%d.json" % (ID, n)))
    except Exception:
        m = {}
    meta = {"property": ID, "summary": m.get("summary"), "needs": m.get("needs"), "files_changed": m.get("files_changed"),
            "produced_by": "fresh sub-agent given only the property text and a scratch worktree",
            "confirmed": {"test_suite_with_patch": suite.group(1) if suite else None,
                          "demo_fails_with_patch": bool(patched and patched.group(1) != "0"),
                          "demo_passes_without": bool(clean and clean.group(1) == "0")},
            "ran": "harness/seedtest.sh %s seeded/%s-%d/patch.diff seeded/%s-%d/demo.py %s (scratch worktree, VERIF_REPO override, quick tier)" % (
                ID, ID, n, ID, n, " ".join(checks)),
            "caught_by": caught}
    json.dump(meta, open(d + "/meta.json", "w"), indent=1)
    print(ID, n, meta["confirmed"], caught)
    last = [l for l in out.splitlines() if l.startswith(("C", "VIOL"))]
    print("   ", " | ".join(last[-3:])[:400])

"""Round 5 (C01, C02): HISTORIES on one long-lived parser object.

The unit of generation is a history = list of operations (see impl/parse.py run_history):
  ["R"|"RC"|"RF", text]   readUnicode / readContents / readFile
  ["W", v]                a complete pass (v: 0 = walk(), 1 = iter(p), 2 = walk(only_localizable=True))
  ["P", v, k, how]        a new pass abandoned after k entries (how = next, close, keep, break, zip, zipl, islice)
  ["K"]                   p.parse() (KeyedTuple) + key lookups
  ["G", v] ["N", g, k] ["D", g] ["X", g]    explicit generator objects (interleaving, resuming, closing)

`track` is the oracle's own bookkeeping (independent of the Lean model): which text every consuming operation must be a
slice of, from which position, in which view, and whether it must reach the end — none of which depends on what the
EARLIER operations consumed, except through the generator's own position.
"""

HOWS = ["next", "close", "keep", "break", "zip", "zipl", "islice"]
READS = ("R", "RC", "RF")


def pulled(op):
    """number of next() calls a partial pass makes"""
    return op[2] + 1 if op[3] == "zipl" else op[2]


def to_model(ops, enc):
    """the primitive operations of the Lean machine C01M.stepG: R <text> | G <0|1> | N <g> <k> | D <g> | X <g>"""
    out = []
    n = 0           # generator objects created so far in the model
    ids = []        # python "G" index -> model id
    for op in ops:
        t = op[0]
        if t in READS:
            out.append("R %s" % enc(op[1]))
        elif t == "W":
            out.append("G %d D %d" % (1 if op[1] else 0, n))
            n += 1
        elif t == "K":
            out.append("G 1 D %d" % n)
            n += 1
        elif t == "P":
            out.append("G %d N %d %d" % (1 if op[1] else 0, n, pulled(op)))
            if op[3] != "keep":
                out.append("X %d" % n)
            n += 1
        elif t == "G":
            ids.append(n)
            out.append("G %d" % (1 if op[1] else 0))
            n += 1
        elif t == "N":
            out.append("N %d %d" % (ids[op[1]], op[2]))
        elif t == "D":
            out.append("D %d" % ids[op[1]])
        elif t == "X":
            out.append("X %d" % ids[op[1]])
    return " ".join(out)


def track(ops, expected_of):
    """the oracle's own bookkeeping, by construction.  expected_of(text, loc) -> the entries of a complete pass over `text` in
    that view.  -> one dict per consuming operation (W, P, K, N, D), in order: i (index of the op), loc, want (the entries the
    operation must show), status ("part": the requested number was obtained / "done": StopIteration), pos (entries of this pass
    shown before), whole (a complete pass from its start), exposed (another pass ran on the same Context object while this pass
    was suspended: only DefinesParser keeps per-pass state on the Context), stale (the parser has read another text since this
    pass started: the pass goes on over the Context object it captured)"""
    cur = None              # (ctx id, text)
    nctx = 0
    live = []               # passes that have started and are suspended
    gens = []
    out = []

    def new(loc):
        return {"loc": bool(loc), "started": False, "ctx": None, "full": [], "pos": 0, "finished": False, "exposed": False}

    def finish(g):
        g["finished"] = True
        if g in live:
            live.remove(g)

    def run(g, i, k):
        # k next() calls (None = until StopIteration)
        if k == 0:                               # no next() call at all
            out.append({"i": i, "loc": g["loc"], "want": [], "status": "part", "pos": g["pos"], "whole": False, "exposed": g["exposed"]})
            return
        if g["finished"]:                        # exhausted or closed: StopIteration
            out.append({"i": i, "loc": g["loc"], "want": [], "status": "done", "pos": g["pos"], "whole": False, "exposed": g["exposed"]})
            return
        if not g["started"]:
            g["started"] = True
            if cur is None:                      # `if not self.ctx: return`
                finish(g)
                out.append({"i": i, "loc": g["loc"], "want": [], "status": "done", "pos": 0, "whole": True, "exposed": False})
                return
            g["ctx"] = cur[0]
            g["full"] = expected_of(cur[1], g["loc"])
            g["text"] = cur[1]
            live.append(g)
        for h in live:
            if h is not g and h["ctx"] == g["ctx"]:
                h["exposed"] = True          # h is suspended and g runs now on the same Context object
        pos, full = g["pos"], g["full"]
        if k is None or k > len(full) - pos:
            want, status = full[pos:], "done"
        else:
            want, status = full[pos:pos + k], "part"
        out.append({"i": i, "loc": g["loc"], "want": want, "status": status, "pos": pos, "whole": pos == 0 and status == "done",
                    "exposed": g["exposed"], "text": g.get("text"), "stale": cur is None or cur[0] != g["ctx"]})
        g["pos"] += len(want)
        if status == "done":
            finish(g)

    for i, op in enumerate(ops):
        t = op[0]
        if t in READS:
            cur = (nctx, op[1])
            nctx += 1
        elif t in ("W", "K"):
            g = new(1 if t == "K" else op[1])
            run(g, i, None)
        elif t == "P":
            g = new(op[1])
            run(g, i, pulled(op))
            if op[3] != "keep":
                finish(g)
        elif t == "G":
            gens.append(new(op[1]))
        elif t == "N":
            run(gens[op[1]], i, op[2])
        elif t == "D":
            run(gens[op[1]], i, None)
        elif t == "X":
            finish(gens[op[1]])
    return out


def judge(tracked, recs):
    """compare what the implementation showed (recs[j]["shown"], ["status"]) with what the operation must show.
    Returns None or (message, tracked entry)."""
    if len(tracked) != len(recs):
        return ("history shows %d results for %d consuming operations" % (len(recs), len(tracked)), {"i": None, "exposed": False})
    for tr, r in zip(tracked, recs):
        if r["status"] == "runaway":
            return ("a pass yields more entries than characters (does not terminate)", tr)
        got, want = r["shown"], tr["want"]
        if got != want or r["status"] != tr["status"]:
            kind = "complete pass" if tr["whole"] else ("rest of a resumed pass" if tr["status"] == "done" and tr["pos"] else "partial pass")
            what = ("%s (operation %d, %s view, after %d entries of it): %d entries %s, expected %d entries %s of the complete "
                    "pass over the text last read" % (kind, tr["i"], "localizable" if tr["loc"] else "full", tr["pos"], len(got),
                                                      "and StopIteration" if r["status"] == "done" else "without StopIteration",
                                                      len(want), "and StopIteration" if tr["status"] == "done" else "without StopIteration"))
            if len(got) == len(want):
                d = [j for j in range(len(got)) if got[j] != want[j]][:1]
                if d:
                    what += "; entry %d is %r, expected %r" % (d[0], got[d[0]], want[d[0]])
            return (what, tr)
    return None


def ks_for(n):
    """numbers of entries to consume of a pass that has n entries: 0, 1, 2, half, all-1 (and all = exactly n without StopIteration)"""
    return sorted({0, 1, 2, n // 2, max(0, n - 1), n})


def directed(t, nfull, nloc, t2, i, concat=False):
    """the directed histories for text t (nfull / nloc entries in the full / localizable view), t2 another text; i rotates
    the way a pass is abandoned"""
    hs = []
    how = lambda j: HOWS[(i + j) % len(HOWS)]
    j = 0
    # the missed shape: a pass abandoned after k entries, then complete passes in both views
    for v, n in ((0, nfull), (1, nloc)):
        for k in ks_for(n):
            j += 1
            second = [["W", 0], ["W", 1]] if j % 2 else [["W", 1], ["W", 0]]
            hs.append([["R", t], ["P", v, k, how(j)]] + second)
    # parse() after an abandoned pass; abandoned iteration of the other view first
    hs.append([["R", t], ["P", 1, 1, how(1)], ["K"], ["W", 0]])
    hs.append([["R", t], ["P", 0, 1, how(2)], ["K"], ["K"]])
    hs.append([["R", t], ["P", 2, max(0, nloc - 1), how(3)], ["W", 2], ["K"]])
    # several abandoned passes, complete pass in between
    hs.append([["R", t], ["P", 0, 1, how(4)], ["P", 1, 1, how(5)], ["P", 0, 2, how(6)], ["W", 0], ["W", 1]])
    hs.append([["R", t], ["W", 0], ["P", 1, 1, how(0)], ["W", 1], ["P", 0, nfull // 2, how(1)], ["W", 0]])
    # re-reading (same text, other text) through the three readers
    rd = ["R", "RC", "RF"]
    hs.append([[rd[i % 3], t], ["P", 0, 1, how(2)], [rd[(i + 1) % 3], t], ["W", 0], ["W", 1]])
    hs.append([[rd[(i + 1) % 3], t], ["P", 1, 1, how(3)], [rd[(i + 2) % 3], t2], ["W", 1], ["W", 0]])
    hs.append([[rd[(i + 2) % 3], t2], ["W", 0], [rd[i % 3], t], ["P", 0, 2, how(4)], [rd[(i + 1) % 3], t2], ["K"], ["W", 0]])
    # explicit generator objects: resumed, interleaved, suspended over a re-read, created before the read, closed
    hs.append([["R", t], ["G", 0], ["N", 0, 1], ["W", 1], ["W", 0], ["D", 0]])
    hs.append([["R", t], ["G", 0], ["G", 1], ["N", 0, 1], ["N", 1, 1], ["N", 0, nfull // 2], ["D", 1], ["D", 0], ["N", 0, 1]])
    hs.append([["R", t], ["G", 1], ["N", 0, 1], ["R", t2], ["W", 0], ["D", 0], ["W", 1]])
    if concat:      # a text that is not one of the given ones (only for oracles that need no expectation per text)
        hs.append([["R", t], ["G", 0], ["N", 0, 1], ["RC", t2 + t], ["D", 0], ["W", 0]])
    else:
        hs.append([["R", t], ["G", 0], ["N", 0, 1], ["RC", t2], ["D", 0], ["W", 0]])
    hs.append([["G", 0], ["G", 1], ["N", 1, 1], ["R", t], ["D", 0], ["N", 1, 1], ["W", 1]])
    hs.append([["R", t], ["G", 0], ["N", 0, 2], ["X", 0], ["N", 0, 1], ["G", 1], ["N", 1, 0], ["K"], ["D", 1]])
    return hs


def every_cut(t, nfull, i):
    """state that a pass keeps OUTSIDE its frame (DefinesParser: `filter_empty_lines` on the Context) can be left behind at any
    point of the text: a full pass abandoned after every possible number of entries, then complete passes in both views"""
    return [[["R", t], ["P", 0, k, HOWS[(i + k) % len(HOWS)]]] + ([["W", 0], ["W", 1]] if k % 2 else [["W", 1], ["W", 0]])
            for k in range(nfull + 1)]


def random_history(rng, texts, counts):
    """a random history over one or two texts"""
    t = rng.choice(texts)
    t2 = rng.choice(texts)
    ops = []
    ngen = 0
    cur = None
    for _ in range(rng.randrange(3, 10)):
        x = rng.random()
        if x < 0.22 or (cur is None and x < 0.7):
            cur = t if rng.random() < 0.7 else t2
            ops.append([rng.choice(READS), cur])
        elif x < 0.40:
            ops.append(["W", rng.choice([0, 1, 1, 2])])
        elif x < 0.62:
            v = rng.choice([0, 1, 2])
            n = counts.get(cur, (3, 2))[0 if v == 0 else 1] if cur is not None else 2
            ops.append(["P", v, rng.choice(ks_for(n)), rng.choice(HOWS)])
        elif x < 0.70:
            ops.append(["K"])
        elif x < 0.80 or ngen == 0:
            ops.append(["G", rng.choice([0, 1])])
            ngen += 1
        elif x < 0.92:
            ops.append(["N", rng.randrange(ngen), rng.choice([0, 1, 1, 2, 3])])
        elif x < 0.97:
            ops.append(["D", rng.randrange(ngen)])
        else:
            ops.append(["X", rng.randrange(ngen)])
    ops.append(["W", rng.choice([0, 1])])
    return ops

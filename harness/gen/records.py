"""Simple per-format record printers and localisation derivation (used by C04/C05).
A record is (key, value, comment|None).  References printed here are clean by construction:
they validate without errors against themselves."""

FORMATS = ["properties", "dtd", "ini", "inc", "ftl", "po", "android"]
FNAME = {"properties": "a.properties", "dtd": "a.dtd", "ini": "a.ini", "inc": "a.inc", "ftl": "a.ftl",
         "po": "a.po", "android": "strings.xml", "unknown": "a.txt"}
MERGEABLE = {"properties", "dtd", "ini"}
SKIP_ONLY = {"ftl", "po", "android"}

WORDS = ["alpha", "beta", "gamma", "delta", "Seite", "öffnen", "文字", "x", "zwei Worte", "drei kurze Worte"]

# values that are fine in the reference, with a localized value that is fine and one that fails the checks
CHECKED = {
    "properties": [("%S and %S", "%S und %S", "%d und"), ("%1$S of %2$S", "%2$S von %1$S", "%3$S"), ("size %d", "Größe %d", "Größe %S %S")],
    "dtd": [("plain <b>bold</b>", "fett <b>b</b>", "a & b"), ("see &brandShortName;", "siehe &brandShortName;", "<b>unclosed"),
            ("10em", "12em", "zwölf"), ("20em", "22em", "a & b")],
    "ini": [],
    "inc": [],
    "ftl": [("{ $n } items\n    .title = T", "{ $n } Dinge\n    .title = T", "{ $n } Dinge"),
            ("text\n    .label = L", "Text\n    .label = L", "Text\n    .other = L")],
    "po": [],
    "android": [("%1$s of %2$d", "%2$d von %1$s", "%1$d"), ("plain %s", "einfach %s", "it's"), ("q", "p", "<b>x</b>y")],
}


def esc_xml(v):
    return v.replace("&", "&amp;").replace("<", "&lt;")


def print_file(fmt, records, trailing_newline=True):
    out = []
    if fmt == "properties":
        for k, v, c in records:
            if c:
                out.append("# %s\n" % c)
            out.append("%s = %s\n" % (k, v))
    elif fmt == "dtd":
        for k, v, c in records:
            if c:
                out.append("<!-- %s -->\n" % c)
            out.append('<!ENTITY %s "%s">\n' % (k, v))
    elif fmt == "ini":
        out.append("[Strings]\n")
        for k, v, c in records:
            if c:
                out.append("; %s\n" % c)
            out.append("%s=%s\n" % (k, v))
    elif fmt == "inc":
        for k, v, c in records:
            if c:
                out.append("# %s\n" % c)
            out.append("#define %s %s\n" % (k, v))
    elif fmt == "ftl":
        for k, v, c in records:
            if c:
                out.append("# %s\n" % c)
            out.append("%s = %s\n" % (k, v))
    elif fmt == "po":
        for k, v, c in records:
            if c:
                out.append("# %s\n" % c)
            out.append('msgid "%s"\nmsgstr "%s"\n\n' % (k, v))
    elif fmt == "android":
        out.append('<?xml version="1.0" encoding="utf-8"?>\n<resources>\n')
        for k, v, c in records:
            if c:
                out.append("  <!-- %s -->\n" % c)
            out.append('  <string name="%s">%s</string>\n' % (k, v))
        out.append("</resources>\n")
    else:
        for k, v, c in records:
            out.append("%s: %s\n" % (k, v))
    text = "".join(out)
    if not trailing_newline and fmt not in ("android",) and text.endswith("\n"):
        text = text[:-1]
    return text


GARBAGE = {
    "properties": ["just some words\n", "%%%\n"],
    "dtd": ["stray text\n", "<!ENTITY broken \n", "<!ENTY x \"y\">\n"],
    "ini": ["no equals sign here\n"],
    "inc": ["garbage\n", "#define\n"],
    "ftl": ["!!! junk\n", "= nokey\n"],
    "po": ["garbage line\n"],
    "android": ["<foo/>", "<string>noname</string>"],
}


def key_for(fmt, i, rng):
    base = rng.choice(["first", "second", "third", "fourth", "fifth", "sixth", "accesskey", "commandKey", "label"])
    k = "%s%d" % (base, i)
    if fmt == "ftl":
        return k.replace("_", "-")
    if fmt == "po":
        return "msg %s" % k
    return k


def gen_reference(fmt, rng, n=None):
    n = n if n is not None else rng.randrange(1, 7)
    recs = []
    kinds = []
    for i in range(n):
        k = key_for(fmt, i, rng)
        c = rng.choice([None, None, "comment %d" % i])
        if CHECKED[fmt] and rng.random() < 0.45:
            ci = rng.randrange(len(CHECKED[fmt]))
            v = CHECKED[fmt][ci][0]
            kinds.append(ci)
        else:
            v = rng.choice(WORDS) + (" %d" % i)
            kinds.append(None)
        if fmt == "android" and kinds[-1] is None:
            v = esc_xml(v)
        recs.append((k, v, c))
    return recs, kinds


def derive_l10n(fmt, recs, kinds, rng, allow_break=True, allow_junk=True, clean=False):
    """returns (l10n text, plan) ; plan[key] in keep|change|bad|drop ; extra keys 'obsolete', junk count"""
    out = []
    plan = {}
    order = list(range(len(recs)))
    if not clean and rng.random() < 0.2:
        rng.shuffle(order)
    for i in order:
        k, v, c = recs[i]
        r = rng.random()
        if clean:
            r = 0.5 if rng.random() < 0.5 else 0.0
        if r < 0.3:
            plan[k] = "keep"
            out.append((k, v, c))
        elif r < 0.6:
            plan[k] = "change"
            if kinds[i] is not None:
                out.append((k, CHECKED[fmt][kinds[i]][1], c))
            else:
                nv = "L10N " + rng.choice(WORDS)
                out.append((k, esc_xml(nv) if fmt == "android" else nv, c))
        elif r < 0.78 and allow_break and kinds[i] is not None:
            plan[k] = "bad"
            out.append((k, CHECKED[fmt][kinds[i]][2], c))
        elif r < 0.78:
            plan[k] = "change"
            nv = "L10N " + rng.choice(WORDS)
            out.append((k, esc_xml(nv) if fmt == "android" else nv, c))
        else:
            plan[k] = "drop"
    nobs = 0
    if not clean and rng.random() < 0.3:
        k = key_for(fmt, 90 + rng.randrange(5), rng)
        out.insert(rng.randrange(len(out) + 1), (k, "obsolete value", None))
        nobs = 1
    text = print_file(fmt, out, trailing_newline=clean or rng.random() < 0.85)
    njunk = 0
    if allow_junk and not clean and rng.random() < 0.35 and GARBAGE.get(fmt):
        g = rng.choice(GARBAGE[fmt])
        lines = text.split("\n")
        if fmt == "android":
            pos = rng.randrange(2, max(3, len(lines) - 1))
        elif fmt == "ini":
            pos = rng.randrange(1, len(lines) + 1)
        else:
            pos = rng.randrange(0, len(lines) + 1)
        lines.insert(min(pos, len(lines)), g.rstrip("\n"))
        text = "\n".join(lines)
        njunk = 1
    return text, {"plan": plan, "obsolete": nobs, "junk": njunk}


def mutate_raw(text, rng, n=1):
    """raw character mutations"""
    if rng.random() < 0.15:
        # a backslash at the end of a line or of the file
        lines = text.split("\n")
        i = rng.randrange(len(lines))
        lines[i] += "\\" * rng.randrange(1, 3)
        return "\n".join(lines)
    chars = list(text)
    alphabet = ['"', "'", "\\", "<", ">", "&", "=", "#", "\n", " ", "%", "{", "}", "�", ";", "-", "!", ":", "x"]
    for _ in range(n):
        if not chars:
            chars.append(rng.choice(alphabet))
            continue
        r = rng.random()
        p = rng.randrange(len(chars))
        if r < 0.35:
            del chars[p]
        elif r < 0.7:
            chars.insert(p, rng.choice(alphabet))
        elif r < 0.85:
            chars[p] = rng.choice(alphabet)
        else:
            q = rng.randrange(len(chars))
            a, b = min(p, q), max(p, q)
            chars[a:b] = chars[a:b] + chars[a:b][:8]
    return "".join(chars)

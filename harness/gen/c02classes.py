"""C02 round 4: generators of the printed CLASSES of the list theorems (Props/C02.lean sections 12 ff.).

Every generator mirrors one Lean class (`C02P.PoBlock`, `C02P.PBlock`, ...): it draws a block list inside the
class, prints it, and computes BY CONSTRUCTION (never by calling a parser)
  * the expected entries with all their spans, in the canonical form of `impl.parse.show_entry`
    ("E full start end ks ke vs ve pcs pce", "W ...", "C ...", "J ...", "S ...", "I ..."),
  * the expected entity views [key, raw, val, comment] and the expected junk texts.
The unescaped values come from independent one-pass references handed in by the caller.
"""

WS = " \t\n"


def E(kind, full, s, e, ks=-1, ke=-1, vs=-1, ve=-1, pc=None):
    return "%s %d %d %d %d %d %d %d %s" % (kind, full, s, e, ks, ke, vs, ve, "%d %d" % pc if pc else "-1 -1")


def W(p, n):
    return E("W", p, p, p + n, p, p + n, p, p + n)


def C(a, b):
    return E("C", a, a, b)


def J(a, b):
    return E("J", a, a, b)


PLAIN = "abcxyzABCZ0189.,;-_()[]{}%$@~*+/|^`?éßжλ中☃\U0001F600"


def plain(rng, extra="", forbid="", lo=0, hi=6):
    pool = [c for c in PLAIN + extra if c not in forbid]
    return "".join(rng.choice(pool) for _ in range(rng.randrange(lo, hi + 1)))


def ws(rng, lo=0, hi=3, alphabet=WS, cr=True):
    a = alphabet + ("\r" if cr and rng.random() < 0.1 else "")
    return "".join(rng.choice(a) for _ in range(rng.randrange(lo, hi + 1)))


class Doc:
    def __init__(self, fmt):
        self.fmt, self.text, self.entries, self.views, self.junk, self.features = fmt, "", [], [], [], set()

    @property
    def off(self):
        return len(self.text)


# =============================================================================================== PO
PO_ESC = {"\\": "\\", "t": "\t", "r": "\r", "n": "\n", '"': '"'}


def po_frag(rng):
    """(printed tokens, value by construction)"""
    raw, val = [], []
    for _ in range(rng.randrange(0, 5)):
        if rng.random() < 0.65:
            t = plain(rng, extra=" '=:#!<>&%trn", forbid='"', lo=1, hi=4)
            raw.append(t)
            val.append(t)
        else:
            c = rng.choice('\\trn"')
            raw.append("\\" + c)
            val.append(PO_ESC[c])
    return "".join(raw), "".join(val)


def po_strlist(rng, first_ws=None):
    n = rng.choice([1, 1, 1, 2, 2, 3])
    text, val, frags = "", "", []
    for i in range(n):
        w = ws(rng, 0, 2) if (i > 0 or first_ws is None) else first_ws
        raw, v = po_frag(rng)
        if i == 0 and n > 1 and rng.random() < 0.5:
            raw, v = "", ""           # the gettext style: `msgid ""` then the lines
        text += w + '"' + raw + '"'
        val += v
        frags.append(raw)
    return text, val, frags


def po_comment(rng):
    if rng.random() < 0.3:
        # a comment whose text is a complete record: the key regex matches inside it
        return rng.choice(['#| msgid "old"\n', '#| msgctxt "c"\n#| msgid "old id"\n', '#~ msgid "gone"\n#~ msgstr "weg"\n',
                           '# msgid "x"\n# msgstr "y"\n'])
    return "".join("#" + rng.choice(["", " ", ". ", ": ", ", ", "~ ", "| "]) + plain(rng, extra=' =:\\"#', hi=8) + "\n"
                   for _ in range(rng.randrange(1, 4)))


def garbage(rng, d, g, gap):
    """one garbage line (with the white-space after it) at the current offset: ONE junk entry, exactly this text"""
    off = d.off
    d.text += g + gap
    d.entries.append(J(off, off + len(g) + len(gap)))
    d.junk.append(g + gap)
    d.features.add(d.fmt + ".garbage")


def po_garbage(rng):
    g = plain(rng, extra=" '=:!<>&%", forbid='"# \t', lo=1, hi=1) + plain(rng, extra=" '=:!<>&%\"", forbid="#", hi=10)
    return g.replace("m", "n"), ws(rng, 1, 3, cr=False)


def po_block(rng, d, ref_unescape, first):
    """append one block of `C02P.PoBlock` to the document"""
    off = d.off
    if rng.random() < 0.2:
        # free comment: comment lines + white-space with at least two newlines
        c = po_comment(rng)
        gap = list(ws(rng, 0, 2, cr=False)) + ["\n", "\n"]
        rng.shuffle(gap)
        gap = "".join(gap)
        d.text += c + gap
        d.entries += [C(off, off + len(c)), W(off + len(c), len(gap))]
        d.features.add("po.free_comment")
        return
    c = po_comment(rng) if rng.random() < 0.5 else ""
    cgap = ""
    if c and rng.random() < 0.4:
        cgap = rng.choice(["\n", " ", "\t", " \n ", "\n  "])       # at most ONE newline: still attached
        d.features.add("po.comment_gap")
    st = off + len(c) + len(cgap)
    ctxt_text, ctxt_val = "", None
    if rng.random() < 0.35:
        t, ctxt_val, _ = po_strlist(rng, first_ws=rng.choice([" ", " ", "", "\t"]))
        ctxt_text = "msgctxt" + t + ws(rng, 0, 2)
        d.features.add("po.msgctxt")
    empty_id = rng.random() < 0.1      # the header record `msgid ""`
    if empty_id:
        id_text, id_val = ' ""', ""
    else:
        id_text, id_val, fr = po_strlist(rng, first_ws=rng.choice([" ", " ", "", "\t"]))
        if len(fr) > 1:
            d.features.add("po.multi_fragment")
    sep = ws(rng, 0, 2) if rng.random() < 0.8 else "\n"
    str_text, str_val, _ = po_strlist(rng, first_ws=rng.choice([" ", " ", "", "\t"]))
    body = ctxt_text + "msgid" + id_text + sep + "msgstr" + str_text
    gap = ws(rng, 0, 3) if rng.random() < 0.9 else ""
    # the independent reference is applied to the printed fragments as a cross-check of the values by construction
    d.text += c + cgap + body + gap
    e = st + len(body)
    id_end = st + len(ctxt_text) + 5 + len(id_text)
    d.entries.append(E("E", off, st, e, st, id_end, id_end + len(sep), e, (off, off + len(c)) if c else None))
    if gap:
        d.entries.append(W(e, len(gap)))
    d.views.append([[id_val, ctxt_val], "msgstr" + str_text, str_val if str_val else id_val, c if c else None])
    if "\\" in body:
        d.features.add("po.escape")
    if c:
        d.features.add("po.attached_comment")
    if empty_id:
        d.features.add("po.header")


def gen_po(rng, ref_unescape=None, with_garbage=False):
    d = Doc("po")
    for i in range(rng.choice([1, 2, 3, 3, 4, 6])):
        if with_garbage and rng.random() < 0.4:
            garbage(rng, d, *po_garbage(rng))
        po_block(rng, d, ref_unescape, i == 0)
    if with_garbage and rng.random() < 0.3:
        garbage(rng, d, *po_garbage(rng))
    return d


# =============================================================================================== properties
def props_line(rng, odd, first, last):
    """one physical line of a value: text not ending in a backslash + a run of backslashes of the given parity"""
    pieces = []
    for _ in range(rng.randrange(0, 4)):
        r = rng.random()
        if r < 0.5:
            pieces.append(plain(rng, extra=" =:#!'\"<>&\t", lo=1, hi=5))
        elif r < 0.65:
            pieces.append("\\u%04x" % rng.choice([0x41, 0xe9, 0x4e2d, 0x20]))
        elif r < 0.8:
            pieces.append("\\" + rng.choice("nrt\\"))
        else:
            pieces.append("\\" + rng.choice("q:=# !'\"aUxz-0"))
    body = "".join(pieces)
    run = rng.choice([1, 1, 3]) if odd else rng.choice([0, 0, 0, 2])
    if first:
        body = body.lstrip(" \t")
    strip = " \t\r\\" if (last and run == 0) else "\\"
    while body and body[-1] in strip:          # the stretch before the final run does not end in a backslash;
        body = body[:-1]                       # a last line without final backslashes does not end in white-space
    return body + "\\" * run


def props_value(rng):
    n = rng.choice([0, 0, 0, 1, 1, 2])
    lines = [props_line(rng, True, i == 0, False) for i in range(n)]
    lines.append(props_line(rng, False, n == 0, True))
    for i in range(1, len(lines)):
        if rng.random() < 0.7 and lines[i] != "":
            lines[i] = rng.choice([" ", "   ", "\t"]) + lines[i]      # indentation of a continuation line
    return "\n".join(lines)


def props_comment_lines(rng):
    if rng.random() < 0.3:
        return rng.sample(["#old.key=old value", "! other : x", "# k2 = v\\u0041", "#a=b"], rng.randrange(1, 3))
    return [rng.choice("#!") + rng.choice(["", " "]) + plain(rng, extra=" =:#!\\", hi=8) for _ in range(rng.randrange(1, 4))]


def props_garbage(rng):
    g = plain(rng, forbid="=:#! \t", lo=1, hi=1) + plain(rng, extra=" \t'\"<>&\\", forbid="=:#!", hi=10)
    return g, "\n" + ws(rng, 0, 3, cr=False)


def props_key(rng, i):
    first = rng.choice("abzAZ_0.-[é中")
    rest = plain(rng, extra="#!'\r", forbid=" \t=:\n", hi=4)
    return first + "%d" % i + rest


def props_block(rng, d, ref_unescape, i):
    off = d.off
    if rng.random() < 0.2:
        c = "\n".join(props_comment_lines(rng))
        chars = list(ws(rng, 0, 2, cr=False)) + ["\n"]
        rng.shuffle(chars)
        gap = "\n" + "".join(chars)           # starts with a newline, has at least two
        d.text += c + gap
        d.entries += [C(off, off + len(c)), W(off + len(c), len(gap))]
        d.features.add("properties.free_comment")
        return
    lines = props_comment_lines(rng) if rng.random() < 0.5 else []
    c = "\n".join(lines)
    cgap = ("\n" + ws(rng, 0, 2, alphabet=" \t", cr=False)) if lines else ""
    key = props_key(rng, i)
    sep = ws(rng, 0, 2, alphabet=" \t", cr=False) + rng.choice("=:") + ws(rng, 0, 2, alphabet=" \t", cr=False)
    raw = props_value(rng)
    gap = "\n" + ws(rng, 0, 3, cr=False)
    ks = off + len(c) + len(cgap)
    vs = ks + len(key) + len(sep)
    ve = vs + len(raw)
    d.text += c + cgap + key + sep + raw + gap
    d.entries += [E("E", off, ks, ve, ks, ks + len(key), vs, ve, (off, off + len(c)) if lines else None), W(ve, len(gap))]
    d.views.append([key, raw, ref_unescape(raw), "\n".join(l[1:] for l in lines) if lines else None])
    if "\n" in raw:
        d.features.add("properties.continuation")
    if "\\" in raw:
        d.features.add("properties.escape")
    if len(lines) > 1:
        d.features.add("properties.multiline_comment")
    if any(l[0] == "!" for l in lines):
        d.features.add("properties.bang_comment")
    if len(gap.strip(" \t")) > 1:
        d.features.add("properties.blank_lines")


def gen_props(rng, ref_unescape, with_garbage=False):
    d = Doc("properties")
    for i in range(rng.choice([1, 2, 3, 3, 4, 6])):
        if with_garbage and rng.random() < 0.4:
            garbage(rng, d, *props_garbage(rng))
        props_block(rng, d, ref_unescape, i)
    if with_garbage and rng.random() < 0.3:
        garbage(rng, d, *props_garbage(rng))
    return d


# =============================================================================================== ini
def ini_gap(rng):
    """white-space that starts and ends with a newline"""
    return "\n" + rng.choice(["", "", "\n", " \n", "\t\n\n", "\n\n"])


def ini_comment_lines(rng):
    if rng.random() < 0.3:
        return rng.sample(["; old=value", "#k2=v2", "; [Section]", "#a=b=c"], rng.randrange(1, 3))
    return [rng.choice(";#") + plain(rng, extra=" =;#[]\\", hi=8) for _ in range(rng.randrange(1, 4))]


def ini_garbage(rng):
    g = plain(rng, forbid="=[;# \t", lo=1, hi=1) + plain(rng, extra=" \t'\"<>&;#]", forbid="=[", hi=10)
    return g, "\n" * rng.choice([1, 1, 2, 3])


def ini_block(rng, d, i):
    off = d.off
    r = rng.random()
    if r < 0.2:
        # section header, optionally with comment lines directly before it (a stand-alone comment for the parser)
        pre = ini_comment_lines(rng) if rng.random() < 0.4 else []
        name = plain(rng, extra=" .:#;", forbid="]=", lo=0, hi=8)
        gap = ini_gap(rng)
        c = "\n".join(pre)
        if pre:
            d.entries += [C(off, off + len(c)), W(off + len(c), 1)]
            d.text += c + "\n"
            d.features.add("ini.comment_before_section")
        p = d.off
        d.text += "[" + name + "]" + gap
        d.entries += [E("S", p, p, p + len(name) + 2, p + 1, p + 1 + len(name), p + 1, p + 1 + len(name)),
                      W(p + len(name) + 2, len(gap))]
        d.features.add("ini.section")
        return
    if r < 0.35:
        lines = ini_comment_lines(rng)
        c = "\n".join(lines)
        gap = "\n" + rng.choice(["\n", " \n", "\n\n", "\t\n\n"])
        d.text += c + gap
        d.entries += [C(off, off + len(c)), W(off + len(c), len(gap))]
        d.features.add("ini.free_comment")
        return
    lines = ini_comment_lines(rng) if rng.random() < 0.5 else []
    c = "\n".join(lines)
    cgap = ("\n" + ws(rng, 0, 2, alphabet=" \t", cr=False)) if lines else ""
    key = plain(rng, forbid="=[;# \t", lo=1, hi=1) + "%d" % i + plain(rng, extra=" #;:!\\'\t[]", forbid="=", hi=4)
    val = plain(rng, extra=" =:#!;[]\\'\"<>&\t", hi=12)
    gap = ini_gap(rng)
    ks = off + len(c) + len(cgap)
    d.text += c + cgap + key + "=" + val + gap
    ve = ks + len(key) + 1 + len(val)
    d.entries += [E("E", off, ks, ve, ks, ks + len(key), ks + len(key) + 1, ve, (off, off + len(c)) if lines else None),
                  W(ve, len(gap))]
    d.views.append([key, val, val, "\n".join(l[1:] for l in lines) if lines else None])
    if lines:
        d.features.add("ini.attached_comment")
    if len(gap) > 1:
        d.features.add("ini.blank_lines")


def gen_ini(rng, with_garbage=True):
    d = Doc("ini")
    for i in range(rng.choice([1, 2, 3, 4, 5, 7])):
        if with_garbage and rng.random() < 0.3:
            garbage(rng, d, *ini_garbage(rng))
        ini_block(rng, d, i)
    if with_garbage and rng.random() < 0.3:
        garbage(rng, d, *ini_garbage(rng))
    return d


# =============================================================================================== inc
def inc_comment_texts(rng):
    if rng.random() < 0.3:
        return rng.sample(["#define OLD value", "#define X", "#filter emptyLines", "#include foo"], rng.randrange(1, 3))
    return [plain(rng, extra=" =;#\\", hi=8) for _ in range(rng.randrange(1, 4))]


def inc_garbage(rng):
    g = plain(rng, forbid="#", lo=1, hi=1) + plain(rng, extra=" \t'\"<>&=", forbid="#", hi=10)
    return g, "\n" * rng.choice([1, 1, 2, 3])


def inc_block(rng, d, i, fel):
    """returns the new value of ctx.filter_empty_lines"""
    off = d.off
    r = rng.random()
    if r < 0.3:
        word, arg = rng.choice([("filter", "emptyLines"), ("unfilter", "emptyLines"), ("include", "foo.inc"), ("expand", "x y"),
                                ("filter", "substitution"), ("if", "X == 1")])
        text = "#" + word + " " * rng.choice([1, 1, 2]) + arg
        val = text[1:]
        if val == "filter emptyLines":
            fel = True
        elif val == "unfilter emptyLines":
            fel = False
        gap = "\n" * (rng.choice([1, 2, 3]) if fel else 1)
        d.text += text + gap
        d.entries += [E("I", off, off, off + len(text), off + 1, off + len(text), off + 1, off + len(text)),
                      W(off + len(text), len(gap))]
        d.features.add("inc.instruction")
        if len(gap) > 1:
            d.features.add("inc.blank_lines_under_filter")
        return fel
    if r < 0.45 and fel:
        ts = inc_comment_texts(rng)
        c = "\n".join("# " + x for x in ts)
        gap = "\n" * rng.choice([2, 3])
        d.text += c + gap
        d.entries += [C(off, off + len(c)), W(off + len(c), len(gap))]
        d.features.add("inc.free_comment")
        return fel
    ts = inc_comment_texts(rng) if rng.random() < 0.5 else []
    c = "\n".join("# " + x for x in ts)
    pre = (c + "\n") if ts else ""
    key = "".join(rng.choice("abzAZ_09") for _ in range(rng.randrange(1, 4))) + "_%d" % i
    val = plain(rng, extra=" =:#!;\\'\"<>&\t", hi=10)
    gap = "\n" * (rng.choice([1, 1, 2, 3]) if fel else 1)
    blank_junk = (not fel) and rng.random() < 0.15
    ks0 = off + len(pre)
    text = "#define " + key + ((" " + val) if val else "")
    d.text += pre + text + gap
    e = ks0 + len(text)
    kst = ks0 + 8
    d.entries += [E("E", off, ks0, e, kst, kst + len(key), (kst + len(key) + 1) if val else -1, e if val else -1,
                    (off, off + len(c)) if ts else None), W(e, len(gap))]
    d.views.append([key, val, val, "\n".join(ts) if ts else None])
    if blank_junk:
        # (outside the Lean class, by the documented rule) blank lines while `filter_empty_lines` is off: the run of newlines
        # is ONE junk entry instead of a white-space entry
        d.entries.pop()
        gap2 = "\n" * rng.choice([2, 3])
        d.text = d.text[:len(d.text) - len(gap)] + gap2
        d.entries.append(J(e, e + len(gap2)))
        d.junk.append(gap2)
        d.features.add("inc.blank_lines_junk")
    if ts:
        d.features.add("inc.attached_comment")
    if not val:
        d.features.add("inc.no_value")
    if len(gap) > 1:
        d.features.add("inc.blank_lines_under_filter")
    return fel


def gen_inc(rng, with_garbage=True):
    d = Doc("inc")
    fel = False
    if rng.random() < 0.5:
        gap = "\n" * rng.choice([1, 2])
        d.text += "#filter emptyLines" + gap
        d.entries += [E("I", 0, 0, 18, 1, 18, 1, 18), W(18, len(gap))]
        fel = True
    for i in range(rng.choice([1, 2, 3, 4, 5, 7])):
        if with_garbage and rng.random() < 0.3:
            garbage(rng, d, *inc_garbage(rng))
        fel = inc_block(rng, d, i, fel)
    if with_garbage and rng.random() < 0.3:
        garbage(rng, d, *inc_garbage(rng))
    return d


# =============================================================================================== dtd
def dtd_comment(rng):
    """<!-- text -->: characters of CharMinusDash, single dashes inside, no `--`, not ending in a dash"""
    if rng.random() < 0.3:
        t = rng.choice([' Was: <!ENTITY second "zwei"> ', "<!ENTITY old 'v'>", ' <!ENTITY % p SYSTEM "u"> %p; ', ' x <!ENTITY a.b "c"> y '])
    else:
        t = plain(rng, extra=" \n<>&\"'=!%", forbid="-\U0001F600", hi=10)
        if rng.random() < 0.4:
            t += "-x" + plain(rng, forbid="-\U0001F600", hi=3) + "-y"
    return "<!--" + t + "-->", t


def dtd_name(rng, i):
    return rng.choice("abzAZ") + "".join(rng.choice("abzAZ09.-") for _ in range(rng.randrange(0, 4))) + "%d" % i


def dtd_garbage(rng):
    g = plain(rng, forbid="< \t\ufeff", lo=1, hi=1) + plain(rng, extra=" \t\n'\">&=!%", forbid="<", hi=10)
    return g, ws(rng, 1, 3, cr=False)


def dtd_block(rng, d, i, ref_unescape, after_garbage):
    off = d.off
    r = rng.random()
    if r < 0.15:
        c, t = dtd_comment(rng)
        chars = list(ws(rng, 0, 2, cr=False)) + ["\n", "\n"]
        rng.shuffle(chars)
        gap = "".join(chars)
        d.text += c + gap
        d.entries += [C(off, off + len(c)), W(off + len(c), len(gap))]
        d.features.add("dtd.free_comment")
        return
    if r < 0.3 and not after_garbage:
        # parameter entity: Parser.getNext reports junk, DTDParser.getNext matches rePE (dtd.py lines 110-111)
        name = dtd_name(rng, i)
        q = rng.choice("\"'")
        url = plain(rng, extra="/:.", forbid=q, lo=1, hi=8)
        w = lambda lo: ws(rng, lo, max(lo, 2), cr=False)
        head = "<!ENTITY" + w(1) + "%" + w(1)
        mid = w(1) + "SYSTEM" + w(1)
        text = head + name + mid + q + url + q + w(0) + ">" + w(0) + "%" + dtd_name(rng, i) + ";" + ws(rng, 0, 2, alphabet=" \t", cr=False) + "\n"
        gap = ws(rng, 0, 2, cr=False)
        d.text += text + gap
        ks = off + len(head)
        vs = ks + len(name) + len(mid)
        d.entries.append(E("E", off, off, off + len(text), ks, ks + len(name), vs, vs + len(url) + 2))
        if gap:
            d.entries.append(W(off + len(text), len(gap)))
        raw = q + url + q
        d.views.append([name, raw, ref_unescape(raw), None])
        d.features.add("dtd.parameter_entity")
        return
    c, t = dtd_comment(rng) if rng.random() < 0.5 else ("", None)
    cgap = rng.choice(["", "\n", " ", "\n  ", "\t"]) if c else ""
    name = dtd_name(rng, i)
    q = rng.choice("\"\"'")
    # `&` only in complete references (html.unescape is lenient about unterminated ones: outside the documented rules)
    val = plain(rng, extra=" <>='\"\n%#!;", forbid=q, hi=6)
    if rng.random() < 0.3:
        val += rng.choice(["&amp;", "&lt;b&gt;", "&#65;", "&#x4e2d;", "&brandShortName;"]) + plain(rng, extra=" <>=", forbid=q, hi=4)
    w1, w2, w3 = ws(rng, 1, 2, cr=False), ws(rng, 1, 2, cr=False), ws(rng, 0, 2, cr=False)
    gap = ws(rng, 0, 3, cr=False)
    ks0 = off + len(c) + len(cgap)
    text = "<!ENTITY" + w1 + name + w2 + q + val + q + w3 + ">"
    d.text += c + cgap + text + gap
    ks = ks0 + 8 + len(w1)
    vs = ks + len(name) + len(w2) + 1
    d.entries.append(E("E", off, ks0, ks0 + len(text), ks, ks + len(name), vs, vs + len(val), (off, off + len(c)) if c else None))
    if gap:
        d.entries.append(W(ks0 + len(text), len(gap)))
    d.views.append([name, val, ref_unescape(val), t])
    if c:
        d.features.add("dtd.attached_comment")
    if q == "'":
        d.features.add("dtd.single_quoted")


def gen_dtd(rng, ref_unescape, with_garbage=True):
    d = Doc("dtd")
    if rng.random() < 0.3:
        d.text += "\ufeff"
        d.features.add("dtd.bom")
    for i in range(rng.choice([1, 2, 3, 4, 5, 7])):
        g = with_garbage and rng.random() < 0.3
        if g:
            garbage(rng, d, *dtd_garbage(rng))
        dtd_block(rng, d, i, ref_unescape, g)
    if with_garbage and rng.random() < 0.3:
        garbage(rng, d, *dtd_garbage(rng))
    return d

"""Integrate the work of a deepening agent (private copy of /verif with its own .git) into /verif.

usage: integrate2.py <agent dir> [--dry]
 * new (untracked) files are copied (never evidence/, replays/, seeded/, .lake, __pycache__)
 * files the agent modified are 3-way merged: base = the agent copy's HEAD version, mine = /verif's current file;
   lean/CLModel.lean, lean/Driver.lean and harness/translate.py with --union, the others strictly (conflicts are listed
   and the file is left untouched, the agent's version is saved as <file>.theirs for manual resolution)
 * NOTES-*.md in the agent's root or docs/notes are copied to docs/notes
"""
import os
import shutil
import subprocess
import sys

VERIF = os.path.dirname(os.path.dirname(os.path.abspath(__file__)))
SKIP = ("check", "evidence/", "replays/", "seeded/", "lean/.lake", "lean/.lock", "docs/MODEL_MAP.md", "harness/fingerprints.json")
UNION = ("lean/CLModel.lean", "lean/Driver.lean", "harness/translate.py")


def sh(*cmd, cwd=None):
    return subprocess.run(cmd, cwd=cwd, stdout=subprocess.PIPE, stderr=subprocess.STDOUT).stdout.decode(errors="replace")


def fix_driver():
    """a union merge of lean/Driver.lean may duplicate the `allOps` definition or put an import after it: normalise"""
    import re
    p = os.path.join(VERIF, "lean", "Driver.lean")
    s = open(p).read()
    hdr = "def allOps : List (String × (List String → String)) :=\n  "
    pat = re.compile(re.escape(hdr) + r"(.*)\n")
    imports, rest = [], []
    for l in s.split("\n"):
        if l.startswith("import "):
            if l not in imports:
                imports.append(l)
        else:
            rest.append(l)
    body = "\n".join(rest)
    ops = []
    for d in pat.findall(body):
        for t in d.split(" ++ "):
            if t.strip() and t.strip() not in ops:
                ops.append(t.strip())
    state = {"first": True}

    def repl(m):
        if state["first"]:
            state["first"] = False
            return hdr + " ++ ".join(ops) + "\n"
        return ""
    body = pat.sub(repl, body)
    lines = body.split("\n")
    lead = []
    while lines and (lines[0] == "" or (lines[0].startswith("/-") and "-/" in lines[0]) or lines[0].startswith("--")):
        lead.append(lines.pop(0))
    out = re.sub(r"\n{3,}", "\n\n", "\n".join(lead + imports + [""] + lines))
    if out != s:
        open(p, "w").write(out)
        print("normalised lean/Driver.lean")


def main():
    src = os.path.abspath(sys.argv[1])
    dry = "--dry" in sys.argv
    st = sh("git", "status", "--porcelain", "--untracked-files=all", cwd=src).splitlines()
    new, mod, conflicts = [], [], []
    for line in st:
        code, rel = line[:2], line[3:].strip().strip('"')
        if rel.startswith(SKIP) or "__pycache__" in rel or rel.endswith((".pyc", ".olean")) or "/.audit_" in rel:
            continue
        if code == "??":
            new.append(rel)
        elif "M" in code or "A" in code:
            mod.append(rel)
        elif "D" in code:
            print("agent DELETED", rel, "(ignored)")
    for rel in new:
        dst = os.path.join(VERIF, rel)
        if os.path.basename(rel).startswith("NOTES-") and not rel.startswith("docs/notes/"):
            dst = os.path.join(VERIF, "docs", "notes", os.path.basename(rel))
        if os.path.exists(dst):
            same = open(dst, "rb").read() == open(os.path.join(src, rel), "rb").read()
            if not same:
                print("NEW-BUT-EXISTS (kept mine, theirs saved as .theirs):", rel)
                if not dry:
                    shutil.copy2(os.path.join(src, rel), dst + ".theirs")
            continue
        print("new ", rel)
        if not dry:
            os.makedirs(os.path.dirname(dst), exist_ok=True)
            shutil.copy2(os.path.join(src, rel), dst)
    for rel in mod:
        mine = os.path.join(VERIF, rel)
        theirs = os.path.join(src, rel)
        base = "/tmp/_integrate_base"
        with open(base, "wb") as f:
            f.write(subprocess.run(["git", "show", "HEAD:" + rel], cwd=src, stdout=subprocess.PIPE).stdout)
        if not os.path.exists(mine):
            print("modified by agent but missing here, copied:", rel)
            if not dry:
                shutil.copy2(theirs, mine)
            continue
        if open(mine, "rb").read() == open(base, "rb").read():
            print("mod  ", rel, "(fast-forward)")
            if not dry:
                shutil.copy2(theirs, mine)
            continue
        if open(mine, "rb").read() == open(theirs, "rb").read():
            continue
        args = ["git", "merge-file", "-p"] + (["--union"] if rel in UNION else []) + [mine, base, theirs]
        p = subprocess.run(args, stdout=subprocess.PIPE, stderr=subprocess.PIPE)
        if p.returncode == 0 or rel in UNION:
            print("merge", rel, "(3-way%s)" % (", union" if rel in UNION else ""))
            if not dry:
                with open(mine, "wb") as f:
                    f.write(p.stdout)
        else:
            conflicts.append(rel)
            print("CONFLICT", rel, "-> saved theirs as", rel + ".theirs")
            if not dry:
                shutil.copy2(theirs, mine + ".theirs")
    if not dry:
        fix_driver()
    print("%d new, %d modified, %d conflicts" % (len(new), len(mod), len(conflicts)))


if __name__ == "__main__":
    main()

"""Regenerates MANIFEST.json from the list of property modules that are ready."""
import importlib
import json
import os
import sys

HERE = os.path.dirname(os.path.abspath(__file__))
VERIF = os.path.dirname(HERE)
sys.path.insert(0, HERE)

READY = [l.strip() for l in open(os.path.join(HERE, "ready.txt")) if l.strip() and not l.startswith("#")]
ALL = [json.loads(l)["id"] for l in open(os.path.join(VERIF, "properties.jsonl"))]


def main():
    checks = []
    for pid in READY:
        mod = importlib.import_module("props.%s" % pid.lower())
        checks.append({
            "property_id": pid,
            "quick_cmd": "./check %s --tier quick" % pid,
            "thorough_cmd": "./check %s --tier thorough" % pid,
            "evidence_file": "evidence/%s.json" % pid,
            "replay_cmd_template": "./check %s --replay {path}" % pid,
            "engine": "lean-proof+correspondence",
            "level_claimed": {
                "category": "proof",
                "text": mod.LEVEL_TEXT,
                "design_ref": "DESIGN.md §3 %s" % pid,
            },
            "level_note": mod.LEVEL_NOTE,
            "technique": getattr(mod, "TECHNIQUE", "Lean 4 proof over executable model + differential correspondence + by-construction oracle"),
        })
    na = [{"property_id": p, "reason": "check not built yet in this round (model and theorems pending); the technique applies"}
          for p in ALL if p not in READY]
    man = {
        "version": 1,
        "setup_cmd": "./setup.sh",
        "hooks": {
            "guard": "COMPARE_LOCALES_VERIF",
            "enable": "no source hooks: all observation is from outside (in-process adapters, audit hooks, subprocess watchdog); the variable is exported by ./check for completeness",
            "baseline_off_cmd": "cd /repo && /venv/bin/python -m pytest -ra -q -p no:cacheprovider --timeout=900 --continue-on-collection-errors",
            "source_commits": [],
            "add_only": True,
        },
        "engines": [{
            "name": "lean-proof+correspondence",
            "path": "lean/ harness/",
            "serves_properties": READY,
            "kind_free_text": "Lean 4 theorems over an executable model (lake build + #print axioms audit), model regenerated/tied to /repo by harness/translate.py and by differential execution against the native driver cldriver; direct property oracle on the implementation for replays",
        }],
        "checks": checks,
        "not_applicable": na,
        "notes": "See DESIGN.md. Exit 2 = infrastructure failure, never a VIOLATION.",
    }
    with open(os.path.join(VERIF, "MANIFEST.json"), "w") as f:
        json.dump(man, f, indent=1)
        f.write("\n")


main()

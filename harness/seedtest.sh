#!/bin/sh
# usage: seedtest.sh <ID> <patch> <demo> [check ids...]   — confirms a seeded change and runs the checks against it
ID="$1"; PATCH="$2"; DEMO="$3"; shift 3
WT=/tmp/wt/seedtest-$$
git -C /repo worktree add -q --detach "$WT" HEAD || exit 2
cd "$WT"
echo "== clean: demo"; PYTHONPATH="$WT" /venv/bin/python "$DEMO" >/dev/null 2>&1; echo "demo_clean_rc=$?"
git apply "$PATCH" || { echo "patch does not apply"; git -C /repo worktree remove --force "$WT"; exit 2; }
echo "== patched: test suite"; PYTHONPATH="$WT" /venv/bin/python -m pytest -q -p no:cacheprovider compare_locales 2>&1 | tail -1
echo "== patched: demo"; PYTHONPATH="$WT" /venv/bin/python "$DEMO" 2>&1 | tail -2; 
PYTHONPATH="$WT" /venv/bin/python "$DEMO" >/dev/null 2>&1; echo "demo_patched_rc=$?"
for C in "$@"; do
  echo "== check $C"; (cd /verif && VERIF_REPO="$WT" ./check "$C" --tier quick 2>&1 | grep -v "^KNOWN-FINDING" | tail -3)
done
cd /; git -C /repo worktree remove --force "$WT"; git -C /repo worktree prune

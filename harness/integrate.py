"""Integrate the work of a per-property build agent (private copy of /verif) into /verif.

usage: integrate.py <agent dir> [--base <commit>]
 * copies files that do not exist in /verif yet (never under .lake, evidence, replays)
 * 3-way merges harness/translate.py (base = the commit the copy was taken from)
 * adds missing import / ops lines to lean/Driver.lean and lean/CLModel.lean
 * lists every other shared file the agent modified, for manual review
"""
import filecmp
import os
import re
import shutil
import subprocess
import sys

VERIF = os.path.dirname(os.path.dirname(os.path.abspath(__file__)))
SKIP_DIRS = {".lake", "evidence", "replays", "__pycache__", ".git", "corpus"}


def main():
    src = sys.argv[1].rstrip("/")
    base = "aa9c439"
    if "--base" in sys.argv:
        base = sys.argv[sys.argv.index("--base") + 1]
    new, changed = [], []
    for root, dirs, files in os.walk(src):
        dirs[:] = [d for d in dirs if d not in SKIP_DIRS]
        for f in files:
            if f.endswith((".pyc", ".olean")) or f.startswith(".audit_") or f == ".lock":
                continue
            p = os.path.join(root, f)
            rel = os.path.relpath(p, src)
            dst = os.path.join(VERIF, rel)
            if rel.startswith("NOTES-"):
                dst = os.path.join(VERIF, "docs", "notes", rel)
            if not os.path.exists(dst):
                os.makedirs(os.path.dirname(dst), exist_ok=True)
                shutil.copy2(p, dst)
                new.append(rel)
            elif not filecmp.cmp(p, dst, shallow=False):
                changed.append(rel)
    print("new files (%d):" % len(new))
    for r in sorted(new):
        print("   ", r)
    manual = []
    for rel in sorted(changed):
        if rel == "harness/translate.py":
            basef = "/tmp/_translate_base.py"
            with open(basef, "w") as f:
                f.write(subprocess.check_output(["git", "-C", VERIF, "show", "%s:harness/translate.py" % base]).decode())
            rc = subprocess.call(["git", "merge-file", "--union", os.path.join(VERIF, rel), basef, os.path.join(src, rel)])
            print("merged translate.py, conflicts=%d" % rc)
        elif rel in ("lean/Driver.lean", "lean/CLModel.lean"):
            mine = open(os.path.join(VERIF, rel)).read()
            theirs = open(os.path.join(src, rel)).read()
            add = [l for l in theirs.splitlines() if l.startswith("import ") and l not in mine.splitlines()]
            if add:
                lines = mine.splitlines()
                last = max(i for i, l in enumerate(lines) if l.startswith("import "))
                lines[last + 1:last + 1] = add
                mine = "\n".join(lines) + "\n"
            if rel == "lean/Driver.lean":
                ops_t = re.findall(r"Ops\.\w+\.ops", theirs)
                ops_m = re.findall(r"Ops\.\w+\.ops", mine)
                for o in ops_t:
                    if o not in ops_m:
                        mine = mine.replace(ops_m[-1], ops_m[-1] + " ++ " + o, 1)
                        ops_m.append(o)
            open(os.path.join(VERIF, rel), "w").write(mine)
            print("updated", rel, "added imports:", add)
        elif rel in ("harness/ready.txt", "MANIFEST.json", "known_findings.json", "lean/lake-manifest.json") or rel.startswith("lean/CLModel/Gen/") or rel == "harness/gen_patterns.json":
            pass
        else:
            manual.append(rel)
    print("shared files modified by the agent (review by hand):")
    for r in manual:
        print("   ", r)


main()

"""Record the fingerprints of /repo's anchored files (run after the models were brought in line with a /repo change)."""
import os
import sys
sys.path.insert(0, os.path.dirname(os.path.abspath(__file__)))
from lib import fingerprints
print(fingerprints.record(), "files recorded")

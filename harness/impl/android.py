"""Adapter around the real AndroidParser / AndroidChecker; results in the canonical form of Ops/C09.lean.

A `spec` describes one <string> element:  {"content": xml text between the tags, "tr": None | str,
"comment": bool, "tag": "string" | other}.  It is placed in a real strings.xml document and parsed by the
real AndroidParser; for a tag other than `string` (for which the parser makes no entity) the AndroidEntity
is constructed the way handleElement does it."""
import functools
import re
import warnings

warnings.filterwarnings("ignore")

from compare_locales import parser as P
from compare_locales.checks import getChecker
from compare_locales.parser.android import AndroidEntity, textContent
from compare_locales.paths import File
from xml.dom import minidom

HEAD = ('<?xml version="1.0" encoding="utf-8"?>\n'
        '<resources xmlns:xliff="urn:oasis:names:tc:xliff:document:1.2">\n')
TAIL = "\n</resources>\n"
FILE = File("values/strings.xml", "values/strings.xml")


def enc(s):
    return "t:" + ",".join(str(ord(c)) for c in s)


def document(spec):
    attrs = ' name="foo"'
    if spec.get("tr") is not None:
        attrs += ' translatable="%s"' % spec["tr"]
    pre = "  <!-- a comment -->\n  " if spec.get("comment") else "  "
    tag = spec.get("tag", "string")
    return "%s%s<%s%s>%s</%s>%s" % (HEAD, pre, tag, attrs, spec["content"], tag, TAIL)


@functools.lru_cache(maxsize=8192)
def _entity(content, tr, comment, tag):
    spec = {"content": content, "tr": tr, "comment": comment, "tag": tag}
    text = document(spec)
    if tag == "string":
        p = type(P.getParser("strings.xml"))()
        p.readUnicode(text)
        ents = [e for e in p.walk() if isinstance(e, AndroidEntity)]
        if len(ents) != 1:
            return None
        return ents[0]
    try:
        doc = minidom.parseString(text.encode("utf-8"))
    except Exception:
        return None
    els = [n for n in doc.documentElement.childNodes if n.nodeType == n.ELEMENT_NODE]
    if len(els) != 1:
        return None
    el = els[0]
    return AndroidEntity(None, None, None, el, el.toxml(), el.getAttribute("name"), textContent(el),
                         "".join(c.toxml() for c in el.childNodes))


def entity(spec):
    return _entity(spec["content"], spec.get("tr"), bool(spec.get("comment")), spec.get("tag", "string"))


def node_tokens(e, attr_name="translatable"):
    n = e.node
    pre = ""
    if e.pre_comment is not None:
        pre += e.pre_comment.all
    if e.inner_white is not None:
        pre += e.inner_white.all
    toks = [enc(n.nodeName), enc(n.getAttribute(attr_name)) if n.hasAttribute(attr_name) else "-",
            enc(n.toxml()), enc(pre), str(len(n.childNodes))]
    for c in n.childNodes:
        if c.nodeType == c.TEXT_NODE:
            toks += ["T", enc(c.data)]
        elif c.nodeType == c.CDATA_SECTION_NODE:
            toks += ["C", enc(c.data)]
        else:
            toks.append("O")
    return toks, pre


FIXED = {
    "Incompatible resource types": "incompat",
    "Unsupported resource type": "unsupp",
    "strings must be translatable": "notrans",
    "Only plain text allowed, or one CDATA surrounded by whitespace": "notplain",
    "Double straight quotes not allowed": "dq",
    "Apostrophe must be escaped": "apos",
    "Mismatching formatter": "mismatch",
    "Formatter count mismatch": "count",
}
RE_CONFLICT = re.compile(r"Conflicting formatting, %(\d+)\$(.*?) vs %(\d+)\$(.*)\Z", re.S)
RE_NOREF = re.compile(r"Formatter %(\d+)\$(.*) not found in reference\Z", re.S)
RE_NOL10N = re.compile(r"Formatter %(\d+)\$(.*) not found in translation\Z", re.S)


def msg_code(msg, cat, key):
    if cat == "encodings":
        return "moji" if msg == "� in: %s" % key else "unknown:" + enc(msg)
    if cat != "android":
        return "badcat:" + enc(cat)
    if msg in FIXED:
        return FIXED[msg]
    m = RE_CONFLICT.match(msg)
    if m and m.group(1) == m.group(3):
        return "conflict/%s/%s/%s" % (m.group(1), enc(m.group(2)), enc(m.group(4)))
    m = RE_NOREF.match(msg)
    if m:
        return "noref/%s/%s" % (m.group(1), enc(m.group(2)))
    m = RE_NOL10N.match(msg)
    if m:
        return "nol10n/%s/%s" % (m.group(1), enc(m.group(2)))
    return "unknown:" + enc(msg)


def show_results(res, key):
    out = []
    for r in res:
        sev, pos, msg, cat = r
        s = {"error": "e", "warning": "w"}.get(sev, "?" + str(sev))
        out.append("%s %d %s" % (s, int(pos), msg_code(msg, cat, key)))
    return out


def impl_check(ref_spec, l10n_spec):
    """-> {"skip": why} | {"canon", "line", "res", "lval", "rval"}"""
    r = entity(ref_spec)
    l = entity(l10n_spec)
    if r is None or l is None:
        return {"skip": "no-entity"}
    rt, rpre = node_tokens(r)
    lt, lpre = node_tokens(l)
    line = "android.check " + " ".join(rt + lt)
    if r.all != rpre + r.node.toxml() or l.all != lpre + l.node.toxml():
        return {"skip": "all-differs", "line": line}
    checker = getChecker(FILE)
    try:
        res = [tuple(x) for x in checker.check(r, l)]
    except Exception as e:       # noqa
        return {"canon": "raise", "line": line, "res": [], "exc": "%s: %s" % (type(e).__name__, e),
                "lval": l.val, "rval": r.val}
    canon = " | ".join(["ok %s %s" % (enc(r.val), enc(l.val))] + show_results(res, l.key))
    return {"canon": canon, "line": line, "res": [[x[0], int(x[1]), x[2], x[3]] for x in res],
            "lval": l.val, "rval": r.val, "checker": type(checker).__name__}


def impl_params(text):
    from compare_locales.checks import android as A
    params, count, errors = A.get_params([text])
    ps = " ".join("%d=%s" % (k, enc(v)) for k, v in params.items())
    es = " ".join("%d:%s" % (pos, msg_code(msg, "android", "")) for msg, pos in errors)
    return "ok [%s] %d [%s]" % (ps, count, es)


def impl_apos(text):
    from compare_locales.checks import android as A
    return " | ".join(["ok"] + show_results(list(A.check_apostrophes(text)), ""))


# ====================================================================== round 4: the parser (Ops/C09.lean c09.*)
from compare_locales.checks.base import EntityPos  # noqa: E402
from compare_locales.parser.android import (AndroidParser, DocumentWrapper, XMLComment, XMLJunk,  # noqa: E402
                                            XMLWhitespace)

RE_JUNKKEY = re.compile(r"_junk_(\d+)_0-0\Z")


def dump_node(n):
    """minidom node -> tokens of Ops/C09.lean parseDNode (a plain structural dump: no parser logic here)"""
    t = n.nodeType
    if t == n.ELEMENT_NODE:
        attrs = n.attributes
        names = list(attrs.keys())
        toks = ["E", enc(n.nodeName), str(len(names))]
        for a in names:
            toks += [enc(a), enc(attrs[a].value)]
        toks.append(str(len(n.childNodes)))
        for c in n.childNodes:
            toks += dump_node(c)
        return toks
    if t == n.TEXT_NODE:
        return ["T", enc(n.data)]
    if t == n.CDATA_SECTION_NODE:
        return ["C", enc(n.data)]
    if t == n.COMMENT_NODE:
        return ["M", enc(n.data)]
    if t == n.PROCESSING_INSTRUCTION_NODE:
        return ["P", enc(n.target), enc(n.data)]
    if t == n.DOCUMENT_TYPE_NODE:
        return ["D", enc(n.name), enc(n.publicId or ""), "-" if n.systemId is None else enc(n.systemId),
                "-" if n.internalSubset is None else enc(n.internalSubset)]
    raise ValueError("node type %r" % t)


def dump_ctx(text):
    """the input of the walk model: what minidom.parseString makes of the text (an independent call)"""
    if text is None:
        return ["none"]
    try:
        doc = minidom.parseString(text.encode("utf-8"))
    except Exception:
        return ["err", enc(text)]
    toks = ["doc", enc(text), str(len(doc.childNodes))]
    for c in doc.childNodes:
        toks += dump_node(c)
    return toks


def build_node(doc, spec):
    """hand-made DOM nodes (not from the XML parser): ["E", name, [[a, v]…], [child…]] | ["T"|"C"|"M", data] | ["P", t, d]"""
    k = spec[0]
    if k == "E":
        el = doc.createElement(spec[1])
        for a, v in spec[2]:
            el.setAttribute(a, v)
        for c in spec[3]:
            el.appendChild(build_node(doc, c))
        return el
    if k == "T":
        return doc.createTextNode(spec[1])
    if k == "C":
        return doc.createCDATASection(spec[1])
    if k == "M":
        return doc.createComment(spec[1])
    if k == "P":
        return doc.createProcessingInstruction(spec[1], spec[2])
    raise ValueError(k)


def _toxml_canon(n):
    try:
        return "ok " + enc(n.toxml())
    except ValueError:
        return "raise"


def impl_toxml(kind, payload):
    """-> {"lines": [...], "canons": [...]}: `toxml()` of the document element and of each of its descendants
    (kind "text": parsed from the text) or of one hand-made node (kind "build")"""
    lines, canons = [], []
    if kind == "build":
        n = build_node(minidom.Document(), payload)
        lines.append("c09.toxml " + " ".join(dump_node(n)))
        canons.append(_toxml_canon(n))
        return {"lines": lines, "canons": canons}
    try:
        doc = minidom.parseString(payload.encode("utf-8"))
    except Exception:
        return {"lines": [], "canons": []}
    todo = list(doc.childNodes)
    while todo:
        n = todo.pop(0)
        lines.append("c09.toxml " + " ".join(dump_node(n)))
        canons.append(_toxml_canon(n))
        if n.nodeType == n.ELEMENT_NODE:
            todo += list(n.childNodes)
    return {"lines": lines, "canons": canons}


def _lit(tag, x, value_attr):
    if x is None:
        return "%s:-" % tag
    return "%s:%s;%s" % (tag, enc(x.all), enc(getattr(x, value_attr)))


def canon_entries(entries):
    """canonical form of Ops/C09.lean showEntries; -> (canon, facts) where facts feed the harness oracle"""
    parts = ["ok"]
    facts = {"entities": [], "junk": 0, "alls": [], "classes": []}
    for e in entries:
        key = e.key
        k = "-" if key is None else enc(key)
        if isinstance(e, DocumentWrapper):
            parts.append("W %s %s %s" % (k, enc(e.all), enc(e.raw_val)))
            facts["classes"].append("W")
        elif isinstance(e, XMLWhitespace):
            parts.append("S %s %s %s" % (k, enc(e.all), enc(e.raw_val)))
            facts["classes"].append("S")
        elif isinstance(e, XMLComment):
            parts.append("K %s %s %s" % (k, enc(e.all), enc(e.raw_val)))
            facts["classes"].append("K")
            if e.val != e.raw_val:
                parts.append("?comment-val")
        elif isinstance(e, AndroidEntity):
            parts.append("N %s %s %s %s %s %s" % (k, enc(e.all), enc(e.raw_val), enc(e._val_literal),
                                                 _lit("p", e.pre_comment, "val"), _lit("i", e.inner_white, "raw_val")))
            facts["entities"].append([e.key, e.raw_val, e.val, None if e.pre_comment is None else e.pre_comment.val])
            facts["classes"].append("N")
        elif isinstance(e, XMLJunk):
            m = RE_JUNKKEY.match(e.key)
            parts.append("J %s %s %s" % (m.group(1) if m else "?" + e.key, enc(e.all), enc(e.raw_val)))
            facts["junk"] += 1
            facts["classes"].append("J")
        else:
            parts.append("?" + type(e).__name__)
            facts["classes"].append("?")
        facts["alls"].append(e.all)
    return " | ".join(parts), facts


_REUSED = AndroidParser()


def _strip_counters(canon):
    return re.sub(r"(^| \| )J \d+ ", r"\1J # ", canon)


def impl_walk(text, ol):
    """one document through AndroidParser.walk(only_localizable=ol) with a fresh parser, and again through a parser
    object that lives as long as the worker process (history)"""
    start = XMLJunk.junkid
    p = AndroidParser()
    if text is not None:
        p.readUnicode(text)
    line = "c09.walk %d %d %s" % (1 if ol else 0, start, " ".join(dump_ctx(text)))
    try:
        entries = list(p.walk(only_localizable=ol))
    except Exception as e:       # noqa
        return {"canon": "raise", "line": line, "exc": "%s: %s" % (type(e).__name__, e)}
    canon, facts = canon_entries(entries)
    out = {"canon": canon, "line": line, "facts": facts}
    # history: the same text through the long-lived parser, twice
    try:
        again = []
        for _ in range(2):
            if text is not None:
                _REUSED.readUnicode(text)
            else:
                _REUSED.ctx = None
            again.append(_strip_counters(canon_entries(list(_REUSED.walk(only_localizable=ol)))[0]))
        out["history_same"] = again[0] == again[1] == _strip_counters(canon)
    except Exception as e:       # noqa
        out["history_same"] = False
        out["history_exc"] = "%s: %s" % (type(e).__name__, e)
    # Parser.parse() / __iter__ = walk(only_localizable=True)
    if ol and text is not None:
        try:
            q = AndroidParser()
            q.readUnicode(text)
            out["parse_same"] = _strip_counters(canon_entries(list(q.parse()))[0]) == _strip_counters(canon)
        except Exception as e:   # noqa
            out["parse_same"] = False
    return out


def impl_norm(text):
    from compare_locales.parser.android import normalize
    return "ok %s %d %d" % (enc(normalize(text)), text.count("\n"), text.count("\n"))


def impl_pos(text, offset):
    """position(offset) / value_position(offset) of every entry of walk()"""
    p = AndroidParser()
    if text is not None:
        p.readUnicode(text)
    line = "c09.pos %d %s" % (offset, " ".join(dump_ctx(text)))
    parts = ["ok"]
    wellformed = True
    for e in p.walk():
        a = e.position(offset)
        b = e.value_position(offset)
        for t in (a, b):
            if not (isinstance(t, tuple) and len(t) == 2 and all(type(x) is int for x in t)):
                wellformed = False
        parts.append("%s %s %s %s" % (a[0], a[1], b[0], b[1]))
    # the defaults (offset=0)
    defaults = [(e.position(), e.value_position()) for e in p.walk()]
    return {"canon": " | ".join(parts), "line": line, "wellformed": wellformed,
            "defaults_zero": all(a == (0, 0) and b == (0, 0) for a, b in defaults)}


def _check_results(checker, refent, l10nent):
    out = []
    for tp, pos, msg, cat in checker.check(refent, l10nent):
        # as ContentComparer.compare does
        if isinstance(pos, EntityPos):
            line, col = l10nent.position(pos)
        else:
            line, col = l10nent.value_position(pos)
        s = {"error": "e", "warning": "w"}.get(tp, "?" + str(tp))
        ok = isinstance(line, int) and isinstance(col, int) and line == 0 and col >= 0
        out.append("%s %s%s %s" % (s, "" if ok else "?%r," % (line,), col, msg_code(msg, cat, l10nent.key)))
    return out


def impl_doccheck(ref_text, l10n_text):
    """both documents through Parser.parse(); every localized AndroidEntity whose key the reference has through
    checker.check, with ONE checker for the document (as ContentComparer.compare) and with a fresh one per entity"""
    line = "c09.doccheck %s %s" % (" ".join(dump_ctx(ref_text)), " ".join(dump_ctx(l10n_text)))
    try:
        pr = AndroidParser()
        pr.readUnicode(ref_text)
        ref = pr.parse()
        pl = AndroidParser()
        pl.readUnicode(l10n_text)
        l10n = pl.parse()
    except Exception as e:       # noqa
        return {"canon": "raise", "line": line, "exc": "%s: %s" % (type(e).__name__, e)}
    checker = getChecker(FILE)
    parts, fresh, groups = ["ok"], ["ok"], []
    for e in l10n:
        if not isinstance(e, AndroidEntity) or e.key not in ref:
            continue
        refent = ref[e.key]
        if not isinstance(refent, AndroidEntity):
            continue
        for target, ck in ((parts, checker), (fresh, getChecker(FILE))):
            try:
                rs = _check_results(ck, refent, e)
            except Exception as ex:      # noqa
                rs = ["raise"]
                groups.append({"key": e.key, "exc": "%s: %s" % (type(ex).__name__, ex)})
            target.append(" ; ".join([enc(e.key)] + rs))
    return {"canon": " | ".join(parts), "line": line, "history_same": parts == fresh, "raised": groups,
            "checker": type(checker).__name__}


def impl_wrap(text, raw):
    """e.wrap(raw) of every AndroidEntity of the document -> (key, raw_val, all) of the LiteralEntity"""
    p = AndroidParser()
    p.readUnicode(text)
    line = "c09.wrap %s %s" % (enc(raw), " ".join(dump_ctx(text)))
    parts = ["ok"]
    kinds = []
    bad = []
    for e in p.walk(only_localizable=True):
        if not isinstance(e, AndroidEntity):
            continue
        try:
            w = e.wrap(raw)
            parts.append("%s %s %s" % (enc(w.key), enc(w.raw_val), enc(w.all)))
            kinds.append(type(w).__name__)
            # independent expectation: for plain content (one text node, or one CDATA section among white-space) the
            # wrapped text parses back to an entity with the same key and the new value
            cs = list(e.node.childNodes)
            cds = [c for c in cs if c.nodeType == c.CDATA_SECTION_NODE]
            txt = [c for c in cs if c.nodeType == c.TEXT_NODE]
            plain = len(cs) == len(cds) + len(txt) and ((len(cs) == 1 and len(txt) == 1) or (
                len(cds) == 1 and all(c.data.strip() == "" for c in txt)))
            if plain and raw != "" and raw.strip() == raw:
                q = AndroidParser()
                q.readUnicode("<resources>%s</resources>" % w.all)
                back = [x for x in q.walk() if isinstance(x, AndroidEntity)]
                if len(back) != 1 or back[0].key != e.key or back[0].raw_val != raw:
                    bad.append([e.key, w.all, [[x.key, x.raw_val] for x in back]])
        except (UnboundLocalError, ValueError) as ex:
            parts.append("raise:" + type(ex).__name__)
            kinds.append("raise")
    return {"canon": " | ".join(parts), "line": line, "kinds": kinds, "roundtrip_bad": bad}

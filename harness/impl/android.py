"""Adapter around the real AndroidParser / AndroidChecker; results in the canonical form of Ops/C09.lean.

A `spec` describes one <string> element:  {"content": xml text between the tags, "tr": None | str,
"comment": bool, "tag": "string" | other}.  It is placed in a real strings.xml document and parsed by the
real AndroidParser; for a tag other than `string` (for which the parser makes no entity) the AndroidEntity
is constructed the way handleElement does it."""
import functools
import re
import warnings

warnings.filterwarnings("ignore")

from compare_locales import parser as P
from compare_locales.checks import getChecker
from compare_locales.parser.android import AndroidEntity, textContent
from compare_locales.paths import File
from xml.dom import minidom

HEAD = ('<?xml version="1.0" encoding="utf-8"?>\n'
        '<resources xmlns:xliff="urn:oasis:names:tc:xliff:document:1.2">\n')
TAIL = "\n</resources>\n"
FILE = File("values/strings.xml", "values/strings.xml")


def enc(s):
    return "t:" + ",".join(str(ord(c)) for c in s)


def document(spec):
    attrs = ' name="foo"'
    if spec.get("tr") is not None:
        attrs += ' translatable="%s"' % spec["tr"]
    pre = "  <!-- a comment -->\n  " if spec.get("comment") else "  "
    tag = spec.get("tag", "string")
    return "%s%s<%s%s>%s</%s>%s" % (HEAD, pre, tag, attrs, spec["content"], tag, TAIL)


@functools.lru_cache(maxsize=8192)
def _entity(content, tr, comment, tag):
    spec = {"content": content, "tr": tr, "comment": comment, "tag": tag}
    text = document(spec)
    if tag == "string":
        p = type(P.getParser("strings.xml"))()
        p.readUnicode(text)
        ents = [e for e in p.walk() if isinstance(e, AndroidEntity)]
        if len(ents) != 1:
            return None
        return ents[0]
    try:
        doc = minidom.parseString(text.encode("utf-8"))
    except Exception:
        return None
    els = [n for n in doc.documentElement.childNodes if n.nodeType == n.ELEMENT_NODE]
    if len(els) != 1:
        return None
    el = els[0]
    return AndroidEntity(None, None, None, el, el.toxml(), el.getAttribute("name"), textContent(el),
                         "".join(c.toxml() for c in el.childNodes))


def entity(spec):
    return _entity(spec["content"], spec.get("tr"), bool(spec.get("comment")), spec.get("tag", "string"))


def node_tokens(e, attr_name="translatable"):
    n = e.node
    pre = ""
    if e.pre_comment is not None:
        pre += e.pre_comment.all
    if e.inner_white is not None:
        pre += e.inner_white.all
    toks = [enc(n.nodeName), enc(n.getAttribute(attr_name)) if n.hasAttribute(attr_name) else "-",
            enc(n.toxml()), enc(pre), str(len(n.childNodes))]
    for c in n.childNodes:
        if c.nodeType == c.TEXT_NODE:
            toks += ["T", enc(c.data)]
        elif c.nodeType == c.CDATA_SECTION_NODE:
            toks += ["C", enc(c.data)]
        else:
            toks.append("O")
    return toks, pre


FIXED = {
    "Incompatible resource types": "incompat",
    "Unsupported resource type": "unsupp",
    "strings must be translatable": "notrans",
    "Only plain text allowed, or one CDATA surrounded by whitespace": "notplain",
    "Double straight quotes not allowed": "dq",
    "Apostrophe must be escaped": "apos",
    "Mismatching formatter": "mismatch",
    "Formatter count mismatch": "count",
}
RE_CONFLICT = re.compile(r"Conflicting formatting, %(\d+)\$(.*?) vs %(\d+)\$(.*)\Z", re.S)
RE_NOREF = re.compile(r"Formatter %(\d+)\$(.*) not found in reference\Z", re.S)
RE_NOL10N = re.compile(r"Formatter %(\d+)\$(.*) not found in translation\Z", re.S)


def msg_code(msg, cat, key):
    if cat == "encodings":
        return "moji" if msg == "� in: %s" % key else "unknown:" + enc(msg)
    if cat != "android":
        return "badcat:" + enc(cat)
    if msg in FIXED:
        return FIXED[msg]
    m = RE_CONFLICT.match(msg)
    if m and m.group(1) == m.group(3):
        return "conflict/%s/%s/%s" % (m.group(1), enc(m.group(2)), enc(m.group(4)))
    m = RE_NOREF.match(msg)
    if m:
        return "noref/%s/%s" % (m.group(1), enc(m.group(2)))
    m = RE_NOL10N.match(msg)
    if m:
        return "nol10n/%s/%s" % (m.group(1), enc(m.group(2)))
    return "unknown:" + enc(msg)


def show_results(res, key):
    out = []
    for r in res:
        sev, pos, msg, cat = r
        s = {"error": "e", "warning": "w"}.get(sev, "?" + str(sev))
        out.append("%s %d %s" % (s, int(pos), msg_code(msg, cat, key)))
    return out


def impl_check(ref_spec, l10n_spec):
    """-> {"skip": why} | {"canon", "line", "res", "lval", "rval"}"""
    r = entity(ref_spec)
    l = entity(l10n_spec)
    if r is None or l is None:
        return {"skip": "no-entity"}
    rt, rpre = node_tokens(r)
    lt, lpre = node_tokens(l)
    line = "android.check " + " ".join(rt + lt)
    if r.all != rpre + r.node.toxml() or l.all != lpre + l.node.toxml():
        return {"skip": "all-differs", "line": line}
    checker = getChecker(FILE)
    try:
        res = [tuple(x) for x in checker.check(r, l)]
    except Exception as e:       # noqa
        return {"canon": "raise", "line": line, "res": [], "exc": "%s: %s" % (type(e).__name__, e),
                "lval": l.val, "rval": r.val}
    canon = " | ".join(["ok %s %s" % (enc(r.val), enc(l.val))] + show_results(res, l.key))
    return {"canon": canon, "line": line, "res": [[x[0], int(x[1]), x[2], x[3]] for x in res],
            "lval": l.val, "rval": r.val, "checker": type(checker).__name__}


def impl_params(text):
    from compare_locales.checks import android as A
    params, count, errors = A.get_params([text])
    ps = " ".join("%d=%s" % (k, enc(v)) for k, v in params.items())
    es = " ".join("%d:%s" % (pos, msg_code(msg, "android", "")) for msg, pos in errors)
    return "ok [%s] %d [%s]" % (ps, count, es)


def impl_apos(text):
    from compare_locales.checks import android as A
    return " | ".join(["ok"] + show_results(list(A.check_apostrophes(text)), ""))

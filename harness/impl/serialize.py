"""Adapter around compare_locales.serializer.serialize for C16.

Everything the C16 oracle needs is computed here from the real objects: the parsers' own view of the
reference and of the old localization (entity keys / raw values), the serialized text, its re-parse and
the result of serializing the output once more with no new data."""
import warnings

warnings.filterwarnings("ignore")

from compare_locales import parser as P
from compare_locales.parser.base import Entity, Junk, Comment, Whitespace
from compare_locales.serializer import serialize

FNAME = {"properties": "a.properties", "dtd": "a.dtd", "ini": "a.ini", "inc": "a.inc",
         "ftl": "a.ftl", "android": "strings.xml"}


def get_parser(fmt):
    return type(P.getParser(FNAME[fmt]))()


def walk(fmt, text):
    p = get_parser(fmt)
    p.readUnicode(text)
    return list(p.walk())


def ftl_value(source):
    """canonical value of a Fluent message/term source: the entry without its comment, re-serialized
    by fluent.syntax (the property's "value" of a Fluent entity; comments are not values)"""
    from fluent.syntax import FluentParser, FluentSerializer, ast as ftl
    res = FluentParser(with_spans=False).parse(source if source.endswith("\n") else source + "\n")
    ents = [e for e in res.body if isinstance(e, (ftl.Message, ftl.Term))]
    junk = [e for e in res.body if isinstance(e, ftl.Junk)]
    if len(ents) != 1 or junk:
        return "!unparsable:" + source
    e = ents[0]
    e.comment = None
    return FluentSerializer().serialize_entry(e)


def value_of(fmt, e):
    rv = e.unwrap()
    if fmt == "ftl":
        return ftl_value(rv)
    return rv


def view(fmt, entries):
    """(kind, key, value) of the entities and junk of a walk"""
    out = []
    for e in entries:
        if isinstance(e, Junk):
            out.append(["J", e.key if fmt == "android" else "", e.all])
        elif isinstance(e, Entity):
            out.append(["E", e.key, value_of(fmt, e)])
    return out


def raw_of(fmt, text, key):
    """the raw value a tool obtains for `key` from a localized file `text` (entity.unwrap())"""
    for e in walk(fmt, text):
        if isinstance(e, Entity) and e.key == key:
            return e.unwrap()
    return None


def raws(fmt, items):
    """items: [[key, one-entity file text]] -> raw values"""
    return [raw_of(fmt, t, k) for k, t in items]


def kind_letter(e):
    if isinstance(e, Junk):
        return "J"
    if isinstance(e, Entity):
        return "E"
    if isinstance(e, Whitespace):
        return "W"
    if isinstance(e, Comment):
        return "C"
    return "O"


def impl_serialize(fmt, ref_text, old_text, new_items, want_views=True):
    """new_items: [[key, raw value or None]] (insertion order of the dict)"""
    name = FNAME[fmt]
    ref = walk(fmt, ref_text)
    old = walk(fmt, old_text)
    new = {}
    for k, v in new_items:
        new[k] = v
    res = {}
    if want_views:
        res["ref"] = view(fmt, ref)
        res["old"] = view(fmt, old)
        # facts for the root-cause predicates of findings
        res["ref_noval"] = [e.key for e in ref if isinstance(e, Entity) and fmt in ("inc",) and e.val_span[0] < 0]
        res["old_last"] = kind_letter(old[-1]) if old else ""
        # white-space entries directly before / after each Junk entry of the old file (root cause of C16-old-junk-blanks-kept)
        def ws_at(j):
            if 0 <= j < len(old) and isinstance(old[j], Whitespace) and fmt != "android":
                return [old[j].all, old[j].span[0]]
            return None
        res["old_junk_ws"] = [[ws_at(i - 1), ws_at(i + 1)] for i, e in enumerate(old) if isinstance(e, Junk)]
    if want_views and fmt == "ftl":
        res["ref_body"] = ftl_body(ref_text)
        res["old_body"] = ftl_body(old_text)
    if want_views and fmt == "android":
        res["ref_recs"] = android_recs(ref)
        res["old_recs"] = android_recs(old)
        res["ref_markup"] = markup_keys(ref)
        res["ref_root"] = root_attrs(ref_text)
    try:
        out = serialize(name, ref, old, new)
    except Exception as x:
        if want_views and fmt == "android":
            import traceback, os
            tb = traceback.extract_tb(x.__traceback__)
            return {"exc_inner": type(x).__name__, "msg": str(x)[:300], "ref_recs": res["ref_recs"], "old_recs": res["old_recs"],
                    "where": ["%s:%s:%s" % (os.path.basename(f.filename), f.lineno, f.name) for f in tb[-3:]]}
        raise
    text = out.decode("utf-8")
    if want_views and fmt == "android":
        res["out_root"] = root_attrs(text)
    res["out"] = text
    if want_views:
        reparsed = walk(fmt, text)
        res["parsed"] = view(fmt, reparsed)
        res["placeholder"] = any(type(e).__name__ == "PlaceholderEntity" for e in reparsed) or "\nplaceholder\n" in text
        again = serialize(name, walk(fmt, ref_text), reparsed, {}).decode("utf-8")
        res["again"] = view(fmt, walk(fmt, again))
        if fmt == "ftl":
            res["new_values"] = [[k, None if v is None else ftl_value(v)] for k, v in new_items]
    return res


# ------------------------------------------------------------------ round 4: inputs of the Fluent / Android models
def ftl_body(text):
    """what fluent.syntax returns for `text`, as the model's input: [kind, s, e, ks, ke, vs, ve, comment content or None]
    (kinds/spans as FluentEntity.__init__ derives them; the comment content is what wrap / FluentComment read)"""
    from fluent.syntax import FluentParser as FTLParser, ast as ftl
    body = []
    for entry in FTLParser().parse(text).body:
        s, e = entry.span.start, entry.span.end
        ks = ke = vs = ve = -1
        c = None
        if isinstance(entry, ftl.Term):
            k, ks, ke = "T", entry.id.span.start - 1, entry.id.span.end
        elif isinstance(entry, ftl.Message):
            k, ks, ke = "M", entry.id.span.start, entry.id.span.end
        elif isinstance(entry, ftl.Junk):
            k = "J"
        elif isinstance(entry, ftl.BaseComment):
            k, c = "C", entry.content
        else:
            k = "O"
        if k in "MT":
            if entry.value is not None:
                vs, ve = entry.value.span.start, entry.value.span.end
            if entry.comment is not None:
                c = entry.comment.content
        body.append([k, s, e, ks, ke, vs, ve, c])
    return body


def xml_children(node):
    from xml.dom.minidom import Node
    out = []
    for ch in node.childNodes:
        if ch.nodeType == Node.TEXT_NODE:
            out.append(["T", ch.data, ""])
        elif ch.nodeType == Node.CDATA_SECTION_NODE:
            out.append(["D", ch.data, ""])
        elif ch.nodeType == Node.COMMENT_NODE:
            out.append(["M", ch.data, ""])
        elif ch.nodeType == Node.PROCESSING_INSTRUCTION_NODE:
            out.append(["P", ch.data, ch.target])
        else:
            out.append(["X", "", ch.toxml()])
    return out


def elem_summary(node):
    """[open tag text, tag name, children] of a minidom element (the input of the model of AndroidEntity.wrap)"""
    shallow = node.cloneNode(False).toxml()
    assert shallow.endswith("/>")
    return [shallow[:-2], node.tagName, xml_children(node)]


def android_recs(entries):
    from compare_locales.parser.android import AndroidEntity, DocumentWrapper, XMLWhitespace, XMLComment, XMLJunk
    recs = []
    for e in entries:
        if isinstance(e, AndroidEntity):
            pre = (e.pre_comment.all if e.pre_comment is not None else "") + (e.inner_white.all if e.inner_white is not None else "")
            recs.append(["A", e.key, pre, e.all] + elem_summary(e.node))
        elif isinstance(e, DocumentWrapper):
            recs.append(["S", e.key, e.all])
        elif isinstance(e, XMLComment):
            recs.append(["C", e.all, e.val])
        elif isinstance(e, XMLJunk):
            recs.append(["J", e.all])
        elif isinstance(e, XMLWhitespace):
            recs.append(["W", e.all])
        else:
            raise ValueError(type(e).__name__)
    return recs


def markup_keys(entries):
    """keys of the <string> entities whose element is NOT `optional white-space, one Text/CDATA node, optional white-space`:
    wrap replaces the data of ONE child, so other children (inline markup, further text) stay (finding C16-android-reference-markup)"""
    from compare_locales.parser.android import AndroidEntity
    from xml.dom.minidom import Node
    keys = []
    for e in entries:
        if not isinstance(e, AndroidEntity):
            continue
        ch = list(e.node.childNodes)
        if len(ch) <= 1:
            if ch and ch[0].nodeType not in (Node.TEXT_NODE, Node.CDATA_SECTION_NODE):
                keys.append(e.key)
            continue
        cd = [c for c in ch if c.nodeType == Node.CDATA_SECTION_NODE]
        target = cd[0] if cd else ch[-1]
        rest = [c for c in ch if c is not target]
        if target.nodeType not in (Node.TEXT_NODE, Node.CDATA_SECTION_NODE) or \
                any(not (c.nodeType == Node.TEXT_NODE and not c.data.strip()) for c in rest):
            keys.append(e.key)
    return keys


def root_attrs(text):
    """attributes of the document element, read with minidom directly (independent of AndroidParser)"""
    from xml.dom import minidom
    try:
        doc = minidom.parseString(text.encode("utf-8"))
    except Exception:
        return None
    return sorted([k, v] for k, v in doc.documentElement.attributes.items())


def impl_android_wrap(file_text, key, raw):
    """AndroidEntity.wrap on the entity `key` of `file_text`: the element summary and the wrapped entity's text"""
    from compare_locales.parser.android import AndroidEntity
    for e in walk("android", file_text):
        if isinstance(e, AndroidEntity) and e.key == key:
            pre = (e.pre_comment.all if e.pre_comment is not None else "") + (e.inner_white.all if e.inner_white is not None else "")
            res = {"key": key, "pre": pre, "el": elem_summary(e.node)}
            try:
                w = e.wrap(raw)
                res["all"] = w.all
                res["wkey"] = w.key
                res["wraw"] = w.raw_val
            except Exception as x:
                res["wexc"] = type(x).__name__
            return res
    return None


def impl_ftl_comment(content):
    from fluent.syntax import ast as ftl
    from fluent.syntax.serializer import serialize_comment
    return serialize_comment(ftl.Comment(content))


def impl_unsupported(name):
    """serialize with a file name no parser claims"""
    from compare_locales.serializer import SerializationNotSupportedError
    try:
        serialize(name, [], [], {})
    except SerializationNotSupportedError as x:
        return "SerializationNotSupportedError:" + str(x)
    except Exception as x:
        return "other:" + type(x).__name__
    return "no exception"


def impl_serialize_text(fmt, ref_text, old_text, new_items):
    return impl_serialize(fmt, ref_text, old_text, new_items, want_views=False)["out"]


# ------------------------------------------------------------------ entry level (synthetic entries)
class _LitWhitespace(Whitespace):
    def __init__(self, all):
        self._a = all
        self.span = self.key_span = self.val_span = (0, len(all))
        self.ctx = None

    @property
    def all(self):
        return self._a

    @property
    def raw_val(self):
        return self._a


class _LitComment(Comment):
    def __init__(self, all, val):
        self._a = all
        self._v = val
        self.ctx = None
        self.span = (0, len(all))
        self.val_span = None
        self._val_cache = val

    @property
    def all(self):
        return self._a


class _LitSticky(P.base.StickyEntry):
    def __init__(self, key, all):
        self._k = key
        self._a = all

    @property
    def key(self):
        return self._k

    @property
    def all(self):
        return self._a

    @property
    def raw_val(self):
        return self._a


class _LitOther(P.base.Entry):
    """an Entry that is neither Entity, Comment, Whitespace nor Junk (IniSection / DefinesInstruction)"""

    def __init__(self, key, all):
        self._k = key
        self._a = all

    @property
    def key(self):
        return self._k

    @property
    def all(self):
        return self._a


class _LitJunk(Junk):
    def __init__(self, all):
        self._a = all
        self.key = "_junk_x"
        self.span = (0, len(all))
        self.ctx = None

    @property
    def all(self):
        return self._a


class _RefEntity(Entity):
    """an Entity over its own little context: pre + val + post"""

    def __init__(self, key, pre, val, post):
        ctx = P.Parser.Context(pre + val + post)
        super().__init__(ctx, None, None, (0, len(pre + val + post)), (0, 0), (len(pre), len(pre) + len(val)))
        self._k = key

    @property
    def key(self):
        return self._k


def mk_entry(rec):
    kind = rec[0]
    if kind == "E":
        return _RefEntity(rec[1], rec[2], rec[3], rec[4])
    if kind == "W":
        return _LitWhitespace(rec[1])
    if kind == "C":
        return _LitComment(rec[1], rec[2])
    if kind == "S":
        return _LitSticky(rec[1], rec[2])
    if kind == "O":
        return _LitOther(rec[1], rec[2])
    if kind == "J":
        return _LitJunk(rec[1])
    raise ValueError(kind)


def show_entry(e):
    from compare_locales.parser.base import PlaceholderEntity, StickyEntry
    if isinstance(e, PlaceholderEntity):
        k = "P"
    elif isinstance(e, Junk):
        k = "J"
    elif isinstance(e, Entity):
        k = "E"
    elif isinstance(e, Whitespace):
        k = "W"
    elif isinstance(e, Comment):
        k = "C"
    elif isinstance(e, StickyEntry):
        k = "S"
    else:
        k = "O"
    return k


def impl_serialize_entries(ref_recs, old_recs, new_items):
    """entry-level run on synthetic entries; returns canonical 'kind:all' list of the pruned merge"""
    from compare_locales import serializer as S
    from compare_locales.merge import merge_resources
    ref = [mk_entry(r) for r in ref_recs]
    old = [mk_entry(r) for r in old_recs]
    new = {}
    for k, v in new_items:
        new[k] = v
    captured = {}
    orig = S.prune_placeholders

    def spy(entries):
        r = orig(entries)
        captured["pruned"] = list(r)
        return r

    S.prune_placeholders = spy
    try:
        out = serialize("a.properties", ref, old, new).decode("utf-8")
    finally:
        S.prune_placeholders = orig
    ents = captured.get("pruned", [])
    return {"out": out, "kinds": "".join(show_entry(e) for e in ents),
            "ents": [[show_entry(e), getattr(e, "key", None) if show_entry(e) in "EPSO" else None, e.all] for e in ents]}

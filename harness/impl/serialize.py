"""Adapter around compare_locales.serializer.serialize for C16.

Everything the C16 oracle needs is computed here from the real objects: the parsers' own view of the
reference and of the old localization (entity keys / raw values), the serialized text, its re-parse and
the result of serializing the output once more with no new data."""
import warnings

warnings.filterwarnings("ignore")

from compare_locales import parser as P
from compare_locales.parser.base import Entity, Junk, Comment, Whitespace
from compare_locales.serializer import serialize

FNAME = {"properties": "a.properties", "dtd": "a.dtd", "ini": "a.ini", "inc": "a.inc",
         "ftl": "a.ftl", "android": "strings.xml"}


def get_parser(fmt):
    return type(P.getParser(FNAME[fmt]))()


def walk(fmt, text):
    p = get_parser(fmt)
    p.readUnicode(text)
    return list(p.walk())


def ftl_value(source):
    """canonical value of a Fluent message/term source: the entry without its comment, re-serialized
    by fluent.syntax (the property's "value" of a Fluent entity; comments are not values)"""
    from fluent.syntax import FluentParser, FluentSerializer, ast as ftl
    res = FluentParser(with_spans=False).parse(source if source.endswith("\n") else source + "\n")
    ents = [e for e in res.body if isinstance(e, (ftl.Message, ftl.Term))]
    junk = [e for e in res.body if isinstance(e, ftl.Junk)]
    if len(ents) != 1 or junk:
        return "!unparsable:" + source
    e = ents[0]
    e.comment = None
    return FluentSerializer().serialize_entry(e)


def value_of(fmt, e):
    rv = e.unwrap()
    if fmt == "ftl":
        return ftl_value(rv)
    return rv


def view(fmt, entries):
    """(kind, key, value) of the entities and junk of a walk"""
    out = []
    for e in entries:
        if isinstance(e, Junk):
            out.append(["J", e.key if fmt == "android" else "", e.all])
        elif isinstance(e, Entity):
            out.append(["E", e.key, value_of(fmt, e)])
    return out


def raw_of(fmt, text, key):
    """the raw value a tool obtains for `key` from a localized file `text` (entity.unwrap())"""
    for e in walk(fmt, text):
        if isinstance(e, Entity) and e.key == key:
            return e.unwrap()
    return None


def raws(fmt, items):
    """items: [[key, one-entity file text]] -> raw values"""
    return [raw_of(fmt, t, k) for k, t in items]


def kind_letter(e):
    if isinstance(e, Junk):
        return "J"
    if isinstance(e, Entity):
        return "E"
    if isinstance(e, Whitespace):
        return "W"
    if isinstance(e, Comment):
        return "C"
    return "O"


def impl_serialize(fmt, ref_text, old_text, new_items, want_views=True):
    """new_items: [[key, raw value or None]] (insertion order of the dict)"""
    name = FNAME[fmt]
    ref = walk(fmt, ref_text)
    old = walk(fmt, old_text)
    new = {}
    for k, v in new_items:
        new[k] = v
    res = {}
    if want_views:
        res["ref"] = view(fmt, ref)
        res["old"] = view(fmt, old)
        # facts for the root-cause predicates of findings
        res["ref_noval"] = [e.key for e in ref if isinstance(e, Entity) and fmt in ("inc",) and e.val_span[0] < 0]
        res["old_last"] = kind_letter(old[-1]) if old else ""
    out = serialize(name, ref, old, new)
    text = out.decode("utf-8")
    res["out"] = text
    if want_views:
        reparsed = walk(fmt, text)
        res["parsed"] = view(fmt, reparsed)
        res["placeholder"] = any(type(e).__name__ == "PlaceholderEntity" for e in reparsed) or "\nplaceholder\n" in text
        again = serialize(name, walk(fmt, ref_text), reparsed, {}).decode("utf-8")
        res["again"] = view(fmt, walk(fmt, again))
        if fmt == "ftl":
            res["new_values"] = [[k, None if v is None else ftl_value(v)] for k, v in new_items]
    return res


def impl_serialize_text(fmt, ref_text, old_text, new_items):
    return impl_serialize(fmt, ref_text, old_text, new_items, want_views=False)["out"]


# ------------------------------------------------------------------ entry level (synthetic entries)
class _LitWhitespace(Whitespace):
    def __init__(self, all):
        self._a = all
        self.span = self.key_span = self.val_span = (0, len(all))
        self.ctx = None

    @property
    def all(self):
        return self._a

    @property
    def raw_val(self):
        return self._a


class _LitComment(Comment):
    def __init__(self, all, val):
        self._a = all
        self._v = val
        self.ctx = None
        self.span = (0, len(all))
        self.val_span = None
        self._val_cache = val

    @property
    def all(self):
        return self._a


class _LitSticky(P.base.StickyEntry):
    def __init__(self, key, all):
        self._k = key
        self._a = all

    @property
    def key(self):
        return self._k

    @property
    def all(self):
        return self._a

    @property
    def raw_val(self):
        return self._a


class _LitOther(P.base.Entry):
    """an Entry that is neither Entity, Comment, Whitespace nor Junk (IniSection / DefinesInstruction)"""

    def __init__(self, key, all):
        self._k = key
        self._a = all

    @property
    def key(self):
        return self._k

    @property
    def all(self):
        return self._a


class _LitJunk(Junk):
    def __init__(self, all):
        self._a = all
        self.key = "_junk_x"
        self.span = (0, len(all))
        self.ctx = None

    @property
    def all(self):
        return self._a


class _RefEntity(Entity):
    """an Entity over its own little context: pre + val + post"""

    def __init__(self, key, pre, val, post):
        ctx = P.Parser.Context(pre + val + post)
        super().__init__(ctx, None, None, (0, len(pre + val + post)), (0, 0), (len(pre), len(pre) + len(val)))
        self._k = key

    @property
    def key(self):
        return self._k


def mk_entry(rec):
    kind = rec[0]
    if kind == "E":
        return _RefEntity(rec[1], rec[2], rec[3], rec[4])
    if kind == "W":
        return _LitWhitespace(rec[1])
    if kind == "C":
        return _LitComment(rec[1], rec[2])
    if kind == "S":
        return _LitSticky(rec[1], rec[2])
    if kind == "O":
        return _LitOther(rec[1], rec[2])
    if kind == "J":
        return _LitJunk(rec[1])
    raise ValueError(kind)


def show_entry(e):
    from compare_locales.parser.base import PlaceholderEntity, StickyEntry
    if isinstance(e, PlaceholderEntity):
        k = "P"
    elif isinstance(e, Junk):
        k = "J"
    elif isinstance(e, Entity):
        k = "E"
    elif isinstance(e, Whitespace):
        k = "W"
    elif isinstance(e, Comment):
        k = "C"
    elif isinstance(e, StickyEntry):
        k = "S"
    else:
        k = "O"
    return k


def impl_serialize_entries(ref_recs, old_recs, new_items):
    """entry-level run on synthetic entries; returns canonical 'kind:all' list of the pruned merge"""
    from compare_locales import serializer as S
    from compare_locales.merge import merge_resources
    ref = [mk_entry(r) for r in ref_recs]
    old = [mk_entry(r) for r in old_recs]
    new = {}
    for k, v in new_items:
        new[k] = v
    captured = {}
    orig = S.prune_placeholders

    def spy(entries):
        r = orig(entries)
        captured["pruned"] = list(r)
        return r

    S.prune_placeholders = spy
    try:
        out = serialize("a.properties", ref, old, new).decode("utf-8")
    finally:
        S.prune_placeholders = orig
    ents = captured.get("pruned", [])
    return {"out": out, "kinds": "".join(show_entry(e) for e in ents),
            "ents": [[show_entry(e), getattr(e, "key", None) if show_entry(e) in "EPSO" else None, e.all] for e in ents]}

"""Adapters around the real position code (C17); canonical strings as in lean/CLModel/Ops/C17.lean.

Everything here calls the code under test; the oracle (harness/props/c17.py) works on what is returned.
"""
import os
import re
import shutil
import tempfile
import warnings

warnings.filterwarnings("ignore")

from compare_locales import parser as P
from compare_locales.parser.base import Entity, Junk, Parser
from compare_locales.parser.dtd import DTDEntity
from compare_locales.parser.fluent import FluentEntity

from impl.parse import get_parser, kind_of, fluent_body, FNAME

JUNK_RE = re.compile(r"from line (-?\d+) column (-?\d+) to line (-?\d+) column (-?\d+)\Z", re.S)


def lc(f, *a):
    """"L,C" or "X" when the call raises"""
    try:
        r = f(*a)
        return "%d,%d" % (r[0], r[1])
    except Exception:
        return "X"


def raw(f, *a):
    try:
        r = f(*a)
        return [r[0], r[1]]
    except Exception as e:
        return type(e).__name__


def impl_linecol(text, offsets, fresh):
    """Parser.Context(text).linecol(p) for every p; one shared context (cached line list) or a fresh one per call"""
    ctx = Parser.Context(text)
    out = []
    for p in offsets:
        if fresh:
            ctx = Parser.Context(text)
        out.append(lc(ctx.linecol, p))
    return out


def enc(s):
    return "t:" + ",".join(str(ord(c)) for c in s)


def impl_linecol_seq(text, offsets):
    """every offset, in this order, on ONE context object: the first call builds the cached line table"""
    ctx = Parser.Context(text)
    return " ".join(lc(ctx.linecol, p) for p in offsets)


def impl_junk_message(text, s, e):
    """the whole text of Junk.error_message() for the span (s, e)"""
    try:
        return enc(Junk(Parser.Context(text), (s, e)).error_message())
    except Exception as ex:
        return "X" + type(ex).__name__


def impl_entity(text, s, e, vs, ve, off):
    """position / value_position of an Entity built directly over the given spans"""
    ctx = Parser.Context(text)
    ent = Entity(ctx, None, None, (s, e), (s, s), None if vs is None else (vs, ve))
    j = Junk(ctx, (s, e))
    m = None
    try:
        mm = JUNK_RE.search(j.error_message())
        m = ",".join(mm.groups()) if mm else "nomatch"
    except Exception:
        m = "X"
    return {"pos": lc(ent.position, off), "vpos": lc(ent.value_position, off), "jpos": lc(j.position, off), "jmsg": m}


def impl_dtd_tuple(text, vs, ve, lp, cp):
    ctx = Parser.Context(text)
    ent = DTDEntity(ctx, None, None, (0, len(text)), (0, 0), None if vs is None else (vs, ve))
    return lc(ent.value_position, (lp, cp))


class _Span:
    def __init__(self, a, b):
        self.start, self.end = a, b


class _Node:
    pass


def impl_fluent_vpos(text, s, e, ke, vs, ve, off):
    """FluentEntity.value_position over a hand-made AST entry with the given spans (vs = -1: no value)"""
    from fluent.syntax import ast as ftl
    entry = ftl.Message(ftl.Identifier("k"))
    entry.span = _Span(s, e)
    entry.id.span = _Span(s, ke)
    if vs >= 0:
        entry.value = ftl.Pattern([])
        entry.value.span = _Span(vs, ve)
    else:
        entry.value = None
    ent = FluentEntity(Parser.Context(text), entry)
    if off is None:
        return lc(ent.value_position)
    return lc(ent.value_position, off)


def entry_positions(e, fluent):
    """canonical positions of one entry + the raw data the oracle needs"""
    k = kind_of(e)
    s0, s1 = e.span
    mid = (s1 - s0) // 2 if s1 >= s0 else 0
    p = "%s %s %s" % (lc(e.position), lc(e.position, -1), lc(e.position, mid))
    rec = {"k": k, "span": [s0, s1], "obs": []}
    rec["obs"].append(["position()", s0, raw(e.position)])
    rec["obs"].append(["position(-1)", s1, raw(e.position, -1)])
    rec["obs"].append(["position(%d)" % mid, s0 + mid, raw(e.position, mid)])
    if k == "J":
        try:
            msg = e.error_message()
            mm = JUNK_RE.search(msg)
            m = ",".join(mm.groups()) if mm else "nomatch"
            if mm:
                g = [int(x) for x in mm.groups()]
                rec["obs"].append(["error_message from", s0, g[0:2]])
                rec["obs"].append(["error_message to", s1, g[2:4]])
                rec["msgval"] = msg.startswith('Unparsed content "%s" from line ' % e.val)
        except Exception as ex:
            m = "X"
            rec["obs"].append(["error_message", s0, type(ex).__name__])
        return "J %s m=%s" % (p, m), rec
    vsp = getattr(e, "val_span", None)
    if vsp is None and k == "C":
        rec["raw_none"] = e.raw_val is None         # Entry.raw_val of an entry without a value span
    if fluent and k == "E":
        v = "%s %s %s" % (lc(e.value_position), lc(e.value_position, -1), lc(e.value_position, mid))
        tgt = vsp[0] if vsp else e.key_span[1]
        rec["obs"].append(["value_position()", tgt, raw(e.value_position)])
        rec["obs"].append(["value_position(-1)", s1, raw(e.value_position, -1)])
        rec["obs"].append(["value_position(%d)" % mid, s0 + mid, raw(e.value_position, mid)])
    else:
        vmid = max(vsp[1] - vsp[0], 0) // 2 if vsp is not None else 0
        v = "%s %s %s" % (lc(e.value_position), lc(e.value_position, -1), lc(e.value_position, vmid))
        if vsp is not None:
            rec["obs"].append(["value_position()", vsp[0], raw(e.value_position)])
            rec["obs"].append(["value_position(-1)", vsp[1], raw(e.value_position, -1)])
            rec["obs"].append(["value_position(%d)" % vmid, vsp[0] + vmid, raw(e.value_position, vmid)])
        else:
            rec["obs"].append(["value_position() without val_span", None, raw(e.value_position)])
    return "%s %s %s" % (k, p, v), rec


def impl_file_positions(fmt, text):
    """parse the text with the real parser, report every position of every entry"""
    p = get_parser(fmt)
    p.readUnicode(text)
    shown, recs = [], []
    n = 0
    for e in p.walk():
        c, r = entry_positions(e, fmt == "ftl")
        shown.append(c)
        recs.append(r)
        n += 1
        if n > 2 * len(text) + 8:
            return {"canon": "runaway", "recs": [], "body": ""}
    body = ""
    if fmt == "ftl":
        b, _ = fluent_body(text)
        body = " ".join(b)
    return {"canon": " | ".join(["done"] + shown), "recs": recs, "body": body}


def impl_noctx(fmt):
    """walk() of a parser that has not read anything: no context, nothing to position"""
    p = get_parser(fmt)
    return [len(list(p.walk())), len(list(p.walk(only_localizable=True)))]


def impl_android_positions(text):
    """Android objects carry no spans: position / value_position of every entry of strings.xml"""
    p = get_parser("android")
    p.readUnicode(text)
    out = []
    for e in p.walk():
        rec = {"cls": type(e).__name__, "k": kind_of(e), "pos": [], "msg": None}
        for off in (-1, 0, 3):
            rec["pos"].append([off, lc(e.position, off), lc(e.value_position, off) if hasattr(e, "value_position") else "none"])
        if isinstance(e, Junk):
            mm = JUNK_RE.search(e.error_message())
            rec["msg"] = ",".join(mm.groups()) if mm else "nomatch"
        out.append(rec)
    return out


# ------------------------------------------------------------------ checkers, compare, lint
class Rec:
    """observer recording what ContentComparer reports"""

    def __init__(self, rv="error"):
        self.events = []
        self.rv = rv
        self.n = 0

    def notify(self, category, file, data):
        self.events.append([category, data if isinstance(data, (str, type(None))) else "%s" % (data,)])
        self.n += 1
        if self.rv == "mixed":
            return ("error", "ignore", "warning")[self.n % 3]
        return self.rv

    def updateStats(self, file, stats):
        pass


def _cls(fmt):
    return {"dtd": "dtd", "ftl": "fluent"}.get(fmt, "plain")


def _posdesc(pos):
    from compare_locales.checks import EntityPos
    if isinstance(pos, EntityPos):
        return ["E", int(pos), 0]
    if isinstance(pos, tuple):
        return ["T", pos[0], pos[1]]
    return ["O", int(pos), 0]


def _entdesc(e):
    def sp(x):
        return [-1, -1] if x is None else [x[0], x[1]]
    pc = getattr(e, "pre_comment", None)
    return {"span": [e.span[0], e.span[1]], "ks": sp(getattr(e, "key_span", None)),
            "vs": sp(getattr(e, "val_span", None)), "full": e._span_start(),
            "pc": pc is not None, "start": raw(e.position), "kind": kind_of(e)}


def _own_checks(fmt, ref, l10n):
    """run the real checker on every entity present in both files (as compare does); raw positions + entity spans"""
    from compare_locales.checks import getChecker
    from compare_locales.paths import File
    pr = get_parser(fmt)
    pr.readUnicode(ref)
    refs = pr.parse()
    pl = get_parser(fmt)
    pl.readUnicode(l10n)
    l10ns = pl.parse()
    checker = getChecker(File(FNAME[fmt], FNAME[fmt], locale="de"))
    if checker and checker.needs_reference:
        checker.set_reference(refs)
    out = {}
    for key in l10ns.keys():
        if key not in refs or isinstance(l10ns[key], Junk) or isinstance(refs[key], Junk):
            continue
        r, e = refs[key], l10ns[key]
        lst = []
        try:
            for tp, pos, msg, cat in checker.check(r, e):
                lst.append({"tp": tp, "pos": _posdesc(pos), "msg": msg, "cat": cat})
        except Exception as ex:
            lst.append({"exc": type(ex).__name__, "excmsg": str(ex)[:200]})
        out["%s" % (key,)] = {"ent": _entdesc(e), "checks": lst, "refkey": "%s" % (r.key,)}
    return out, l10ns, refs


def _own_lint(fmt, text):
    """what EntityLinter.lint_value sees: the real checker on (entity, entity) for every entry in file order"""
    from compare_locales.checks import getChecker
    from compare_locales.paths import File, REFERENCE_LOCALE
    p = get_parser(fmt)
    p.readUnicode(text)
    current = p.parse()
    checker = getChecker(File(FNAME[fmt], FNAME[fmt], locale=REFERENCE_LOCALE))
    if checker and checker.needs_reference:
        checker.set_reference(current)
    out = []
    for e in current:
        k = kind_of(e)
        try:
            key = e.key
        except Exception:
            key = None
        rec = {"k": k, "span": [e.span[0], e.span[1]], "key": "%s" % (key,), "checks": []}
        if k != "J":
            rec["ent"] = _entdesc(e)
            try:
                for tp, pos, msg, cat in checker.check(e, e):
                    rec["checks"].append({"tp": tp, "pos": _posdesc(pos), "msg": msg, "cat": cat})
            except Exception as ex:
                rec["checks"].append({"exc": type(ex).__name__, "excmsg": str(ex)[:200]})
        out.append(rec)
    return out


def impl_compare(fmt, ref, l10n, base=None, merge=False, rv="error"):
    """the real ContentComparer.compare on two files + the real checker results, aligned per key;
    `merge`: with a merge file (skips are collected); `rv`: what the observer answers"""
    from compare_locales.compare.content import ContentComparer
    from compare_locales.paths import File
    from collections import Counter
    d = tempfile.mkdtemp(prefix="verif-c17-", dir=base)
    try:
        os.makedirs(os.path.join(d, "ref"))
        os.makedirs(os.path.join(d, "l10n"))
        rp = os.path.join(d, "ref", FNAME[fmt])
        lp = os.path.join(d, "l10n", FNAME[fmt])
        mp = os.path.join(d, "merge", FNAME[fmt]) if merge else None
        with open(rp, "w", encoding="utf-8", newline="") as f:
            f.write(ref)
        with open(lp, "w", encoding="utf-8", newline="") as f:
            f.write(l10n)
        cc = ContentComparer()
        rec = Rec(rv)
        cc.observers.append(rec)
        exc = None
        try:
            import contextlib
            import io
            with contextlib.redirect_stdout(io.StringIO()):      # merge prints "adding to …"
                cc.compare(File(rp, FNAME[fmt], locale=None), File(lp, FNAME[fmt], locale="de"), mp)
        except Exception as ex:
            exc = "%s: %s" % (type(ex).__name__, str(ex)[:200])
        own, l10ns, refs = _own_checks(fmt, ref, l10n)
    finally:
        shutil.rmtree(d, ignore_errors=True)
    events = [ev for ev in rec.events if ev[0] in ("error", "warning") and isinstance(ev[1], str)]
    # junk messages of the l10n file
    junk = []
    for e in l10ns:
        if isinstance(e, Junk):
            junk.append({"span": [e.span[0], e.span[1]]})
    def dups(ents):
        c = Counter("%s" % (e.key,) for e in ents)
        return sorted([k, n] for k, n in c.items() if n > 1)
    return {"exc": exc, "own": own, "events": events, "junk": junk, "cls": _cls(fmt),
            "ref_dups": dups(refs), "l10n_dups": dups(l10ns), "all_events": len(rec.events)}


def impl_compare_broken(kind, base=None):
    """compare on files the comparer cannot handle: no parser for the extension / a side that cannot be read"""
    from compare_locales.compare.content import ContentComparer
    from compare_locales.paths import File
    d = tempfile.mkdtemp(prefix="verif-c17-", dir=base)
    try:
        name = "a.unknown-ext" if kind == "noparser" else "a.properties"
        rp, lp = os.path.join(d, "ref-" + name), os.path.join(d, "l10n-" + name)
        for pth, unread in ((rp, kind == "ref-unreadable"), (lp, kind == "l10n-unreadable")):
            if unread:
                os.makedirs(pth)             # a directory: readFile raises
            else:
                with open(pth, "w", encoding="utf-8") as f:
                    f.write("k0=v\n")
        cc = ContentComparer()
        rec = Rec()
        cc.observers.append(rec)
        exc = None
        try:
            import contextlib
            import io
            with contextlib.redirect_stdout(io.StringIO()):
                cc.compare(File(rp, name, locale=None), File(lp, name, locale="de"),
                           os.path.join(d, "merge", name) if kind == "noparser" else None)
        except Exception as ex:
            exc = "%s: %s" % (type(ex).__name__, str(ex)[:200])
        return {"exc": exc, "events": [[c, isinstance(x, str)] for c, x in rec.events]}
    finally:
        shutil.rmtree(d, ignore_errors=True)


def impl_lint_broken(base=None):
    """lint_file on a path that cannot be read: reported like compare, at line 1, column 1"""
    from compare_locales.lint.linter import L10nLinter
    d = tempfile.mkdtemp(prefix="verif-c17-", dir=base)
    try:
        path = os.path.join(d, "a.properties")
        os.makedirs(path)
        try:
            return {"results": [[r["lineno"], r["column"], r["level"]] for r in L10nLinter().lint_file(path, None, None)]}
        except Exception as ex:
            return {"exc": type(ex).__name__}
    finally:
        shutil.rmtree(d, ignore_errors=True)


def impl_lint(fmt, text, ref, base=None):
    """the real L10nLinter.lint_file on a file (+ optional reference) + own checker run"""
    from compare_locales.lint.linter import L10nLinter
    d = tempfile.mkdtemp(prefix="verif-c17-", dir=base)
    try:
        path = os.path.join(d, FNAME[fmt])
        with open(path, "w", encoding="utf-8", newline="") as f:
            f.write(text)
        rpath = None
        if ref is not None:
            os.makedirs(os.path.join(d, "ref"))
            rpath = os.path.join(d, "ref", FNAME[fmt])
            with open(rpath, "w", encoding="utf-8", newline="") as f:
                f.write(ref)
        exc = None
        results = []
        try:
            for r in L10nLinter().lint_file(path, rpath, None):
                results.append({"lineno": r["lineno"], "column": r["column"], "level": r["level"], "message": r["message"]})
        except Exception as ex:
            exc = "%s: %s" % (type(ex).__name__, str(ex)[:200])
    finally:
        shutil.rmtree(d, ignore_errors=True)
    return {"exc": exc, "results": results, "ents": _own_lint(fmt, text), "cls": _cls(fmt)}

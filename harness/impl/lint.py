"""Adapter around the real linter (compare_locales.lint.linter); results in the canonical form of Ops/C19.lean.

A case is {"dir": name, "files": [{"path": rel, "text": str, "ref": None | "missing" | str}], "util": None|"l10n_base"}.
The files are written under SCRATCH/<pid>/<dir>/ and linted with ONE call of L10nLinter().lint(paths, get_ref).
Besides the real results the adapter returns the parsed view that is the INPUT of the Lean model
(entity kinds, keys, spans, value classes under the real `equals`, the tuples of the real checker)."""
import os
import shutil
import warnings

warnings.filterwarnings("ignore")

from compare_locales import parser as P
from compare_locales import checks
from compare_locales.lint.linter import L10nLinter
from compare_locales.parser.base import Junk
from compare_locales.parser.dtd import DTDEntity
from compare_locales.parser.fluent import FluentEntity
from compare_locales.parser.android import AndroidEntity, XMLJunk
from compare_locales.paths import File, REFERENCE_LOCALE

SCRATCH = os.environ.get("VERIF_C19_SCRATCH", "/tmp/wt/c19")


def enc(s):
    return "t:" + ",".join(str(ord(c)) for c in s)


def mode_of(e):
    if isinstance(e, (AndroidEntity, XMLJunk)):
        return "n"
    if isinstance(e, DTDEntity):
        return "d"
    if isinstance(e, FluentEntity):
        return "f"
    return "c"


class Classes:
    """value classes under the real `equals` (same key + same class <=> equals)"""

    def __init__(self):
        self.reps = {}       # key -> [(object, id)]
        self.n = 0

    def of(self, x):
        reps = self.reps.setdefault(x.key, [])
        for r, i in reps:
            # the REAL method (Entity.equals / FluentEntity.equals), so that a change of `equals` is seen by the model too;
            # objects of different classes never meet in one file/reference pair (FluentEntity.equals needs an `entry`)
            if isinstance(x, FluentEntity) != isinstance(r, FluentEntity):
                same = False
            elif hasattr(x, "equals"):
                same = bool(x.equals(r))
            elif hasattr(r, "equals"):
                same = bool(r.equals(x))         # x is a Junk object of the reference file (Junk has no `equals`)
            else:
                same = (x.val == r.val)          # two Junk objects
            if same:
                return i
        self.n += 1
        reps.append((x, self.n))
        return self.n


def check_tokens(tup):
    tp, pos, msg, cat = tup
    if isinstance(pos, checks.EntityPos):
        p = "P %d" % int(pos)
    elif isinstance(pos, tuple):
        p = "T %d %d" % (pos[0], pos[1])
    else:
        p = "V %d" % pos
    return "%s %s %s" % (enc(tp), p, enc(msg))


def model_file(path, ref, extra_tests=None, cls=None, with_ref=True):
    """tokens of one file for the `lint` op + a plain description for the oracle"""
    fp = P.getParser(path)
    cls = cls if cls is not None else Classes()
    if ref is not None and os.path.isfile(ref):
        fp.readFile(ref)
        reference = list(fp.parse())
        reftoks = ["R", str(len(reference))]
        for r in reference:
            reftoks += [enc(r.key), str(cls.of(r))]
    else:
        reftoks = ["N"]
    fp.readFile(path)
    contents = fp.ctx.contents
    current = fp.parse()
    checker = checks.getChecker(File(path, path, locale=REFERENCE_LOCALE), extra_tests=extra_tests)
    if checker and checker.needs_reference:
        checker.set_reference(current)
    toks = [enc(path), enc(contents)] + reftoks + [str(len(current))]
    ents = []
    for e in current:
        junk = isinstance(e, Junk)
        md = mode_of(e)
        if md == "n":
            s = t = 0
        else:
            s, t = e.span
        vs = getattr(e, "val_span", None)
        if junk or vs is None or md == "n":
            vtok = "X"
        else:
            vtok = "V %d %d" % (vs[0], vs[1])
        lit = e.all if (junk and md == "n") else ""
        if junk:
            tuples = []
            eqid = 0
        else:
            tuples = list(checker.check(e, e)) if checker else []
            eqid = cls.of(e)
        toks += ["J" if junk else "E", enc(e.key), str(eqid), md, str(s), str(t), vtok, enc(lit), str(len(tuples))]
        toks += [check_tokens(x) for x in tuples]
        ents.append({"junk": junk, "key": e.key, "s": s, "e": t, "vs": list(vs) if (vs and md != "n" and not junk) else None,
                     "mode": md, "checks": [[x[0], ("P" if isinstance(x[1], checks.EntityPos) else "T" if isinstance(x[1], tuple) else "V"),
                                             list(x[1]) if isinstance(x[1], tuple) else int(x[1]), x[2]] for x in tuples]})
    return " ".join(toks), {"contents": contents, "ents": ents}


def canon(results):
    return " | ".join(["ok"] + ["%s %s %s %s %s" % (r["lineno"], r["column"], enc(r["level"]), enc(r["message"]), enc(r["path"]))
                                for r in results])


def make_getter(case, base, paths):
    """the `get_reference_and_tests` callable of the case: a fixed table, or one of the helpers of lint/util.py
    over a project configuration rooted at the case directory"""
    kind = case.get("util")
    if kind is None:
        table = {}
        for p, f in zip(paths, case["files"]):
            table[p] = None if f["ref"] is None else os.path.join(base, "ref", "cur", f["path"])
        return lambda path: (table[path], None)
    from compare_locales.lint import util
    from compare_locales.paths import ProjectConfig, ProjectFiles
    pc = ProjectConfig(os.path.join(base, "l10n.toml"))
    pc.set_root(".")
    if kind == "mirror":
        pc.add_paths({"reference": "cur/**", "l10n": "l10n/{locale}/**"})
        return util.mirror_reference_and_tests(ProjectFiles(None, [pc]), os.path.join(base, "ref"))
    if kind == "l10n_base":
        pc.add_environment(l10n_base=os.path.join(base, "strings"))
        pc.add_paths({"reference": "cur/**", "l10n": "{l10n_base}/{locale}/**"})
        pc.set_locales(["gecko"], deep=True)
        return util.l10n_base_reference_and_tests(ProjectFiles("gecko", [pc]))
    raise ValueError(kind)


def impl_case(case):
    base = os.path.join(SCRATCH, "run-%d" % os.getpid(), case["dir"])
    shutil.rmtree(base, ignore_errors=True)
    try:
        paths = []
        for f in case["files"]:
            p = os.path.join(base, "cur", f["path"])
            os.makedirs(os.path.dirname(p), exist_ok=True)
            with open(p, "w", encoding="utf-8", newline="") as fh:
                fh.write(f["text"])
            paths.append(p)
        getter = make_getter(case, base, paths)
        refs = {}
        for p, f in zip(paths, case["files"]):
            rp = getter(p)[0]
            refs[p] = rp
            if isinstance(f["ref"], str) and f["ref"] != "missing" and rp is not None:
                os.makedirs(os.path.dirname(rp), exist_ok=True)
                with open(rp, "w", encoding="utf-8", newline="") as fh:
                    fh.write(f["ref"])
        asked = []

        def get_ref(path):
            asked.append(path)
            return getter(path)

        results = L10nLinter().lint(paths, get_ref)
        files = []
        described = []
        for p in paths:
            if P.hasParser(p):
                t, d = model_file(p, refs[p])
                files.append(t)
                described.append(d)
            else:
                # a file the model must skip
                # (it is handed the whole text as one junk region: not skipping it would show)
                text = open(p, encoding="utf-8", newline="").read()
                files.append("%s %s N 1 J %s 0 c 0 %d X t: 0" % (enc(p), enc(text), enc("_junk"), len(text)))
                described.append(None)
        line = "c19.lint %d %s" % (len(paths), " ".join(files))
        rel = lambda p: os.path.relpath(p, os.path.join(base, "cur"))
        return {"canon": canon(results), "line": line,
                # the run with its state (round 4): results and the paths the callable was asked, in call order
                "runline": "c19.run %d %s" % (len(paths), " ".join(files)),
                "runcanon": canon(results) + " ;; asked" + "".join(" " + enc(p) for p in asked),
                "results": [{"lineno": r["lineno"], "column": r["column"], "level": r["level"], "message": r["message"],
                             "path": rel(r["path"])} for r in results],
                "asked": [rel(p) for p in asked], "files": described,
                "refpaths": [None if refs[p] is None else os.path.relpath(refs[p], base) for p in paths]}
    finally:
        shutil.rmtree(base, ignore_errors=True)


def impl_getparser(path):
    try:
        return type(P.getParser(path)).__name__
    except UserWarning:
        return None


def impl_linecol(text, pos):
    return list(P.Parser.Context(text).linecol(pos))


class _MockChecker:
    def __init__(self, tuples):
        self.tuples = tuples

    def check(self, ent, ref):
        yield from self.tuples


def impl_probe(spec):
    """EntityLinter on a hand-built entity with a mock checker (as tests/lint/test_linter.py does): the points the
    hypotheses of C19.lint_total exclude (tuple positions on non-DTD entities, value positions without a value span)
    and negative offsets.  spec: cls base|dtd, text, span, key_span, val_span|None, checks [[level, P|V|T, pos, msg]]"""
    from compare_locales.lint.linter import EntityLinter
    from compare_locales.parser.base import Entity, Parser
    ctx = Parser.Context(spec["text"])
    cls = DTDEntity if spec["cls"] == "dtd" else Entity
    vs = tuple(spec["val_span"]) if spec["val_span"] is not None else None
    ent = cls(ctx, None, None, tuple(spec["span"]), tuple(spec["key_span"]), vs)
    tuples = []
    for lv, k, pos, msg in spec["checks"]:
        p = checks.EntityPos(pos) if k == "P" else (tuple(pos) if k == "T" else pos)
        tuples.append((lv, p, msg, "probe"))
    path = "probe.properties"
    toks = [enc(path), enc(spec["text"]), "N", "1", "E", enc(ent.key), "1", "d" if spec["cls"] == "dtd" else "c",
            str(spec["span"][0]), str(spec["span"][1]), ("V %d %d" % vs) if vs is not None else "X", "t:", str(len(tuples))]
    toks += [check_tokens(t) for t in tuples]
    line = "c19.lint 1 " + " ".join(toks)
    el = EntityLinter([ent], _MockChecker(tuples), {})
    try:
        results = list(el.lint_entity(ent))
        for r in results:
            r["path"] = path
        c = canon(results)
    except (TypeError, AssertionError) as e:
        c = "raise " + type(e).__name__
    return {"canon": c, "line": line}

"""Adapters around merge_channels and the real parsers for C15; canonical forms of Ops/C15.lean."""
import warnings

warnings.filterwarnings("ignore")

from compare_locales import parser as P
from compare_locales.parser.base import Entity, Comment, Whitespace, Junk

from impl.parse import kind_of

FNAME = {"properties": "a.properties", "dtd": "a.dtd", "ini": "a.ini", "inc": "a.inc", "po": "a.po",
         "ftl": "a.ftl", "android": "strings.xml"}


def enc(s):
    return "t:" + ",".join(str(ord(c)) for c in s)


def fresh_parser(name):
    return type(P.getParser(name))()


def own_text(fmt, e):
    """the entity's own text, without an attached comment (what 'the text of a string' means here)"""
    if fmt == "android":
        return e._all_literal
    if fmt == "ftl":
        # the fluent entry span includes the attached comment: start at the identifier
        return e.ctx.contents[e.key_span[0]:e.span[1]]
    return e.ctx.contents[e.span[0]:e.span[1]]


def describe(fmt, name, data):
    """parse bytes with a fresh real parser: entries as [kind, repr(key), own text, all]"""
    p = fresh_parser(name)
    p.readContents(data)
    out = []
    n = 0
    for e in p.walk():
        k = kind_of(e)
        if k == "E":
            out.append([k, repr(e.key), own_text(fmt, e), e.all])
        elif k in "SI?" and not isinstance(e, Comment):
            out.append([k, repr(e.key), e.all, e.all])
        elif k == "C":
            out.append([k, "", e.val, e.all])
        else:
            out.append([k, "", e.all, e.all])
        n += 1
        if n > 4 * len(data) + 16:
            raise RuntimeError("runaway walk")
    return out


def ents_line(fmt, name, datas):
    """protocol line for merge.ents: what get_key_value looks at, taken from the real objects"""
    toks = ["merge.ents"]
    for data in datas:
        p = fresh_parser(name)
        p.readContents(data)
        toks.append("V")
        for e in p.walk():
            if isinstance(e, Comment):
                k, key, val = "C", "", e.val
            elif isinstance(e, Whitespace):
                k, key, val = "W", "", ""
            elif isinstance(e, Junk):
                k, key, val = "J", "", ""
            else:
                kk = kind_of(e)
                k = kk if kk in "ESI" else "E"
                key, val = repr(e.key), ""
            toks += [k, enc(key), enc(val), enc(e.all)]
    return " ".join(toks)


def xml_root(data):
    """well-formedness and the root element of an XML document, read with expat directly (no minidom, no
    compare-locales code): {"wellformed": bool, "root": name, "attrs": [[name, value], ...] in document order}.
    expat rejects an element that carries the same attribute twice ("duplicate attribute")."""
    from xml.parsers import expat
    p = expat.ParserCreate()            # no namespace processing: raw attribute names (xmlns:tools, tools:ignore)
    p.ordered_attributes = True
    seen = []

    def start(name, attrs):
        if not seen:
            seen.append([name, [[attrs[i], attrs[i + 1]] for i in range(0, len(attrs), 2)]])
    p.StartElementHandler = start
    try:
        p.Parse(data, True)
    except expat.ExpatError as e:
        return {"wellformed": False, "err": str(e)[:100]}
    if not seen:
        return {"wellformed": False, "err": "no root element"}
    return {"wellformed": True, "root": seen[0][0], "attrs": seen[0][1]}


def impl_merge(fmt, name, texts, want_ents=True, want_versions=True):
    """merge_channels(name, [bytes]) plus everything the oracle needs"""
    from compare_locales.merge import merge_channels, MergeNotSupportedError
    datas = [t.encode("utf-8") for t in texts]
    res = {}
    try:
        out = merge_channels(name, datas)
    except MergeNotSupportedError:
        res["canon"] = "err MergeNotSupportedError"
        return res
    except TypeError as e:
        if "empty" in str(e) and not datas:
            res["canon"] = "err TypeError"
            return res
        raise
    if not isinstance(out, bytes):
        raise TypeError("merge_channels returned %s" % type(out).__name__)
    text = out.decode("utf-8")
    res["canon"] = "ok " + enc(text)
    res["text"] = text
    res["reparse"] = describe(fmt, name, out)
    if fmt == "android":
        res["xml"] = xml_root(out)
    if want_versions:
        res["versions"] = [describe(fmt, name, d) for d in datas]
    if want_ents:
        res["ents"] = ents_line(fmt, name, datas)
    return res


def impl_select(name, text):
    """parser selection only: which class, or refusal; `has` is the code's own notion of a supported type"""
    from compare_locales.merge import merge_channels, MergeNotSupportedError
    has = P.hasParser(name)
    try:
        out = merge_channels(name, [text.encode("utf-8")])
    except MergeNotSupportedError as e:
        return {"canon": "err MergeNotSupportedError", "msg": str(e), "has": has}
    return {"canon": "ok " + enc(out.decode("utf-8")), "cls": type(P.getParser(name)).__name__, "has": has}


def impl_probe(name, texts):
    """merge_channels on inputs outside the theorems' hypotheses (informational)"""
    from compare_locales.merge import merge_channels
    out = merge_channels(name, [t.encode("utf-8") for t in texts])
    return out.decode("utf-8")

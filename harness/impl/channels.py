"""Adapters around merge_channels and the real parsers for C15; canonical forms of Ops/C15.lean."""
import warnings

warnings.filterwarnings("ignore")

from compare_locales import parser as P
from compare_locales.parser.base import Entity, Comment, Whitespace, Junk

from impl.parse import kind_of

FNAME = {"properties": "a.properties", "dtd": "a.dtd", "ini": "a.ini", "inc": "a.inc", "po": "a.po",
         "ftl": "a.ftl", "android": "strings.xml"}


def enc(s):
    return "t:" + ",".join(str(ord(c)) for c in s)


def fresh_parser(name):
    return type(P.getParser(name))()


def own_text(fmt, e):
    """the entity's own text, without an attached comment (what 'the text of a string' means here)"""
    if fmt == "android":
        return e._all_literal
    if fmt == "ftl":
        # the fluent entry span includes the attached comment: start at the identifier
        return e.ctx.contents[e.key_span[0]:e.span[1]]
    return e.ctx.contents[e.span[0]:e.span[1]]


def describe(fmt, name, data):
    """parse bytes with a fresh real parser: entries as [kind, repr(key), own text, all]"""
    p = fresh_parser(name)
    p.readContents(data)
    out = []
    n = 0
    for e in p.walk():
        k = kind_of(e)
        if k == "E":
            out.append([k, repr(e.key), own_text(fmt, e), e.all])
        elif k in "SI?" and not isinstance(e, Comment):
            out.append([k, repr(e.key), e.all, e.all])
        elif k == "C":
            out.append([k, "", e.val, e.all])
        else:
            out.append([k, "", e.all, e.all])
        n += 1
        if n > 4 * len(data) + 16:
            raise RuntimeError("runaway walk")
    return out


def ents_line(fmt, name, datas):
    """protocol line for merge.ents: what get_key_value looks at, taken from the real objects"""
    toks = ["merge.ents"]
    for data in datas:
        p = fresh_parser(name)
        p.readContents(data)
        toks.append("V")
        for e in p.walk():
            if isinstance(e, Comment):
                k, key, val = "C", "", e.val
            elif isinstance(e, Whitespace):
                k, key, val = "W", "", ""
            elif isinstance(e, Junk):
                k, key, val = "J", "", ""
            else:
                kk = kind_of(e)
                k = kk if kk in "ESI" else "E"
                key, val = repr(e.key), ""
            toks += [k, enc(key), enc(val), enc(e.all)]
    return " ".join(toks)


def xml_root(data):
    """well-formedness and the root element of an XML document, read with expat directly (no minidom, no
    compare-locales code): {"wellformed": bool, "root": name, "attrs": [[name, value], ...] in document order}.
    expat rejects an element that carries the same attribute twice ("duplicate attribute")."""
    from xml.parsers import expat
    p = expat.ParserCreate()            # no namespace processing: raw attribute names (xmlns:tools, tools:ignore)
    p.ordered_attributes = True
    seen = []

    def start(name, attrs):
        if not seen:
            seen.append([name, [[attrs[i], attrs[i + 1]] for i in range(0, len(attrs), 2)]])
    p.StartElementHandler = start
    try:
        p.Parse(data, True)
    except expat.ExpatError as e:
        return {"wellformed": False, "err": str(e)[:100]}
    if not seen:
        return {"wellformed": False, "err": "no root element"}
    return {"wellformed": True, "root": seen[0][0], "attrs": seen[0][1]}


def impl_merge(fmt, name, texts, want_ents=True, want_versions=True):
    """merge_channels(name, [bytes]) plus everything the oracle needs"""
    from compare_locales.merge import merge_channels, MergeNotSupportedError
    datas = [t.encode("utf-8") for t in texts]
    res = {}
    try:
        out = merge_channels(name, datas)
    except MergeNotSupportedError:
        res["canon"] = "err MergeNotSupportedError"
        return res
    except TypeError as e:
        if "empty" in str(e) and not datas:
            res["canon"] = "err TypeError"
            return res
        raise
    if not isinstance(out, bytes):
        raise TypeError("merge_channels returned %s" % type(out).__name__)
    text = out.decode("utf-8")
    res["canon"] = "ok " + enc(text)
    res["text"] = text
    res["reparse"] = describe(fmt, name, out)
    if fmt == "android":
        res["xml"] = xml_root(out)
    if want_versions:
        res["versions"] = [describe(fmt, name, d) for d in datas]
    if want_ents:
        res["ents"] = ents_line(fmt, name, datas)
    return res


def impl_select(name, text):
    """parser selection only: which class, or refusal; `has` is the code's own notion of a supported type"""
    from compare_locales.merge import merge_channels, MergeNotSupportedError
    has = P.hasParser(name)
    try:
        out = merge_channels(name, [text.encode("utf-8")])
    except MergeNotSupportedError as e:
        return {"canon": "err MergeNotSupportedError", "msg": str(e), "has": has}
    return {"canon": "ok " + enc(out.decode("utf-8")), "cls": type(P.getParser(name)).__name__, "has": has}


def impl_probe(name, texts):
    """merge_channels on inputs outside the theorems' hypotheses (informational)"""
    from compare_locales.merge import merge_channels
    out = merge_channels(name, [t.encode("utf-8") for t in texts])
    return out.decode("utf-8")


# ---------------------------------------------------------------- round 5: process histories
def _classes():
    return {"properties": P.PropertiesParser, "dtd": P.DTDParser, "ini": P.IniParser, "inc": P.DefinesParser,
            "po": P.PoParser, "ftl": P.FluentParser, "android": P.AndroidParser}


def _short(e):
    k = kind_of(e)
    return [k, repr(e.key) if k in "ESI?" and not isinstance(e, Comment) else ""]


def _write(path, text):
    import os
    os.makedirs(os.path.dirname(path), exist_ok=True)
    with open(path, "w", encoding="utf-8", newline="") as f:
        f.write(text)


def h_merge(base, op):
    """merge_channels(name, [bytes, ...]) on the process-wide parser, exactly as a caller does it; afterwards the same
    resources through `merge_resources` with a parser instance created for this one call (`fresh`: diagnostics and
    differential only — the shared instance is not touched by it)"""
    from codecs import encode
    from compare_locales.merge import merge_channels, merge_resources, serialize_legacy_resource, MergeNotSupportedError
    datas = [t.encode("utf-8") for t in op["texts"]]
    res = {}
    try:
        out = merge_channels(op["name"], datas)
        if not isinstance(out, bytes):
            res["canon"] = "exc TypeError: merge_channels returned %s" % type(out).__name__
        else:
            res["text"] = out.decode("utf-8", "replace")
            res["canon"] = "ok " + enc(res["text"])
    except MergeNotSupportedError:
        res["canon"] = "err MergeNotSupportedError"
    except TypeError as e:
        res["canon"] = "err TypeError" if ("empty" in str(e) and not datas) else "exc TypeError: %s" % str(e)[:200]
    except Exception as e:          # noqa: a crash is an observation
        res["canon"] = "exc %s: %s" % (type(e).__name__, str(e)[:200])
    cls = _classes().get(op.get("fmt"))
    if cls is not None and datas and op.get("fresh", True):
        try:
            p = cls()
            res["fresh"] = encode(serialize_legacy_resource(merge_resources(p, datas)), p.encoding).decode("utf-8", "replace")
        except Exception as e:      # noqa
            res["fresh"] = None
            res["fresh_exc"] = "%s: %s" % (type(e).__name__, str(e)[:200])
    return res


def h_load(base, op):
    """the other users of the shared parser: getParser(name).readUnicode / readFile / readContents, then walk() /
    parse() / iteration / a walk that is abandoned after `k` entries / nothing"""
    import os
    import shutil
    import tempfile
    try:
        p = P.getParser(op["name"])
    except UserWarning:
        return {"canon": "noparser"}
    via = op.get("via", "unicode")
    if via == "missing":
        # the exception path of readFile: the file does not exist (compare / lint of a file that vanished)
        try:
            p.readFile(os.path.join(base, "no-such-dir", op["name"]))
        except OSError as e:
            return {"canon": "exc %s" % type(e).__name__}
        return {"canon": "loaded"}
    if via == "file":
        d = tempfile.mkdtemp(dir=base)
        try:
            path = os.path.join(d, op["name"])
            _write(path, op["text"])
            p.readFile(path)
        finally:
            shutil.rmtree(d, ignore_errors=True)
    elif via == "contents":
        p.readContents(op["text"].encode("utf-8"))
    else:
        p.readUnicode(op["text"])
    how = op.get("consume", "walk")
    if how == "none":
        return {"canon": "loaded"}
    if how == "walk":
        ents = list(p.walk())
    elif how == "parse":
        ents = list(p.parse())
    elif how == "iter":
        ents = list(p)
    else:                           # partial: the generator is dropped after k entries
        ents = []
        g = p.walk()
        for _ in range(op.get("k", 1)):
            try:
                ents.append(next(g))
            except StopIteration:
                break
        del g
    return {"canon": " ".join("%s:%s" % tuple(_short(e)) for e in ents)[:400]}


def h_compare(base, op):
    import os
    import shutil
    import tempfile
    from compare_locales.compare import ContentComparer, Observer
    from compare_locales.paths import File
    d = tempfile.mkdtemp(dir=base)
    try:
        name = op["name"]
        refp, l10p = os.path.join(d, "ref", name), os.path.join(d, "l10n", name)
        _write(refp, op["ref"])
        if op.get("l10n") is not None:          # None: the localized file does not exist (readFile raises inside compare)
            _write(l10p, op["l10n"])
        cc = ContentComparer()
        cc.observers.append(Observer())
        try:
            cc.compare(File(refp, name), File(l10p, name, locale="de"), None, None)
            return {"canon": str(sorted(cc.observers.toJSON()["summary"].get("de", {}).items()))[:300]}
        except Exception as e:      # noqa
            return {"canon": "exc %s" % type(e).__name__}
    finally:
        shutil.rmtree(d, ignore_errors=True)


def h_lint(base, op):
    import os
    import shutil
    import tempfile
    from compare_locales.lint.linter import L10nLinter
    d = tempfile.mkdtemp(dir=base)
    try:
        name = op["name"]
        curp = os.path.join(d, "cur", name)
        _write(curp, op["cur"])
        refp = None
        if op.get("ref") is not None:
            refp = os.path.join(d, "ref", name)
            _write(refp, op["ref"])
        try:
            n = len(list(L10nLinter().lint_file(curp, refp, None)))
            return {"canon": "lint %d" % n}
        except Exception as e:      # noqa
            return {"canon": "exc %s" % type(e).__name__}
    finally:
        shutil.rmtree(d, ignore_errors=True)


def h_serialize(base, op):
    from compare_locales.serializer import serialize
    name = op["name"]
    try:
        p = P.getParser(name)
        p.readUnicode(op["ref"])
        ref = list(p.walk())
        p.readUnicode(op["old"])
        old = list(p.walk())
        out = serialize(name, ref, old, dict(op.get("new") or []))
        return {"canon": "ser %d" % len(out)}
    except Exception as e:          # noqa
        return {"canon": "exc %s" % type(e).__name__}


def h_lookup(base, op):
    """hasParser / getParser on names (look-alikes that have no parser, and supported ones)"""
    out = []
    for n in op["names"]:
        if op.get("how") == "has":
            out.append("gp " + ("?" if P.hasParser(n) else "none"))
        else:
            try:
                out.append("gp " + enc(type(P.getParser(n)).__name__))
            except UserWarning:
                out.append("gp none")
    return {"canon": " | ".join(out), "each": out}


H_OPS = {"merge": h_merge, "load": h_load, "compare": h_compare, "lint": h_lint, "serialize": h_serialize,
         "lookup": h_lookup}


def impl_history(ops):
    """a whole history in THIS interpreter, one result per step"""
    import io
    import shutil
    import sys
    import tempfile
    base = tempfile.mkdtemp(prefix="verif-c15-")
    out = []
    real = sys.stdout
    try:
        for op in ops:
            sys.stdout = io.StringIO()
            try:
                r = H_OPS[op["op"]](base, op)
            except Exception as e:  # noqa: adapter-level failure, reported as such
                r = {"canon": "ADAPTER-EXC %s: %s" % (type(e).__name__, str(e)[:200])}
            finally:
                sys.stdout = real
            out.append(r)
    finally:
        shutil.rmtree(base, ignore_errors=True)
    return out


def impl_describe(fmt, name, texts, out):
    """what the oracle needs about ONE merge of a history, computed in another interpreter with parsers created for
    the purpose: the fields of impl_merge for the result `out` (text or None) the history's merge returned"""
    datas = [t.encode("utf-8") for t in texts]
    res = {"versions": [describe(fmt, name, d) for d in datas], "ents": ents_line(fmt, name, datas)}
    if out is not None:
        res["canon"] = "ok " + enc(out)
        res["text"] = out
        res["reparse"] = describe(fmt, name, out.encode("utf-8"))
        if fmt == "android":
            res["xml"] = xml_root(out.encode("utf-8"))
    return res

"""Round 4 (C11/C12): generators and INDEPENDENT references for the pure mozpath helpers and for
Matcher equality / concat / expand / construction from a matcher / encoding.

Nothing here looks at the Lean model or calls compare_locales.  The references state what the
docstrings of mozpath.py promise (or an algebraic law that characterises the result); they are
written in a different style from the code under test (fix-point rewriting instead of a stack,
checks of the RESULT instead of a re-computation) so that a slip in the code is not repeated here.
"""
import itertools

COMPS = ["", ".", "..", "a", "b.c", "d.e.f", ".hid", "..x", "x.", "foo", "é"]
CWDS = ["/", "/tmp", "/usr/lib"]


def odd_paths(maxlen):
    """every path of <= maxlen components over COMPS[:7], each with the leading forms '', '/', '//', '///' and
    with / without a trailing slash: empty path, '.', '..', doubled slashes, trailing slash, absolute vs relative"""
    out = []
    base = COMPS[:7]
    for n in range(0, maxlen + 1):
        for cs in itertools.product(base, repeat=n):
            body = "/".join(cs)
            for lead in ("", "/", "//", "///"):
                for trail in ("", "/"):
                    out.append(lead + body + trail)
    seen = set()
    return [p for p in out if not (p in seen or seen.add(p))]


def rand_path(rng, maxlen=6):
    n = rng.randrange(0, maxlen + 1)
    cs = [rng.choice(COMPS) for _ in range(n)]
    return rng.choice(["", "", "/", "//", "///"]) + "/".join(cs) + rng.choice(["", "", "/"])


def clean_rel(rng, maxlen=4, dots=True):
    """a relative path that does not climb above its start (may contain '.', '', and 'x/..')"""
    depth, cs = 0, []
    for _ in range(rng.randrange(0, maxlen + 1)):
        r = rng.random()
        if dots and r < 0.15:
            cs.append(".")
        elif dots and r < 0.25 and cs:
            cs.append("")
        elif dots and r < 0.4 and depth > 0:
            cs.append("..")
            depth -= 1
        else:
            cs.append(rng.choice(["a", "b.c", "foo", ".hid", "é", "x."]))
            depth += 1
    return "/".join(cs)


# ------------------------------------------------------------------ references (independent)
def ref_normpath(p):
    """normal form by REWRITING: drop '' and '.', then delete a pair 'x/..' (x != '..') until none is left;
    an absolute path also drops leading '..'; exactly two leading slashes are kept (POSIX)"""
    if p == "":
        return "."
    lead = 0
    while lead < len(p) and p[lead] == "/":
        lead += 1
    lead = 2 if lead == 2 else (1 if lead else 0)
    cs = [c for c in p.split("/") if c not in ("", ".")]
    changed = True
    while changed:
        changed = False
        for i in range(1, len(cs)):
            if cs[i] == ".." and cs[i - 1] != "..":
                del cs[i - 1:i + 1]
                changed = True
                break
        if lead and cs and cs[0] == "..":
            del cs[0]
            changed = True
    return "/" * lead + "/".join(cs) or "."


def check_normpath(p, got):
    bad = []
    if got != ref_normpath(p):
        bad.append("normpath(%r) = %r, expected %r" % (p, got, ref_normpath(p)))
    return bad


def check_join(parts, got):
    """posixpath.join, stated on the RESULT: joining is a left fold of the two-argument rule: an absolute right part
    restarts the path; otherwise the parts are glued with exactly one '/' unless the left side is empty or already
    ends with one"""
    if not parts:
        return [] if got == {"exc": "TypeError"} else ["join() = %r, expected TypeError" % (got,)]
    if not isinstance(got, str):
        return ["join%r raised %r" % (tuple(parts), got)]
    acc = parts[0]
    for b in parts[1:]:
        if b.startswith("/"):
            acc = b
        elif acc == "" or acc.endswith("/"):
            acc = acc + b
        else:
            acc = acc + "/" + b
    return [] if got == acc else ["join%r = %r, expected %r" % (tuple(parts), got, acc)]


def check_split(p, got):
    bad = []
    if "/".join(got) != p:
        bad.append("'/'.join(split(%r)) = %r" % (p, "/".join(got)))
    if any("/" in c for c in got):
        bad.append("split(%r) has a part with a separator: %r" % (p, got))
    return bad


def check_dir_base(p, d, b):
    bad = []
    if "/" in b or not p.endswith(b):
        bad.append("basename(%r) = %r" % (p, b))
        return bad
    head = p[:len(p) - len(b)]
    if head and not head.endswith("/"):
        bad.append("basename(%r) = %r does not start after a separator" % (p, b))
    exp = head if head == "/" * len(head) else head.rstrip("/")
    if d != exp:
        bad.append("dirname(%r) = %r, expected %r" % (p, d, exp))
    return bad


def check_splitext(p, root, ext):
    bad = []
    if root + ext != p:
        bad.append("splitext(%r) = %r: parts do not add up" % (p, (root, ext)))
        return bad
    name = p[p.rfind("/") + 1:]
    stripped = name.lstrip(".")
    want_ext = ""
    if "." in stripped:
        want_ext = stripped[stripped.rfind("."):]
    if ext != want_ext:
        bad.append("splitext(%r) = %r, expected the extension %r (leading dots of the name do not count)" % (p, (root, ext), want_ext))
    return bad


def check_commonprefix(paths, got):
    bad = []
    if not paths:
        return [] if got == "" else ["commonprefix([]) = %r" % (got,)]
    if not all(p.startswith(got) for p in paths):
        bad.append("commonprefix(%r) = %r is not a prefix of every path" % (paths, got))
    n = len(got)
    nxt = {p[n:n + 1] for p in paths}
    if len(nxt) == 1 and "" not in nxt:
        bad.append("commonprefix(%r) = %r is not the longest common prefix" % (paths, got))
    return bad


def check_basedir(path, bases, got):
    """docstring: the base that contains the path; the deepest one if several do"""
    if path in bases:
        exp = path
    else:
        cands = [b for b in bases if b == "" or path.startswith(b + "/")]
        exp = max(cands, key=len) if cands else None
    if got != exp:
        return ["basedir(%r, %r) = %r, expected %r" % (path, bases, got, exp)]
    return []


# ------------------------------------------------------------------ matcher pairs for ==
def respace(pat, rng):
    """the same pattern with blanks inside the braces"""
    out, i = "", 0
    while i < len(pat):
        if pat[i] == "{" and "}" in pat[i:]:
            j = pat.index("}", i)
            name = pat[i + 1:j].strip()
            out += "{" + " " * rng.randrange(0, 3) + name + " " * rng.randrange(0, 3) + "}"
            i = j + 1
        else:
            out += pat[i]
            i += 1
    return out


def mutate_pattern(pat, rng):
    """a pattern text that parses to a DIFFERENT node list (None if no mutation applies)"""
    r = rng.random()
    if r < 0.15 and "**/" in pat:
        return pat.replace("**/", "*/", 1)          # a directory wildcard becomes a single star
    if r < 0.25 and "**" not in pat and "/*" in pat:
        i = pat.index("/*")
        if pat[i + 2:i + 3] != "*":
            return pat[:i] + "/**/" + pat[i + 1:]   # an additional directory wildcard: every later star is renumbered
    if r < 0.3 and "*" in pat:
        i = pat.index("*")
        return pat[:i] + "x" + pat[i + 1:]
    if r < 0.5 and "{" in pat and "}" in pat[pat.index("{"):]:
        i = pat.index("{")
        j = pat.index("}", i)
        return pat[:i] + "{zz" + pat[i + 1:j].strip() + "}" + pat[j + 1:]
    if r < 0.7:
        return pat + "x"
    if r < 0.85 and pat:
        i = rng.randrange(len(pat))
        if pat[i] not in "*{} /":
            return pat[:i] + ("#" if pat[i] != "#" else "%") + pat[i + 1:]
    if r < 0.95:
        return "q/" + pat
    return None


def ref_nodes(pat):
    """the node list of a pattern, stated independently of PatternParser: literal runs, `{ name }` variables (the
    second and later occurrences of a name are REPEATS, {android_locale} is its own kind), `**` at the start of the
    pattern or right after '/' or '}' and followed by '/' (taken along) or the end = directory wildcard, any other `*` = star.
    Wildcards are numbered from 1 in order of appearance."""
    out, lit, seen, num, i, n = [], "", set(), 0, 0, len(pat)

    def flush():
        nonlocal lit
        if lit:
            out.append(("lit", lit))
            lit = ""
    while i < n:
        c = pat[i]
        if c == "*":
            dstar = pat.startswith("**", i) and (i == 0 or pat[i - 1] in "/}") and (i + 2 == n or pat[i + 2] == "/" or pat[i + 2:] == "\n")
            flush()
            num += 1
            if dstar:
                sfx = "/" if pat[i + 2:i + 3] == "/" else ""
                out.append(("dstar", num, sfx))
                i += 2 + len(sfx)
            else:
                out.append(("star", num))
                i += 1
            continue
        if c == "{":
            j = i + 1
            while j < n and pat[j] == " ":
                j += 1
            k = j
            while k < n and (pat[k].isalnum() or pat[k] == "_"):
                k += 1
            e = k
            while e < n and pat[e] == " ":
                e += 1
            if k > j and e < n and pat[e] == "}":
                name = pat[j:k]
                flush()
                out.append(("android" if name == "android_locale" else "var", name, name in seen))
                seen.add(name)
                i = e + 1
                continue
        lit += c
        i += 1
    out.append(("lit", lit))      # the parser always closes with a (possibly empty) literal
    return out

"""C13, TOML route: wire encoding of `toml.load` dictionaries, canonical text of a real `ProjectConfig` graph (the same
text `cldriver c13.toml.parse` prints for the model's graph), and the directed family of configuration texts."""
import os
import shutil
import tempfile
import warnings

warnings.filterwarnings("ignore")

SCRATCH = "/tmp/wt/c13"
TOML_KEYS = ("l10n", "path", "action")


def enc(s):
    return "t:" + ",".join(str(ord(c)) for c in s)


# ---------------------------------------------------------------- toml.load output -> wire
def tv_tokens(o):
    if isinstance(o, str):
        return ["S", enc(o)]
    if isinstance(o, dict):
        out = ["D", str(len(o))]
        for k, v in o.items():
            out.append(enc(k))
            out += tv_tokens(v)
        return out
    if isinstance(o, (list, tuple)):
        out = ["A", str(len(o))]
        for v in o:
            out += tv_tokens(v)
        return out
    return ["O"]


def load_world(paths):
    """{path: toml.load(path)} for the files `TOMLParser.load` can read; the others (missing, directory, TomlDecodeError)
    are the ones it turns into ConfigNotFound"""
    import toml
    out = {}
    for p in paths:
        try:
            with open(p) as f:
                out[p] = toml.load(f)
        except (toml.TomlDecodeError, OSError):
            pass
    return out


def world_tokens(ignore, cwd, env, files):
    toks = ["1" if ignore else "0", enc(cwd), "ENV", str(len(env))]
    for k, v in env.items():
        toks += [enc(k), enc(v)]
    toks += ["W", str(len(files))]
    for p, d in files.items():
        toks.append(enc(p))
        toks += tv_tokens(d)
    return toks


# ---------------------------------------------------------------- real ProjectConfig -> canonical text
def opt(x):
    return "-" if x is None else enc(x)


def locs(ls):
    if ls is None:
        return "-"
    return " ".join(["L %d" % len(ls)] + [enc(x) for x in ls])


def env_list(items):
    return " ".join(["E %d" % len(items)] + ["%s %s" % (enc(k), enc(v)) for k, v in items])


def canon_matcher(m, pc):
    from impl.projfiles import pattern_text
    env = [(k, pattern_text(v)) for k, v in m.env.items()]
    e = "=" if env == list(pc.environ.items()) else env_list(env)
    return "m %s %s %s" % (opt(m.pattern.root), enc(pattern_text(m.pattern)), e)


def canon_pc(pc):
    toks = ["C %s %s %s" % (opt(pc.path), opt(pc.root), env_list(list(pc.environ.items()))), "P %d" % len(pc.paths)]
    for d in pc.paths:
        ref = canon_matcher(d["reference"], pc) if "reference" in d else "-"
        test = " ".join(["T %d" % len(d["test"])] + [enc(t) for t in d["test"]]) if "test" in d else "-"
        toks.append("p %s %s %s %s %s" % (canon_matcher(d["l10n"], pc), ref, test, locs(d.get("locales")), opt(d.get("module"))))
    toks.append("R %d" % len(pc.rules))
    for r in pc.rules:
        key = ("k " + enc(r["key"].pattern)) if "key" in r else "-"
        toks.append("r %s %s %s" % (canon_matcher(r["path"], pc), key, enc(r["action"])))
    toks += [locs(pc.locales), "A", locs(list(pc.all_locales)), "I %d" % len(pc.children)]
    for c in pc.children:
        toks.append(canon_pc(c))
    toks.append("X %d" % len(pc.excludes))
    for c in pc.excludes:
        toks.append(canon_pc(c))
    return " ".join(toks)


def canon_exc(e):
    n = type(e).__name__
    if n == "ConfigNotFound":
        return "err:ConfigNotFound " + enc(e.filename)
    if n == "KeyError":
        k = e.args[0] if e.args else None
        return ("err:KeyError " + enc(k)) if k in TOML_KEYS else "err:matcher:KeyError"
    if n in ("ExcludeError", "RecursionError"):
        return "err:" + n
    if n == "MissingEnvironment":
        return "err:matcher:MissingEnvironment"
    return "err:other:" + n


# ---------------------------------------------------------------- running one raw case
def write_files(root, files):
    for rel, text in files.items():
        p = os.path.join(root, rel)
        os.makedirs(os.path.dirname(p), exist_ok=True)
        if text is None:
            if os.path.exists(p):
                os.remove(p)
            continue
        with open(p, "w") as f:
            f.write(text.replace("@R@", root))


def all_tomls(root):
    out = []
    for d, dirs, fs in os.walk(root):
        dirs.sort()
        for f in sorted(fs):
            out.append(os.path.join(d, f).replace(os.sep, "/"))
    return out


def run_raw(case):
    """case = {"files": {rel: toml text|None}, "top": rel, "env": {...}, "ignore": bool, "deep": [..]|None,
               "cwd_rel": bool, "then": {"files": ..., "top": rel}|None}
    Real TOMLParser on real files vs the `c13.toml.parse` line (and `c13.toml.same` when `then` is given)."""
    from compare_locales.paths import TOMLParser
    os.makedirs(SCRATCH, exist_ok=True)
    root = os.path.realpath(tempfile.mkdtemp(prefix="raw-", dir=SCRATCH))
    old_cwd = os.getcwd()
    try:
        write_files(root, case["files"])
        env = {k: v.replace("@R@", root) for k, v in case.get("env", {}).items()}
        ignore = bool(case.get("ignore"))
        top = case["top"] if case.get("cwd_rel") else os.path.join(root, case["top"])
        if case.get("cwd_rel"):
            os.chdir(root)
        cwd = os.getcwd()
        world = world_tokens(ignore, cwd, env, load_world(all_tomls(root)))
        deep = case.get("deep")
        line = " ".join(["c13.toml.parse"] + world + [enc(top), locs(deep)])
        pc = None
        try:
            pc = TOMLParser().parse(top, env=dict(env), ignore_missing_includes=ignore)
            if deep is not None:
                pc.set_locales(list(deep), deep=True)
            impl = canon_pc(pc)
        except RecursionError as e:
            impl = canon_exc(e)
        except Exception as e:       # noqa: every exception is a result here
            impl = canon_exc(e)
        out = {"line": line, "impl": impl.replace(root, "@R@"), "root": root, "violations": []}
        same = None
        if case.get("then") is not None and pc is not None:
            then = case["then"]
            write_files(root, then.get("files", {}))
            top2 = os.path.join(root, then.get("top", case["top"]))
            env2 = {k: v.replace("@R@", root) for k, v in then.get("env", case.get("env", {})).items()}
            world2 = world_tokens(ignore, cwd, env2, load_world(all_tomls(root)))
            try:
                pc2 = TOMLParser().parse(top2, env=dict(env2), ignore_missing_includes=ignore)
                same = str(pc.same(pc2))
            except Exception as e:   # noqa
                same = canon_exc(e).replace(root, "@R@")
            out["same_impl"] = same
            out["same_line"] = " ".join(["c13.toml.same"] + world + [enc(top)] + world2 + [enc(top2)])
        if "expect" in case:
            out["violations"] = check_expect(case, root, pc if pc is not None else impl, same)
        return out
    finally:
        os.chdir(old_cwd)
        shutil.rmtree(root, ignore_errors=True)


# ---------------------------------------------------------------- directed family
A_PLAIN = 'basepath = ".."\n[[paths]]\n    l10n = "{l10n_base}/{locale}/a/**"\n    reference = "ref/a/**"\n'
B_PLAIN = 'basepath = ".."\nlocales = ["pt"]\n[[paths]]\n    l10n = "{l10n_base}/{locale}/b/*.ftl"\n'
MAIN_HEAD = 'basepath = "."\nlocales = ["de", "fr"]\n[env]\n    l = "{l10n_base}/{locale}/"\n[[paths]]\n    l10n = "{l}m/**"\n    reference = "ref/m/**"\n'


def inc(p, field="includes"):
    return '[[%s]]\n    path = "%s"\n' % (field, p)


def D(name, files, expect, top="l10n.toml", env=None, ignore=False, **kw):
    d = {"name": name, "files": files, "top": top, "env": {"l10n_base": "@R@/l10n"} if env is None else env,
         "ignore": ignore, "expect": expect}
    d.update(kw)
    return d


def directed_cases():
    cs = []
    for ig in (False, True):
        t = "-ignore" if ig else ""
        cs.append(D("top-missing" + t, {"other.toml": A_PLAIN}, "err:ConfigNotFound @R@/l10n.toml", ignore=ig))
        cs.append(D("top-garbled" + t, {"l10n.toml": "this = = is not toml\n"}, "err:ConfigNotFound @R@/l10n.toml", ignore=ig))
        cs.append(D("top-is-directory" + t, {"l10n.toml/x.toml": A_PLAIN}, "err:ConfigNotFound @R@/l10n.toml", ignore=ig))
        cs.append(D("include-missing" + t, {"l10n.toml": MAIN_HEAD + inc("cfg/a.toml") + inc("cfg/b.toml"), "cfg/b.toml": B_PLAIN},
                    "children:cfg/b.toml" if ig else "err:ConfigNotFound @R@/cfg/a.toml", ignore=ig))
        cs.append(D("include-garbled" + t, {"l10n.toml": MAIN_HEAD + inc("cfg/a.toml"), "cfg/a.toml": "[[paths]\n"},
                    "children:" if ig else "err:ConfigNotFound @R@/cfg/a.toml", ignore=ig))
        cs.append(D("nested-missing" + t, {"l10n.toml": MAIN_HEAD + inc("cfg/a.toml"), "cfg/a.toml": A_PLAIN + inc("cfg/gone.toml")},
                    "children:cfg/a.toml" if ig else "err:ConfigNotFound @R@/cfg/gone.toml", ignore=ig))
        cs.append(D("exclude-missing" + t, {"l10n.toml": MAIN_HEAD + inc("cfg/a.toml") + inc("cfg/x.toml", "excludes"), "cfg/a.toml": A_PLAIN},
                    "excludes:" if ig else "err:ConfigNotFound @R@/cfg/x.toml", ignore=ig))
        cs.append(D("second-missing-after-first-ok" + t, {"l10n.toml": MAIN_HEAD + inc("cfg/a.toml") + inc("nope.toml") + inc("cfg/b.toml"),
                                                          "cfg/a.toml": A_PLAIN, "cfg/b.toml": B_PLAIN},
                    "children:cfg/a.toml,cfg/b.toml" if ig else "err:ConfigNotFound @R@/nope.toml", ignore=ig))
        # the exceptions that are NOT ConfigNotFound are never swallowed
        cs.append(D("include-declares-excludes" + t, {"l10n.toml": MAIN_HEAD + inc("cfg/a.toml"),
                                                      "cfg/a.toml": A_PLAIN + inc("cfg/b.toml", "excludes"), "cfg/b.toml": B_PLAIN},
                    "err:ExcludeError", ignore=ig))
        cs.append(D("exclude-declares-excludes" + t, {"l10n.toml": MAIN_HEAD + inc("cfg/a.toml", "excludes"),
                                                      "cfg/a.toml": A_PLAIN + inc("cfg/b.toml", "excludes"), "cfg/b.toml": B_PLAIN},
                    "err:ExcludeError", ignore=ig))
        cs.append(D("exclude-includes-config-with-excludes" + t,
                    {"l10n.toml": MAIN_HEAD + inc("cfg/a.toml", "excludes"), "cfg/a.toml": A_PLAIN + inc("cfg/b.toml"),
                     "cfg/b.toml": B_PLAIN + inc("cfg/c.toml", "excludes"), "cfg/c.toml": A_PLAIN}, "err:ExcludeError", ignore=ig))
        cs.append(D("include-declares-missing-exclude" + t, {"l10n.toml": MAIN_HEAD + inc("cfg/a.toml"),
                                                            "cfg/a.toml": A_PLAIN + inc("cfg/gone.toml", "excludes")},
                    "children:cfg/a.toml" if ig else "err:ConfigNotFound @R@/cfg/gone.toml", ignore=ig))
        cs.append(D("self-include" + t, {"l10n.toml": MAIN_HEAD + inc("l10n.toml")}, "err:RecursionError", ignore=ig))
        cs.append(D("include-cycle" + t, {"l10n.toml": MAIN_HEAD + inc("cfg/a.toml"), "cfg/a.toml": A_PLAIN + inc("l10n.toml")},
                    "err:RecursionError", ignore=ig))
        cs.append(D("exclude-cycle" + t, {"l10n.toml": MAIN_HEAD + inc("cfg/a.toml", "excludes"),
                                         "cfg/a.toml": A_PLAIN + inc("cfg/a.toml")}, "err:RecursionError", ignore=ig))
        cs.append(D("paths-without-l10n" + t, {"l10n.toml": 'basepath = "."\n[[paths]]\n    reference = "ref/**"\n' + inc("nope.toml")},
                    "err:KeyError l10n", ignore=ig))
        cs.append(D("second-paths-without-l10n" + t, {"l10n.toml": MAIN_HEAD + '[[paths]]\n    locales = ["de"]\n'}, "err:KeyError l10n", ignore=ig))
        cs.append(D("filter-without-path" + t, {"l10n.toml": MAIN_HEAD + '[[filters]]\n    action = "ignore"\n'}, "err:KeyError path", ignore=ig))
        cs.append(D("filter-without-action" + t, {"l10n.toml": MAIN_HEAD + '[[filters]]\n    path = "{l}m/x"\n' + inc("nope.toml")},
                    "err:KeyError action", ignore=ig))
        cs.append(D("include-without-path" + t, {"l10n.toml": MAIN_HEAD + '[[includes]]\n    file = "cfg/a.toml"\n'}, "err:KeyError path", ignore=ig))
        cs.append(D("exclude-without-path" + t, {"l10n.toml": MAIN_HEAD + '[[excludes]]\n    file = "cfg/a.toml"\n'}, "err:KeyError path", ignore=ig))
        cs.append(D("child-keyerror" + t, {"l10n.toml": MAIN_HEAD + inc("cfg/a.toml"), "cfg/a.toml": '[[paths]]\n    reference = "x"\n'},
                    "err:KeyError l10n", ignore=ig))
        cs.append(D("include-unbound-variable-first" + t, {"l10n.toml": MAIN_HEAD + inc("{nope}/a.toml")}, "err:matcher:MissingEnvironment", ignore=ig))
        cs.append(D("include-unbound-variable-inside" + t, {"l10n.toml": MAIN_HEAD + inc("cfg/{nope}/a.toml"), "cfg/a.toml": A_PLAIN},
                    "children:" if ig else "err:ConfigNotFound @R@/cfg", ignore=ig))
        cs.append(D("include-with-wildcard" + t, {"l10n.toml": MAIN_HEAD + inc("cfg/*.toml"), "cfg/a.toml": A_PLAIN}, "err:matcher:KeyError", ignore=ig))
    # how an include path is resolved: root (= basepath), [env], command line, normpath, absolute paths
    two = {"cfg/a.toml": A_PLAIN, "cfg/b.toml": B_PLAIN}
    for nm, main, env in [
        ("plain", MAIN_HEAD + inc("cfg/a.toml"), None),
        ("dot", MAIN_HEAD + inc("./cfg/a.toml"), None),
        ("updown", MAIN_HEAD + inc("cfg/sub/../../cfg/./a.toml"), None),
        ("double-slash", MAIN_HEAD + inc("cfg//a.toml"), None),
        ("absolute", MAIN_HEAD + inc("@R@/cfg/a.toml"), None),
        ("file-env", MAIN_HEAD.replace("[env]\n", '[env]\n    d = "cfg"\n') + inc("{d}/a.toml"), None),
        ("file-env-absolute", MAIN_HEAD.replace("[env]\n", '[env]\n    d = "@R@/cfg"\n') + inc("{d}/a.toml"), None),
        ("cmdline-env", MAIN_HEAD + inc("{d}/a.toml"), {"l10n_base": "@R@/l10n", "d": "cfg"}),
        ("cmdline-overrides-file-env", MAIN_HEAD.replace("[env]\n", '[env]\n    d = "nowhere"\n') + inc("{d}/a.toml"), {"l10n_base": "@R@/l10n", "d": "cfg"}),
        ("nested-variables", MAIN_HEAD.replace("[env]\n", '[env]\n    d = "{e}fg"\n    e = "c"\n') + inc("{d}/a.toml"), None),
        ("spaces-in-braces", MAIN_HEAD.replace("[env]\n", '[env]\n    d = "cfg"\n') + inc("{ d }/a.toml"), None),
        ("basepath-absent", MAIN_HEAD.replace('basepath = "."\n', "") + inc("cfg/a.toml"), None),
        ("basepath-dot-slash", MAIN_HEAD.replace('basepath = "."', 'basepath = "./"') + inc("cfg/a.toml"), None),
        ("basepath-subdir", MAIN_HEAD.replace('basepath = "."', 'basepath = "cfg"') + inc("a.toml"), None),
        ("basepath-subdir-up", MAIN_HEAD.replace('basepath = "."', 'basepath = "cfg/sub/.."') + inc("a.toml") + inc("../cfg/b.toml"), None),
        ("basepath-absolute", MAIN_HEAD.replace('basepath = "."', 'basepath = "@R@/cfg"') + inc("a.toml"), None),
        ("basepath-empty", MAIN_HEAD.replace('basepath = "."', 'basepath = ""') + inc("cfg/a.toml"), None),
        ("basepath-parent-of-root", MAIN_HEAD.replace('basepath = "."', 'basepath = "../../../../../../../.."') + inc("@R@/cfg/a.toml"), None),
        ("twice", MAIN_HEAD + inc("cfg/a.toml") + inc("cfg/a.toml") + inc("cfg/b.toml", "excludes"), None),
        ("included-and-excluded", MAIN_HEAD + inc("cfg/a.toml") + inc("cfg/a.toml", "excludes"), None),
    ]:
        files = dict(two)
        files["l10n.toml"] = main
        want = "children:cfg/a.toml" + (",cfg/a.toml" if nm == "twice" else "") + (",cfg/b.toml" if nm == "basepath-subdir-up" else "")
        cs.append(D("resolve-" + nm, files, want, env=env))
    # what a child inherits: the command-line env only, never the parent's [env]
    cs.append(D("child-env-not-inherited", {"l10n.toml": MAIN_HEAD.replace("[env]\n", '[env]\n    v = "parent"\n') + inc("cfg/a.toml"),
                                            "cfg/a.toml": 'basepath = ".."\n[[paths]]\n    l10n = "{l10n_base}/{locale}/{v}/**"\n'},
                "childenv:l10n_base"))
    cs.append(D("child-env-own-and-cmdline", {"l10n.toml": MAIN_HEAD.replace("[env]\n", '[env]\n    v = "parent"\n') + inc("cfg/a.toml"),
                                              "cfg/a.toml": 'basepath = ".."\n[env]\n    v = "own"\n    w = "kept"\n    l10n_base = "wrong"\n[[paths]]\n    l10n = "{l10n_base}/{locale}/{v}/**"\n'},
                "childenv:v,w,l10n_base,z", env={"l10n_base": "@R@/l10n", "z": "cmd"}))
    # filters
    flt = ('[[filters]]\n    path = "{l}m/a.ftl"\n    action = "ignore"\n'
           '[[filters]]\n    path = ["{l}m/b.ftl", "{l}m/sub/**"]\n    key = "plain.key-1 x"\n    action = "warning"\n'
           '[[filters]]\n    path = ["{l}m/c.ftl", "{l}m/d.ftl"]\n    key = ["re:^foo(bar)?$", "k2", "re:", "re"]\n    action = "error"\n'
           '[[filters]]\n    path = []\n    key = "k"\n    action = "ignore"\n'
           '[[filters]]\n    path = "{l}m/e.ftl"\n    key = []\n    action = "ignore"\n'
           '[[filters]]\n    path = "{l}m/f.ftl"\n    key = "()[]{}?*+-|^$\\\\.&~# \\t"\n    action = "odd-action"\n')
    cs.append(D("filters", {"l10n.toml": MAIN_HEAD + flt}, "rules:12"))
    cs.append(D("filters-in-child", {"l10n.toml": MAIN_HEAD + inc("cfg/a.toml"), "cfg/a.toml": A_PLAIN + flt.replace("{l}", "{l10n_base}/{locale}/")},
                "children:cfg/a.toml"))
    # locales and all_locales: own + per path + included children, never the excludes
    cs.append(D("all-locales", {"l10n.toml": MAIN_HEAD + '[[paths]]\n    l10n = "{l}x/*"\n    locales = ["ja", "de"]\n' + inc("cfg/a.toml") + inc("cfg/b.toml", "excludes"),
                                "cfg/a.toml": 'locales = ["it", "de"]\n' + A_PLAIN + '    locales = ["sv"]\n' + inc("cfg/c.toml"),
                                "cfg/c.toml": 'basepath = ".."\nlocales = []\n[[paths]]\n    l10n = "c/*"\n    locales = ["zu"]\n',
                                "cfg/b.toml": B_PLAIN}, "all_locales:de,fr,it,ja,sv,zu"))
    cs.append(D("no-locales", {"l10n.toml": 'basepath = "."\n[[paths]]\n    l10n = "x/{locale}/*"\n'}, "all_locales:"))
    cs.append(D("empty-file", {"l10n.toml": ""}, "all_locales:"))
    cs.append(D("deep-locales", {"l10n.toml": MAIN_HEAD + inc("cfg/a.toml") + inc("cfg/b.toml", "excludes"),
                                 "cfg/a.toml": 'locales = ["it"]\n' + A_PLAIN + inc("cfg/c.toml"), "cfg/c.toml": A_PLAIN, "cfg/b.toml": B_PLAIN},
                "deep:sv,zu", deep=["sv", "zu"]))
    cs.append(D("relative-top-path", {"l10n.toml": MAIN_HEAD + inc("cfg/a.toml"), "cfg/a.toml": A_PLAIN}, "children:cfg/a.toml", cwd_rel=True))
    cs.append(D("relative-top-path-subdir", {"cfg/main.toml": MAIN_HEAD.replace('basepath = "."', 'basepath = ".."') + inc("cfg/a.toml"), "cfg/a.toml": A_PLAIN},
                "children:cfg/a.toml", top="cfg/main.toml", cwd_rel=True))
    # values of another type than the code expects: outside the model (reported as unsupported, counted)
    cs.append(D("ill-typed-locales", {"l10n.toml": 'locales = "de"\n'}, "any"))
    cs.append(D("ill-typed-paths", {"l10n.toml": 'paths = "x"\n'}, "any"))
    cs.append(D("ill-typed-env-value", {"l10n.toml": '[env]\n    n = 3\n'}, "any"))
    # ProjectConfig.same: equality ignoring locales (and excludes)
    base = {"l10n.toml": MAIN_HEAD + '[[filters]]\n    path = "{l}m/a.ftl"\n    key = "k"\n    action = "ignore"\n' + inc("cfg/a.toml") + inc("cfg/b.toml", "excludes"),
            "cfg/a.toml": A_PLAIN, "cfg/b.toml": B_PLAIN}
    for nm, edit, want in [
        ("unchanged", {}, "True"),
        ("locales-changed", {"l10n.toml": base["l10n.toml"].replace('["de", "fr"]', '["it"]')}, "True"),
        ("child-locales-changed", {"cfg/a.toml": 'locales = ["zu"]\n' + A_PLAIN}, "True"),
        ("excludes-changed", {"l10n.toml": base["l10n.toml"].replace(inc("cfg/b.toml", "excludes"), "")}, "True"),
        ("excluded-config-changed", {"cfg/b.toml": B_PLAIN.replace("/b/", "/bb/")}, "True"),
        ("spaces-in-braces", {"l10n.toml": base["l10n.toml"].replace('l10n = "{l}m/**"', 'l10n = "{ l }m/**"')}, "True"),
        ("env-reordered", {"l10n.toml": base["l10n.toml"].replace("[env]\n", '[env]\n    l10n_base = "x"\n')}, "True"),
        ("l10n-changed", {"l10n.toml": base["l10n.toml"].replace("{l}m/**", "{l}n/**")}, "False"),
        ("reference-changed", {"l10n.toml": base["l10n.toml"].replace("ref/m/**", "ref/n/**")}, "False"),
        ("reference-dropped", {"l10n.toml": base["l10n.toml"].replace('    reference = "ref/m/**"\n', "")}, "False"),
        ("path-locales-added", {"l10n.toml": base["l10n.toml"].replace('    reference = "ref/m/**"\n', '    reference = "ref/m/**"\n    locales = ["de"]\n')}, "False"),
        ("test-added", {"l10n.toml": base["l10n.toml"].replace('    reference = "ref/m/**"\n', '    reference = "ref/m/**"\n    test = ["android-dtd"]\n')}, "False"),
        ("env-value-changed", {"l10n.toml": base["l10n.toml"].replace('l = "{l10n_base}/{locale}/"', 'l = "{l10n_base}/x/{locale}/"')}, "False"),
        ("env-added", {"l10n.toml": base["l10n.toml"].replace("[env]\n", '[env]\n    extra = "1"\n')}, "False"),
        ("basepath-changed", {"l10n.toml": base["l10n.toml"].replace('basepath = "."', 'basepath = "cfg"').replace(inc("cfg/a.toml"), inc("a.toml")).replace(inc("cfg/b.toml", "excludes"), inc("b.toml", "excludes"))}, "False"),
        ("filter-action-changed", {"l10n.toml": base["l10n.toml"].replace('action = "ignore"', 'action = "warning"')}, "False"),
        ("filter-key-changed", {"l10n.toml": base["l10n.toml"].replace('key = "k"', 'key = "k2"')}, "False"),
        ("filter-key-same-regex", {"l10n.toml": base["l10n.toml"].replace('key = "k"', 'key = "re:k$"')}, "True"),
        ("filter-dropped", {"l10n.toml": MAIN_HEAD + inc("cfg/a.toml") + inc("cfg/b.toml", "excludes")}, "False"),
        ("child-dropped", {"l10n.toml": base["l10n.toml"].replace(inc("cfg/a.toml"), "")}, "False"),
        ("child-rule-changed", {"cfg/a.toml": A_PLAIN.replace("/a/**", "/aa/**")}, "False"),
        ("child-replaced", {"l10n.toml": base["l10n.toml"].replace(inc("cfg/a.toml"), inc("cfg/a2.toml")), "cfg/a2.toml": A_PLAIN}, "False"),
        ("cmdline-env-changed", None, "False"),
        ("other-top-file", "other", "False"),
    ]:
        then = {"files": edit} if isinstance(edit, dict) else {}
        if edit is None:
            then = {"files": {}, "env": {"l10n_base": "@R@/elsewhere"}}
        if edit == "other":
            then = {"files": {"copy.toml": base["l10n.toml"]}, "top": "copy.toml"}
        cs.append(D("same-" + nm, dict(base), "same:" + want, then=then))
    return cs


def graph_nodes(pc):
    """every ProjectConfig of the graph: the config, its children and its excludes, recursively"""
    out = [pc]
    for c in list(pc.children) + list(pc.excludes):
        out += graph_nodes(c)
    return out


def check_expect(case, root, result, same):
    """the directed expectation, evaluated on the REAL result (independent of the model): list of messages"""
    exp = case["expect"]
    msgs = []
    rel = lambda p: p[len(root) + 1:] if p and p.startswith(root + "/") else p
    if exp == "any":
        return msgs
    if exp.startswith("err:"):
        got = result if isinstance(result, str) else "a ProjectConfig"
        if canon_readable(got) != exp.replace("@R@", root):
            msgs.append("directed case %s: expected %s, TOMLParser gave %s" % (case["name"], exp, canon_readable(got).replace(root, "@R@")))
        return msgs
    if isinstance(result, str):
        return ["directed case %s: expected a configuration (%s), TOMLParser raised %s" % (case["name"], exp, canon_readable(result).replace(root, "@R@"))]
    pc = result
    kind, _, arg = exp.partition(":")
    names = [x for x in arg.split(",") if x]
    if kind == "children":
        got = [rel(c.path) for c in pc.children]
        if got != names:
            msgs.append("directed case %s: children are %r, expected %r" % (case["name"], got, names))
    elif kind == "excludes":
        got = [rel(c.path) for c in pc.excludes]
        if got != names:
            msgs.append("directed case %s: excludes are %r, expected %r" % (case["name"], got, names))
    elif kind == "childenv":
        child = pc.children[0]
        if sorted(child.environ) != sorted(names):
            msgs.append("directed case %s: the included config has the variables %r, expected %r (command-line env and its own [env] only)" % (
                case["name"], sorted(child.environ), sorted(names)))
        for k, v in case["env"].items():
            if child.environ.get(k) != v.replace("@R@", root):
                msgs.append("directed case %s: included config: variable %s is %r, the command line gave %r" % (case["name"], k, child.environ.get(k), v))
    elif kind == "rules":
        if len(pc.rules) != int(arg):
            msgs.append("directed case %s: %d compiled rules, expected %s" % (case["name"], len(pc.rules), arg))
    elif kind == "all_locales":
        if list(pc.all_locales) != names:
            msgs.append("directed case %s: all_locales is %r, expected %r (own, per-path and included configs; not the excludes)" % (
                case["name"], list(pc.all_locales), names))
    elif kind == "deep":
        bad = [rel(c.path) for c in pc.configs if c.locales != names]
        exb = [rel(c.path) for c in pc.excludes if c.locales == names]
        if bad or exb:
            msgs.append("directed case %s: set_locales(deep=True) missed %r / touched the excludes %r" % (case["name"], bad, exb))
    elif kind == "same":
        if same != arg:
            msgs.append("directed case %s: ProjectConfig.same gives %s, expected %s" % (case["name"], same, arg))
    return msgs


def canon_readable(s):
    def tok(t):
        if t.startswith("t:") and t != "t:" and all(x.isdigit() for x in t[2:].split(",")):
            return "".join(chr(int(x)) for x in t[2:].split(","))
        return {"t:": '""'}.get(t, t)
    return " ".join(tok(t) for t in s.split(" "))

"""Adapters for C18: operations executed one after another in ONE interpreter, on the process-wide
parser singletons (`compare_locales.parser.getParser`), exactly as the command line tools use them.

run_ops(base, ops) -> one result dict per operation
  canon : canonical string of the operation's observable result (what the oracle compares between histories);
          the keys of Junk OBJECTS in parse listings are shown modulo the counter (`_junk_N_<s>-<e>`), reports are raw
  model : result in the wire form of lean/CLModel/Ops/C18.lean (only for the operations the Lean model covers)
  junk  : raw keys of the Junk objects seen by a parse listing
  jid   : [Junk.junkid before, Junk.junkid after]   (diagnostics and root-cause predicate only)
"""
import io
import json
import os
import re
import shutil
import sys
import tempfile
import warnings

warnings.filterwarnings("ignore")

from compare_locales import mozpath
from compare_locales import parser as P
from compare_locales.compare import ContentComparer, Observer, compareProjects
from compare_locales.lint.linter import L10nLinter
from compare_locales.parser.base import Comment, Entity, Junk, Whitespace
from compare_locales.parser.defines import DefinesInstruction
from compare_locales.parser.ini import IniSection
from compare_locales.paths import File, TOMLParser
from compare_locales.serializer import serialize

FNAME = {"properties": "a.properties", "dtd": "a.dtd", "ini": "a.ini", "inc": "a.inc", "po": "a.po",
         "ftl": "a.ftl", "android": "strings.xml"}
JUNK_RE = re.compile(r"^_junk_\d+_")
HELD = {}


def enc(s):
    return "t:" + ",".join(str(ord(c)) for c in s)


def kind_of(e):
    if isinstance(e, Junk):
        return "J"
    if isinstance(e, Entity):
        return "E"
    if isinstance(e, IniSection):
        return "S"
    if isinstance(e, DefinesInstruction):
        return "I"
    if isinstance(e, Whitespace):
        return "W"
    if isinstance(e, Comment):
        return "C"
    return "?" + type(e).__name__


def attr(f):
    try:
        v = f()
    except Exception as ex:     # noqa: an observation that raises is an observation
        return "!" + type(ex).__name__
    if isinstance(v, tuple):
        return list(v)
    return v


def observe(e, raw=False):
    """everything a tool can read off an entry object"""
    k = kind_of(e)
    key = attr(lambda: e.key)
    if k == "J" and isinstance(key, str) and not raw:
        key = JUNK_RE.sub("_junk_N_", key)
    rep = attr(lambda: repr(e))
    if k == "J" and isinstance(rep, str) and not raw:
        rep = JUNK_RE.sub("_junk_N_", rep)          # Junk.__repr__ is its key
    return [k, key, attr(lambda: e.raw_val), attr(lambda: e.val), attr(lambda: e.all),
            attr(lambda: e.span), attr(lambda: e.position()), attr(lambda: e.position(-1)),
            attr(lambda: e.value_position()) if k == "E" else None,
            attr(lambda: e.value_position(-1)) if k == "E" else None,
            attr(lambda: e.pre_comment.all if e.pre_comment is not None else None) if k == "E" else None,
            attr(lambda: e.count_words()) if k == "E" else None,
            rep, attr(lambda: [e.localized, e.unwrap()]) if k == "E" else None]


def model_entry(e, fmt):
    k = kind_of(e)
    if k == "J":
        return "J %s %d %d" % (enc(e.key), e.span[0], e.span[1])
    if k == "E":
        if fmt == "po":
            key = e.key[0] + "\x00" + (e.key[1] if e.key[1] is not None else "\x01")
        else:
            key = e.key
        return "E %s %s %d %d %d" % (enc(key), enc(e.raw_val), e._span_start(), e.span[0], e.span[1])
    return "%s %d %d" % (k, e.span[0], e.span[1])


def write(path, text):
    os.makedirs(os.path.dirname(path), exist_ok=True)
    with open(path, "w", encoding="utf-8", newline="") as f:
        f.write(text)


def read(path):
    try:
        with open(path, encoding="utf-8", newline="") as f:
            return f.read()
    except OSError:
        return None


def flatten(tree, prefix=""):
    """Observer details as {path: [items]}: the nesting of compare.utils.Tree depends on which other
    files are present, the union of single-file reports does not"""
    out = {}
    if isinstance(tree, list):
        out[prefix] = tree
        return out
    for k, v in tree.items():
        out.update(flatten(v, (prefix + "/" + k) if prefix else k))
    return out


def obs_json(observers):
    j = observers.toJSON()
    return {"details": flatten(j["details"]), "summary": j["summary"]}


def model_report(j, name, exc):
    """wire form of the report of one compare: details in order, then the summary without the word counts"""
    if exc:
        return "exc " + exc.split(":")[0]
    items = []
    for it in j["details"].get(name, []):
        (cat, data), = it.items()
        items.append("%s %s" % (cat, enc(data)))
    s = j["summary"].get("de", {})
    summ = " ".join("%s=%d" % (k, s.get(k, 0)) for k in (
        "errors", "warnings", "missing", "missing_w", "report", "obsolete", "changed", "changed_w",
        "unchanged", "unchanged_w", "keys"))
    return " ; ".join(["ok"] + items + [summ])


# ---------------------------------------------------------------- operations
def op_parse(base, op):
    fmt = op["fmt"]
    name = op.get("name") or FNAME[fmt]
    try:
        p = P.getParser(name)
    except UserWarning:
        return {"canon": json.dumps({"noparser": name}), "junk": []}
    if op.get("via") == "file":
        # Parser.readFile, as compare / lint / add use it
        d = tempfile.mkdtemp(dir=base)
        try:
            path = os.path.join(d, name)
            write(path, op["text"])
            p.readFile(path)
        finally:
            shutil.rmtree(d, ignore_errors=True)
    else:
        p.readUnicode(op["text"])
    ents = list(p.walk())
    loc = list(p.parse()) if op.get("keyed") else None
    res = {"canon": json.dumps([observe(e) for e in ents] + ([observe(e) for e in loc] if loc is not None else [])),
           "junk": [e.key for e in ents if isinstance(e, Junk)] + [e.key for e in (loc or []) if isinstance(e, Junk)]}
    if fmt in ("properties", "dtd", "ini", "inc", "po") and not op.get("keyed") and not op.get("name"):
        res["model"] = " | ".join(["done"] + [model_entry(e, fmt) for e in ents])
    return res


def op_hold(base, op):
    """parse with the shared parser, keep the entity objects alive under a handle"""
    fmt = op["fmt"]
    p = P.getParser(FNAME[fmt])
    p.readUnicode(op["text"])
    ents = list(p.walk()) if op.get("walk", True) else list(p.parse())
    HELD[op["id"]] = ents
    return {"canon": json.dumps([observe(e) for e in ents]), "raw": json.dumps([observe(e, True) for e in ents]),
            "junk": [e.key for e in ents if isinstance(e, Junk)]}


def op_reobs(base, op):
    """read the held objects again (after other files went through the same parser)"""
    ents = HELD[op["id"]]
    return {"canon": json.dumps([observe(e) for e in ents]), "raw": json.dumps([observe(e, True) for e in ents])}


def _compare(base, op, merge):
    fmt = op["fmt"]
    name = op.get("name") or FNAME[fmt]
    d = tempfile.mkdtemp(dir=base)
    try:
        refp = os.path.join(d, "ref", name)
        l10p = os.path.join(d, "l10n", name)
        mergep = os.path.join(d, "merge", name) if merge else None
        write(refp, op["ref"])
        write(l10p, op["l10n"])
        cc = ContentComparer()
        cc.observers.append(Observer())
        exc = None
        try:
            cc.compare(File(refp, name), File(l10p, name, locale="de"), mergep, op.get("extra"))
        except Exception as ex:       # noqa: a crash is part of the observable result
            exc = "%s: %s" % (type(ex).__name__, ex)
        j = obs_json(cc.observers)
        j0 = obs_json(cc.observers.observers[0])
        res = {"canon": json.dumps({"list": j, "obs": j0, "exc": exc, "error": cc.observers.error,
                                    "merged": read(mergep) if merge else None}, sort_keys=True)}
        if fmt in ("ini", "inc") and not op.get("extra") and not op.get("name"):
            res["model"] = model_report(j0, name, exc)
            if merge:
                merged = read(mergep)
                res["model"] += " ;; " + ("-" if exc else ("nofile" if merged is None else enc(merged)))
        return res
    finally:
        shutil.rmtree(d, ignore_errors=True)


def op_compare(base, op):
    return _compare(base, op, False)


def op_merge(base, op):
    return _compare(base, op, True)


def op_lint(base, op):
    fmt = op["fmt"]
    name = op.get("name") or FNAME[fmt]
    d = tempfile.mkdtemp(dir=base)
    try:
        curp = os.path.join(d, "cur", name)
        write(curp, op["cur"])
        refp = None
        if op.get("ref") is not None:
            refp = os.path.join(d, "ref", name)
            write(refp, op["ref"])
        exc = None
        out = []
        try:
            if op.get("name"):
                # the entry point of the lint command: files without a parser are skipped (parser.hasParser)
                it = L10nLinter().lint([curp], lambda path: (refp, op.get("extra")))
            else:
                it = L10nLinter().lint_file(curp, refp, op.get("extra"))
            for r in it:
                r = dict(r)
                r["path"] = os.path.basename(r["path"])
                out.append(r)
        except Exception as ex:       # noqa
            exc = "%s: %s" % (type(ex).__name__, ex)
        res = {"canon": json.dumps({"results": out, "exc": exc}, sort_keys=True)}
        if fmt in ("ini", "inc") and not op.get("name") and not op.get("extra"):
            res["model"] = lint_model(out, exc)
        return res
    finally:
        shutil.rmtree(d, ignore_errors=True)


def op_add(base, op):
    """ContentComparer.add: a file that is missing in the localization (counts the reference's strings)"""
    fmt = op["fmt"]
    name = op.get("name") or FNAME[fmt]
    d = tempfile.mkdtemp(dir=base)
    try:
        refp = os.path.join(d, "ref", name)
        l10p = os.path.join(d, "l10n", name)
        write(refp, op["ref"])
        cc = ContentComparer()
        cc.observers.append(Observer())
        exc = None
        try:
            cc.add(File(refp, name), File(l10p, name, locale="de"), None)
        except Exception as ex:       # noqa
            exc = "%s: %s" % (type(ex).__name__, ex)
        return {"canon": json.dumps({"obs": obs_json(cc.observers.observers[0]), "exc": exc}, sort_keys=True)}
    finally:
        shutil.rmtree(d, ignore_errors=True)


def op_hasparser(base, op):
    out = []
    for n in op["names"]:
        has = P.hasParser(n)
        cls = None
        if has:
            cls = type(P.getParser(n)).__name__
        out.append([n, has, cls])
    return {"canon": json.dumps(out)}


def op_serialize(base, op):
    fmt = op["fmt"]
    name = FNAME[fmt]
    p = P.getParser(name)
    exc = None
    out = None
    try:
        p.readUnicode(op["ref"])
        ref = list(p.walk())
        p.readUnicode(op["old"])
        old = list(p.walk())
        out = serialize(name, ref, old, dict(op["new"])).decode("utf-8", "replace")
    except Exception as ex:           # noqa
        exc = "%s: %s" % (type(ex).__name__, ex)
    res = {"canon": json.dumps({"out": out, "exc": exc}, sort_keys=True)}
    if fmt in MODEL_FMT:
        res["model"] = ("ok " + enc(out)) if exc is None else ("exc " + exc.split(":")[0])
    return res


def op_mozmatch(base, op):
    return {"canon": json.dumps([mozpath.match(p, op["pattern"]) for p in op["paths"]])}


TOML = """basepath = "."
locales = %s
[[paths]]
  reference = "en/**"
  l10n = "{l10n_base}/{locale}/**"
%s"""


def op_project(base, op):
    """compareProjects over a small project: files = {relpath: [ref or None, {locale: text}]}"""
    d = tempfile.mkdtemp(dir=base)
    try:
        locales = op["locales"]
        filters = "".join('[[filters]]\n  path = "{l10n_base}/{locale}/%s"\n  key = "%s"\n  action = "%s"\n' % tuple(f)
                          for f in op.get("filters", []))
        write(os.path.join(d, "l10n.toml"), TOML % (json.dumps(op.get("all_locales", locales)), filters))
        for rel, (ref, loc) in op["files"].items():
            if ref is not None:
                write(os.path.join(d, "en", rel), ref)
            for l, text in loc.items():
                if l in locales:
                    write(os.path.join(d, "l", l, rel), text)
        exc = None
        j = None
        try:
            if op.get("modules"):
                # l10n.ini style: some path entries carry a legacy `module`, the rest is a plain catch-all entry
                from compare_locales.paths import ProjectConfig
                cfg = ProjectConfig(os.path.join(d, "l10n.toml"))
                cfg.set_root(".")
                cfg.add_environment(l10n_base=os.path.join(d, "l"))
                # ProjectFiles consults the path entries last first: the plain catch-all goes in first
                cfg.add_paths({"l10n": "{l10n_base}/{locale}/**", "reference": "en/**"})
                for m in op["modules"]:
                    cfg.add_paths({"l10n": "{l10n_base}/{locale}/%s/**" % m, "reference": "en/%s/**" % m, "module": m})
                for f in op.get("filters", []):
                    cfg.add_rules({"path": "{l10n_base}/{locale}/%s" % f[0], "key": f[1], "action": f[2]})
                cfg.set_locales(op.get("all_locales", locales), deep=True)
            else:
                cfg = TOMLParser().parse(os.path.join(d, "l10n.toml"), env={"l10n_base": os.path.join(d, "l")})
            cfg.set_locales(locales, deep=True)
            merge = os.path.join(d, "merge", "{ab_CD}") if False else None
            obs = compareProjects([cfg], locales, os.path.join(d, "l"), merge_stage=merge)
            j = {"list": obs_json(obs), "obs": [obs_json(o) for o in obs]}
        except Exception as ex:       # noqa
            exc = "%s: %s" % (type(ex).__name__, ex)
        return {"canon": json.dumps({"report": j, "exc": exc}, sort_keys=True)}
    finally:
        shutil.rmtree(d, ignore_errors=True)


class RecObserver(Observer):
    """an Observer that also records what it is told, in the event form of lean/CLModel/Ops/C10.lean (`obs`)"""

    def __init__(self, *a, **kw):
        super().__init__(*a, **kw)
        self.events = []

    def notify(self, category, file, data):
        from impl.observer import CAT_CODE
        d = list(data) if isinstance(data, tuple) else data
        self.events.append(["n", CAT_CODE.get(category, "x"), [file.file, file.module, file.locale], d])
        return super().notify(category, file, data)

    def updateStats(self, file, stats):
        from impl.observer import STATKEYS
        self.events.append(["s", [file.file, file.module, file.locale], [[STATKEYS.index(k), v] for k, v in stats.items()]])
        return super().updateStats(file, stats)


def op_files(base, op):
    """one ContentComparer (+ one Observer) over several file pairs, in the given order"""
    d = tempfile.mkdtemp(dir=base)
    try:
        cc = ContentComparer()
        cc.observers.append(RecObserver())
        exc = None
        for i in op["order"]:
            rel, ref, l10n = op["files"][i]
            refp = os.path.join(d, "ref", rel)
            l10p = os.path.join(d, "l10n", rel)
            write(refp, ref)
            write(l10p, l10n)
            try:
                cc.compare(File(refp, rel), File(l10p, rel, locale="de"), None, None)
            except Exception as ex:   # noqa
                exc = "%s: %s" % (type(ex).__name__, ex)
        return {"canon": json.dumps({"obs": obs_json(cc.observers.observers[0]), "exc": exc}, sort_keys=True)}
    finally:
        shutil.rmtree(d, ignore_errors=True)




# ---------------------------------------------------------------- self-contained object histories (oracle)
def _res(f):
    try:
        v = f()
    except RecursionError as ex:
        return "E:" + type(ex).__name__
    except Exception as ex:       # noqa
        return "E:%s" % type(ex).__name__
    return v


def op_matcherq(base, op):
    """ONE Matcher object through several calls; after every call the same call on a Matcher built afresh (same
    pattern, environment, with_env layers): `stale` = first step whose answers differ"""
    from compare_locales.paths.matcher import Matcher

    def build(layers):
        m = Matcher(op["pattern"], dict(op.get("env") or []), root=op.get("root"))
        for w in layers:
            m = m.with_env(dict(w))
        return m

    def do(m, st):
        if st[0] == "match":
            return _res(lambda: m.match(st[1]))
        if st[0] == "sub":
            return _res(lambda: m.sub(Matcher(st[1], dict(st[2])), st[3]))
        if st[0] == "prefix":
            return _res(lambda: m.prefix)
        raise ValueError(st[0])
    layers, res, stale = [], [], None
    m = _res(lambda: build([]))
    if isinstance(m, str):
        return {"canon": json.dumps({"build": m})}
    for st in op["steps"]:
        if st[0] == "with":
            layers.append(st[1])
            m = m.with_env(dict(st[1]))
            res.append("with")
            continue
        a, b = do(m, st), do(build(layers), st)
        res.append(a)
        if a != b and stale is None:
            stale = {"step": st, "used": a, "fresh": b}
    return {"canon": json.dumps(res, sort_keys=True), "stale": stale}


def _filter_py(name):
    if name == "raise":
        def f(mod, path, entity=None):
            raise RuntimeError("boom")
    elif name == "report":
        def f(mod, path, entity=None):
            return "report" if entity else True
    else:
        def f(mod, path, entity=None):
            return False if path.endswith("b") or entity == "b" else "error"
    return f


def _build_cfg(spec, path="/proj/l10n.toml"):
    from compare_locales.paths import ProjectConfig
    cfg = ProjectConfig(path)
    if spec.get("root") is not None:
        cfg.set_root(spec["root"])
    cfg.add_environment(**dict(spec.get("env") or []))
    cfg.add_paths(*_paths(spec.get("paths") or []))
    if spec.get("filter_py"):
        cfg.set_filter_py(_filter_py(spec["filter_py"]))
    else:
        cfg.add_rules(*_rules(spec.get("rules") or []))
    cfg.set_locales(spec.get("locales"))
    for i, ch in enumerate(spec.get("children") or []):
        cfg.add_child(_build_cfg(ch, "/proj/child%d.toml" % i))
    for i, ex in enumerate(spec.get("excludes") or []):
        cfg.exclude(_build_cfg(ex, "/proj/ex%d.toml" % i))
    return cfg


def op_cfgq(base, op):
    """ONE ProjectConfig through several queries (filter / all_locales), set_locales in between; after every query the
    same query on a configuration built afresh (constructor + the set_locales so far): `stale` = first difference"""
    spec = op["spec"]
    muts = []

    def apply(c, m):
        if m[0] == "set_locales":
            c.set_locales(m[1], deep=m[2])
        else:
            c.add_paths(*_paths(m[1]))

    def fresh():
        c = _build_cfg(spec)
        for m in muts:
            apply(c, m)
        return c

    def do(c, st):
        if st[0] == "filter":
            return _res(lambda: c.filter(File(st[1], st[1].rsplit("/", 1)[-1], locale=st[2]), st[3]))
        if st[0] == "all_locales":
            return _res(lambda: list(c.all_locales))
        raise ValueError(st[0])
    cfg = _res(lambda: _build_cfg(spec))
    if isinstance(cfg, str):
        return {"canon": json.dumps({"build": cfg})}
    res, stale = [], None
    for st in op["steps"]:
        if st[0] in ("set_locales", "add_paths"):
            muts.append(st)
            apply(cfg, st)
            res.append("set")
            continue
        if st[0] == "same":
            from compare_locales.paths import ProjectConfig
            other_env = _build_cfg(dict(spec, env=[["zz", "y"]]))
            fewer = _build_cfg(dict(spec, children=[]))
            other_child = _build_cfg(dict(spec, children=[dict(c, root="elsewhere") for c in spec.get("children") or []]))
            rootless = ProjectConfig(None)
            rootless.set_root("x")
            with_ex = _build_cfg({"locales": ["de"], "env": [], "root": None, "paths": [], "rules": [],
                                  "excludes": [{"locales": ["de"], "env": [], "root": None, "paths": [], "rules": []}]})
            res.append([cfg.same(fresh()), cfg.same(object()), cfg.same(other_env), cfg.same(fewer), cfg.same(other_child),
                        rootless.root, _res(lambda: fresh().add_child(with_ex)), _res(lambda: fresh().exclude(with_ex)),
                        [type(c).__name__ for c in cfg.configs]])
            continue
        a, b = do(cfg, st), do(fresh(), st)
        res.append(a)
        if a != b and stale is None:
            stale = {"step": st, "used": a, "fresh": b}
    return {"canon": json.dumps(res, sort_keys=True), "stale": stale}


def op_mozfn(base, op):
    """the cache-free helpers of mozpath (pure functions of their arguments)"""
    ps, bs = op["paths"], op["bases"]
    out = []
    for p in ps:
        out.append([p, _res(lambda: mozpath.normsep(p)), _res(lambda: mozpath.normpath(p)), _res(lambda: mozpath.dirname(p)),
                    _res(lambda: mozpath.basename(p)), _res(lambda: list(mozpath.splitext(p))), _res(lambda: mozpath.split(p)),
                    _res(lambda: mozpath.basedir(p, bs)), _res(lambda: mozpath.join("/x", p)),
                    _res(lambda: mozpath.relpath("/x/" + p, "/x")), _res(lambda: mozpath.abspath("/x/" + p)),
                    _res(lambda: mozpath.realpath("/nonexistent-c18/" + p))])
    out.append(_res(lambda: mozpath.commonprefix(ps)))
    out.append([_res(lambda: mozpath.rebase("foo", "foo/bar", "bar/baz")), _res(lambda: mozpath.rebase("foo/bar", "foo", "baz")),
                _res(lambda: mozpath.rebase("foo", "foo", "x/")), _res(lambda: mozpath.rebase("a", "a/b", "b/c/"))])
    return {"canon": json.dumps(out, sort_keys=True)}


# ---------------------------------------------------------------- round 4: the whole state machine (HistM)
MODEL_FMT = ("properties", "dtd", "ini", "inc", "po")
OBJ = {"m": {}, "c": {}, "d": {}}
PLUGIN_SRC = """
import re
from compare_locales.parser.properties import PropertiesParser


class PluginParser(PropertiesParser):
    def use(self, path):
        return re.search(r"c18.*\\.c18x$", path) is not None
"""


def op_env(base, op):
    """what `iter_entry_points("compare_locales.parsers")` will find in THIS process (must be the first operation):
    ep = "none" (nothing registered), "plugin" (a distribution registering c18plugin:PluginParser for *.c18x),
    "nopkg" (`import pkg_resources` raises ImportError)"""
    ep = op.get("ep", "none")
    if ep == "nopkg":
        sys.modules["pkg_resources"] = None
    elif ep == "plugin":
        d = tempfile.mkdtemp(dir=base)
        with open(os.path.join(d, "c18plugin.py"), "w") as f:
            f.write(PLUGIN_SRC)
        di = os.path.join(d, "c18plugin-0.1.dist-info")
        os.makedirs(di)
        with open(os.path.join(di, "METADATA"), "w") as f:
            f.write("Metadata-Version: 2.1\nName: c18plugin\nVersion: 0.1\n")
        with open(os.path.join(di, "entry_points.txt"), "w") as f:
            f.write("[compare_locales.parsers]\nc18x = c18plugin:PluginParser\n")
        sys.path.insert(0, d)
        if sys.modules.get("pkg_resources") is not None:
            sys.modules["pkg_resources"].working_set.add_entry(d)
    return {"canon": json.dumps({"ep": ep})}


def exc_name(e):
    return "E:" + type(e).__name__


def shared_parser(p):
    return any(p is item[1] for item in getattr(P, "__constructors"))


def op_getparser(base, op):
    """getParser(path) itself: class of the parser, and whether it is one of the shared instances"""
    try:
        p = P.getParser(op["path"])
    except UserWarning:
        return {"canon": json.dumps(None), "model": "none"}
    cls = type(p).__name__
    sh = shared_parser(p)
    res = {"canon": json.dumps([cls, sh, P.hasParser(op["path"])])}
    res["model"] = "%s %s" % (enc(cls), "shared" if sh else "new")
    return res


def op_read(base, op):
    """p.readUnicode(text) alone on the shared parser (what readFile / readContents end in)"""
    fmt = op["fmt"]
    P.getParser(FNAME[fmt]).readUnicode(op["text"])
    res = {"canon": "ok"}
    if fmt in MODEL_FMT:
        res["model"] = "ok"
    return res


def op_walk2(base, op):
    """several passes over ONE Context of the shared parser: list(p.walk()), then list(p) (= p.parse(), the
    localizable entries), then list(p.walk()) again — every pass must see what the first one saw (junk keys modulo
    the counter); `stale` = the first pass that does not"""
    fmt = op["fmt"]
    p = P.getParser(op.get("name") or FNAME[fmt])
    p.readUnicode(op["text"])
    first = [observe(e) for e in p.walk()]
    loc = [observe(e) for e in p]
    again = [observe(e) for e in p.walk()]
    stale = None
    if again != first:
        stale = {"pass": "second walk() of the same Context", "first": first, "second": again}
    elif loc != [x for x in first if x[0] in ("E", "J")]:
        stale = {"pass": "iteration (parse()) after walk() on the same Context", "first": [x for x in first if x[0] in ("E", "J")],
                 "second": loc}
    return {"canon": json.dumps([first, loc, again]), "stale": stale}


def op_rewalk(base, op):
    """list(p.walk()) once more on whatever Context the shared parser currently holds"""
    fmt = op["fmt"]
    p = P.getParser(FNAME[fmt])
    ents = list(p.walk())
    res = {"canon": json.dumps([observe(e) for e in ents]), "junk": [e.key for e in ents if isinstance(e, Junk)]}
    if fmt in MODEL_FMT:
        res["model"] = " | ".join(["done"] + [model_entry(e, fmt) for e in ents])
    return res


def lint_model(out, exc):
    if exc:
        return "exc " + exc.split(":")[0]
    return " ; ".join(["ok"] + ["%s %d %d %s" % (r["level"], r["lineno"], r["column"], enc(r["message"])) for r in out])


def op_chan(base, op):
    """merge_channels(name, [bytes, ...]) — newest first"""
    from compare_locales.merge import merge_channels
    name = op.get("name") or FNAME[op["fmt"]]
    try:
        out = merge_channels(name, [t.encode("utf-8") for t in op["texts"]]).decode("utf-8", "replace")
        exc = None
    except Exception as ex:       # noqa
        out, exc = None, "%s: %s" % (type(ex).__name__, ex)
    res = {"canon": json.dumps({"out": out, "exc": exc}, sort_keys=True)}
    res["model"] = ("ok " + enc(out)) if exc is None else ("exc " + exc.split(":")[0])
    return res


def op_moz(base, op):
    try:
        v = "1" if mozpath.match(op["path"], op["pattern"]) else "0"
    except Exception as ex:       # noqa
        v = exc_name(ex)
    return {"canon": v, "model": v}


def _unit(f):
    try:
        f()
        return "ok"
    except RecursionError as ex:
        return exc_name(ex)
    except Exception as ex:       # noqa
        return exc_name(ex)


def _root(root):
    return root


def op_mnew(base, op):
    from compare_locales.paths.matcher import Matcher

    def mk():
        OBJ["m"][op["id"]] = Matcher(op["pattern"], dict(op.get("env") or []), root=op.get("root"))
    v = _unit(mk)
    return {"canon": v, "model": v}


def op_mwith(base, op):
    def mk():
        OBJ["m"][op["new"]] = OBJ["m"][op["id"]].with_env(dict(op.get("env") or []))
    if op["id"] not in OBJ["m"]:
        return {"canon": "no-object", "model": "no-object"}
    v = _unit(mk)
    return {"canon": v, "model": v}


def _dict_canon(d):
    return "{" + ",".join(enc(k) + "=" + ("None" if v is None else enc(v)) for k, v in d.items()) + "}"


def op_mmatch(base, op):
    if op["id"] not in OBJ["m"]:
        return {"canon": "no-object", "model": "no-object"}
    try:
        d = OBJ["m"][op["id"]].match(op["path"])
        v = "None" if d is None else _dict_canon(d)
    except Exception as ex:       # noqa
        v = exc_name(ex)
    return {"canon": v, "model": v}


def op_msub(base, op):
    if op["id"] not in OBJ["m"] or op["other"] not in OBJ["m"]:
        return {"canon": "no-object", "model": "no-object"}
    try:
        r = OBJ["m"][op["id"]].sub(OBJ["m"][op["other"]], op["path"])
        v = "None" if r is None else enc(r)
    except Exception as ex:       # noqa
        v = exc_name(ex)
    return {"canon": v, "model": v}


def _paths(paths):
    out = []
    for pat, locs in paths:
        d = {"l10n": pat}
        if locs is not None:
            d["locales"] = list(locs)
        if pat.endswith(".ini"):
            d["test"] = ["android-dtd"]         # extra tests of a path entry play no role in `filter`
        out.append(d)
    return out


def _rules(rules):
    """raw rule dictionaries as the TOML parser hands them to add_rules: path str | list, key absent | str | list"""
    out = []
    for r in rules:
        d = {"path": r["path"] if isinstance(r["path"], str) else list(r["path"]), "action": r["action"]}
        if r.get("key") is not None:
            d["key"] = r["key"] if isinstance(r["key"], str) else list(r["key"])
        out.append(d)
    return out


def op_cnew(base, op):
    from compare_locales.paths import ProjectConfig

    def mk():
        cfg = ProjectConfig("/proj/l10n.toml")
        if op.get("root") is not None:
            cfg.set_root(op["root"])
        cfg.add_environment(**dict(op.get("env") or []))
        cfg.add_paths(*_paths(op.get("paths") or []))
        cfg.add_rules(*_rules(op.get("rules") or []))
        cfg.set_locales(op.get("locales"))
        OBJ["c"][op["id"]] = cfg
    v = _unit(mk)
    return {"canon": v, "model": v}


def _cfg(op, f):
    if op["id"] not in OBJ["c"]:
        return {"canon": "no-object", "model": "no-object"}
    v = f(OBJ["c"][op["id"]])
    return {"canon": v, "model": v}


def op_csetloc(base, op):
    return _cfg(op, lambda c: _unit(lambda: c.set_locales(op.get("locales"))))


def op_caddrules(base, op):
    return _cfg(op, lambda c: _unit(lambda: c.add_rules(*_rules(op["rules"]))))


def op_caddpaths(base, op):
    return _cfg(op, lambda c: _unit(lambda: c.add_paths(*_paths(op["paths"]))))


def op_cfilter(base, op):
    def f(c):
        try:
            a = c.filter(File(op["fullpath"], op["fullpath"].rsplit("/", 1)[-1], locale=op["locale"]), op.get("key"))
            return {"error": "e", "warning": "w", "ignore": "i"}.get(a, "?" + repr(a))
        except Exception as ex:       # noqa
            return exc_name(ex)
    return _cfg(op, f)


def op_calllocales(base, op):
    return _cfg(op, lambda c: ",".join(enc(l) for l in c.all_locales))


class _Val:
    """what DTDChecker.known_entities reads from a reference entity"""
    def __init__(self, raw_val):
        self.raw_val = raw_val


def op_dnew(base, op):
    from compare_locales.checks.dtd import DTDChecker
    ck = DTDChecker(["android-dtd"] if op.get("android") else None, locale="de")
    if op.get("reference") is not None:
        ck.set_reference({i: _Val(v) for i, v in enumerate(op["reference"])})
    OBJ["d"][op["id"]] = ck
    return {"canon": "ok", "model": "ok"}


def op_dknown(base, op):
    if op["id"] not in OBJ["d"]:
        return {"canon": "no-object", "model": "no-object"}
    v = ",".join(enc(n) for n in sorted(OBJ["d"][op["id"]].known_entities(op["value"])))
    return {"canon": v, "model": v}


def op_dtext(base, op):
    """DTDChecker.check(ref, l10n) on `<!ENTITY k "text">` entities with plain-text values; what the class-level text
    handler holds afterwards is what processAndroidContent has been called with (android) / untouched (otherwise)"""
    from compare_locales.checks.dtd import DTDChecker
    from compare_locales.parser import DTDParser
    if op["id"] not in OBJ["d"]:
        return {"canon": "no-object", "model": "no-object"}
    ck = OBJ["d"][op["id"]]
    before = Junk.junkid
    p = DTDParser()
    p.readUnicode('<!ENTITY k "%s">' % op["ref"])
    r = p.parse()[0]
    p2 = DTDParser()
    p2.readUnicode('<!ENTITY k "%s">' % op["text"])
    l = p2.parse()[0]
    assert Junk.junkid == before
    seen = []
    orig = ck.processAndroidContent

    def spy(val):
        seen.append(val)
        return orig(val)
    ck.processAndroidContent = spy
    try:
        results = [[tp, list(pos) if isinstance(pos, tuple) else int(pos), msg, cat] for tp, pos, msg, cat in ck.check(r, l)]
        exc = None
    except Exception as ex:       # noqa
        results, exc = None, "%s: %s" % (type(ex).__name__, ex)
    finally:
        del ck.processAndroidContent
    v = enc(seen[0]) if seen else "-"
    return {"canon": json.dumps({"results": results, "exc": exc, "android_text": seen}), "model": v}


def op_junkkey(base, op):
    """the key the real `Junk.__init__` builds for counter value n and span (a, b)"""
    from compare_locales.parser.base import Parser
    keys = []
    saved = Junk.junkid
    try:
        for n, a, b in op["cases"]:
            Junk.junkid = n - 1
            keys.append(Junk(Parser.Context(""), (a, b)).key)
    finally:
        Junk.junkid = saved
    return {"canon": json.dumps(keys), "keys": keys}


def state_digest():
    """the real state components, in the form of lean/CLModel/Ops/C18.lean: showState"""
    from compare_locales.checks.dtd import DTDChecker
    incp = P.getParser("a.inc")
    flag = lambda b: "1" if b else "0"

    def fc(c):
        if c._cache is None:
            return "-"
        return "%s:%s:%s" % (enc(c._cache.locale), "".join(flag(p._cached_re is not None) for p in c._cache.l10n_paths),
                             "".join(flag(r["path"]._cached_re is not None) for r in c._cache.rules))
    return "j=%d f=%s r=%s m=%s c=%s k=%s t=%s" % (
        Junk.junkid, flag(incp.ctx is not None and incp.ctx.filter_empty_lines),
        ";".join(enc(k) for k in mozpath.re_cache),
        ",".join("%d:%s" % (i, flag(m._cached_re is not None)) for i, m in OBJ["m"].items()),
        ",".join("%d:%s:%s" % (i, flag(c._all_locales is not None), fc(c)) for i, c in OBJ["c"].items()),
        ",".join("%d:%s" % (i, flag(getattr(d, "_DTDChecker__known_entities") is not None)) for i, d in OBJ["d"].items()),
        enc(DTDChecker.texthandler.textcontent))


# ---------------------------------------------------------------- round 5: FILE IDENTITY — a world of paths
# One directory per history (`wenv`); file-system operations (`wfs`, plain os calls of the harness: a working copy
# that is updated, a temp file that is reused) interleaved with operations of compare-locales on PATHS of that
# directory.  Every compare-locales operation returns the snapshot of the directory it met (`world`): the oracle
# re-runs the operation in a fresh interpreter on a copy of exactly those files.
WORLD = {"root": None, "cc": None, "linter": None}


def _abs(rel):
    # no normalisation: "ref/./a.ini", "ref/sub/../a.ini", "ref//a.ini" are passed on as they are
    return WORLD["root"] + "/" + rel


def w_snapshot():
    """every file and symbolic link under the root: [rel, "f", text] | [rel, "l", target relative to the root]"""
    root = WORLD["root"]
    out = []
    for d, dirs, files in os.walk(root):
        for f in files + [x for x in dirs if os.path.islink(os.path.join(d, x))]:
            pth = os.path.join(d, f)
            rel = os.path.relpath(pth, root).replace(os.sep, "/")
            if os.path.islink(pth):
                t = os.readlink(pth)
                out.append([rel, "l", os.path.relpath(t, root).replace(os.sep, "/") if os.path.isabs(t) else t])
            else:
                with open(pth, "rb") as fh:
                    out.append([rel, "f", fh.read().decode("utf-8", "replace")])
    out.sort()
    return out


def w_unroot(text):
    root = WORLD["root"]
    text = text.replace(root, "<ROOT>")
    real = os.path.realpath(root)
    if real != root:
        text = text.replace(real, "<ROOT>")
    return text


def w_canon(obj):
    return w_unroot(json.dumps(obj, sort_keys=True))


def w_digest():
    parts = []
    for rel, kind, data in w_snapshot():
        parts.append(enc(rel) + ("=" if kind == "f" else ">") + enc(data))
    incp = P.getParser("a.inc")
    return "j=%d f=%s w=%s" % (Junk.junkid, "1" if (incp.ctx is not None and incp.ctx.filter_empty_lines) else "0",
                               ";".join(parts))


def _rm(path):
    if os.path.lexists(path):
        os.remove(path)
        return True
    return False


def op_wenv(base, op):
    root = os.path.join(base, op["root"])
    shutil.rmtree(root, ignore_errors=True)
    os.makedirs(root)
    WORLD["root"] = root
    WORLD["cc"] = WORLD["linter"] = None
    return {"canon": "ok"}


def op_wrestore(base, op):
    """the files of a snapshot, in the (empty) root of this process"""
    for rel, kind, data in op["world"]:
        pth = _abs(rel)
        os.makedirs(os.path.dirname(pth), exist_ok=True)
        if kind == "l":
            os.symlink(_abs(data), pth)
        else:
            with open(pth, "wb") as f:
                f.write(data.encode("utf-8"))
    return {"canon": "ok"}


def _oserr(e):
    import errno
    return {errno.ENOENT: "enoent", errno.ELOOP: "eloop"}.get(e.errno, "oserror-%s" % e.errno)


def op_wfs(base, op):
    """file-system actions of the harness (never through compare-locales):
    ["write", rel, text, {"keep_mtime": bool}] unlink + create; ["remove", rel]; ["rename", a, b] (os.replace);
    ["copy", a, b] contents of a (through links) into a NEW file b; ["symlink", rel, target]"""
    res = []
    for act in op["do"]:
        k = act[0]
        try:
            if k == "write":
                pth = _abs(act[1])
                opts = act[3] if len(act) > 3 else {}
                old = os.stat(pth) if (opts.get("keep_mtime") and os.path.isfile(pth)) else None
                _rm(pth)
                os.makedirs(os.path.dirname(pth), exist_ok=True)
                with open(pth, "wb") as f:
                    f.write(act[2].encode("utf-8"))
                if old is not None:
                    os.utime(pth, ns=(old.st_atime_ns, old.st_mtime_ns))
                res.append("ok")
            elif k == "remove":
                res.append("ok" if _rm(_abs(act[1])) else "enoent")
            elif k == "rename":
                a, b = _abs(act[1]), _abs(act[2])
                if not os.path.lexists(a):
                    res.append("enoent")
                else:
                    os.makedirs(os.path.dirname(b), exist_ok=True)
                    os.replace(a, b)
                    res.append("ok")
            elif k == "copy":
                with open(_abs(act[1]), "rb") as f:
                    data = f.read()
                b = _abs(act[2])
                _rm(b)
                os.makedirs(os.path.dirname(b), exist_ok=True)
                with open(b, "wb") as f:
                    f.write(data)
                res.append("ok")
            elif k == "symlink":
                pth = _abs(act[1])
                _rm(pth)
                os.makedirs(os.path.dirname(pth), exist_ok=True)
                os.symlink(_abs(act[2]), pth)
                res.append("ok")
            else:
                raise ValueError(k)
        except OSError as e:
            res.append(_oserr(e))
    r = {"canon": json.dumps(res)}
    if len(res) == 1:
        r["model"] = res[0]
        r["state"] = w_digest()
    return r


def _changed(pre, post):
    a = {x[0]: x for x in pre}
    b = {x[0]: x for x in post}
    return [b[k] for k in sorted(b) if a.get(k) != b[k]] + [[k, "gone", ""] for k in sorted(a) if k not in b]


def _wobs(o):
    j = obs_json(o)
    j["summary"] = {("null" if k is None else k): v for k, v in j["summary"].items()}
    return j


def _wcc(op):
    from compare_locales.compare.observer import ObserverList
    if op.get("cc") == "shared":
        # ONE ContentComparer for the whole history (as compareProjects keeps one for all files), a new report each time
        if WORLD["cc"] is None:
            WORLD["cc"] = ContentComparer()
        cc = WORLD["cc"]
        cc.observers = ObserverList(quiet=0)
    else:
        cc = ContentComparer()
    cc.observers.append(Observer())
    return cc


def _wname(op, rel):
    return op.get("name") or os.path.basename(rel)


def op_wcompare(base, op):
    pre = w_snapshot()
    name = _wname(op, op["ref"])
    refp, l10p = _abs(op["ref"]), _abs(op["l10n"])
    mergep = _abs(op["merge"]) if op.get("merge") else None
    cc = _wcc(op)
    exc = None
    try:
        cc.compare(File(refp, name), File(l10p, name, locale="de"), mergep, op.get("extra"))
    except Exception as ex:       # noqa
        exc = "%s: %s" % (type(ex).__name__, ex)
    j0 = _wobs(cc.observers.observers[0])
    res = {"canon": w_canon({"list": _wobs(cc.observers), "obs": j0, "exc": exc, "error": cc.observers.error,
                             "changed": _changed(pre, w_snapshot())}), "world": pre}
    if op.get("fmt") in ("ini", "inc") and not op.get("extra") and not op.get("name"):
        j0 = json.loads(w_unroot(json.dumps(j0)))
        res["model"] = model_report(j0, name, w_unroot(exc) if exc else exc)
        if mergep:
            merged = read(mergep)
            res["model"] += " ;; " + ("-" if exc else ("nofile" if merged is None else enc(merged)))
        res["state"] = w_digest()
    return res


def op_wadd(base, op):
    pre = w_snapshot()
    name = _wname(op, op["ref"])
    refp = _abs(op["ref"])
    l10p = _abs(op.get("l10n") or "l10n-missing/" + name)
    mergep = _abs(op["merge"]) if op.get("merge") else None
    cc = _wcc(op)
    exc = None
    try:
        cc.add(File(refp, name), File(l10p, name, locale="de"), mergep)
    except Exception as ex:       # noqa
        exc = "%s: %s" % (type(ex).__name__, ex)
    j0 = _wobs(cc.observers.observers[0])
    res = {"canon": w_canon({"obs": j0, "exc": exc, "changed": _changed(pre, w_snapshot())}), "world": pre}
    if op.get("fmt") in ("ini", "inc") and not mergep and not op.get("name") and exc is None:
        j0 = json.loads(w_unroot(json.dumps(j0)))
        errs = [it["error"] for it in j0["details"].get(name, []) if "error" in it]
        if errs:
            res["model"] = "noread " + enc(errs[0])
        else:
            s = j0["summary"].get("de", {})
            res["model"] = "ok missing=%d missing_w=%d" % (s.get("missing", 0), s.get("missing_w", 0))
        res["state"] = w_digest()
    return res


def op_wlint(base, op):
    pre = w_snapshot()
    curp = _abs(op["cur"])
    refp = _abs(op["ref"]) if op.get("ref") else None
    if op.get("linter") == "shared":
        if WORLD["linter"] is None:
            WORLD["linter"] = L10nLinter()
        linter = WORLD["linter"]
    else:
        linter = L10nLinter()
    exc = None
    out = []
    try:
        for r in linter.lint_file(curp, refp, op.get("extra")):
            out.append(dict(r))
    except Exception as ex:       # noqa
        exc = "%s: %s" % (type(ex).__name__, ex)
    res = {"canon": w_canon({"results": out, "exc": exc, "changed": _changed(pre, w_snapshot())}), "world": pre}
    if op.get("fmt") in ("ini", "inc") and not op.get("extra"):
        res["model"] = lint_model(json.loads(w_unroot(json.dumps(out))), exc)
        res["state"] = w_digest()
    return res


def op_wread(base, op):
    """p = getParser(path); p.readFile(path); list(p.walk())"""
    pre = w_snapshot()
    pth = _abs(op["path"])
    try:
        p = P.getParser(pth)
    except UserWarning:
        return {"canon": json.dumps({"noparser": op["path"]}), "junk": [], "world": pre}
    try:
        p.readFile(pth)
    except OSError as e:
        r = {"canon": w_canon({"oserror": str(e)}), "junk": [], "world": pre}
        if op.get("fmt") in MODEL_FMT:
            r["model"] = "noread " + enc(w_unroot(str(e)))
            r["state"] = w_digest()
        return r
    ents = list(p.walk())
    res = {"canon": json.dumps([observe(e) for e in ents]), "junk": [e.key for e in ents if isinstance(e, Junk)], "world": pre}
    if op.get("fmt") in MODEL_FMT:
        res["model"] = " | ".join(["done"] + [model_entry(e, op["fmt"]) for e in ents])
        res["state"] = w_digest()
    return res


def op_wproject(base, op):
    """TOMLParser().parse(<root>/config) (includes are files of the world, too), the file list of every locale,
    compareProjects"""
    from compare_locales.paths import ProjectFiles
    pre = w_snapshot()
    exc = None
    j = None
    files = None
    try:
        cfg = TOMLParser().parse(_abs(op["config"]), env={"l10n_base": _abs(op["l10n_base"])},
                                 ignore_missing_includes=bool(op.get("ignore_missing")))
        files = {loc: [[a, b, c, sorted(d or [])] for a, b, c, d in ProjectFiles(loc, [cfg])] for loc in op["locales"]}
        merge = _abs(op["merge"]) if op.get("merge") else None
        obs = compareProjects([cfg], op["locales"], _abs(op["l10n_base"]), merge_stage=merge)
        j = {"list": _wobs(obs), "obs": [_wobs(o) for o in obs]}
    except Exception as ex:       # noqa
        exc = "%s: %s" % (type(ex).__name__, ex)
    return {"canon": w_canon({"report": j, "files": files, "exc": exc, "changed": _changed(pre, w_snapshot())}), "world": pre}


OPS = {"parse": op_parse, "hold": op_hold, "reobs": op_reobs, "compare": op_compare, "merge": op_merge,
       "lint": op_lint, "serialize": op_serialize, "add": op_add, "hasparser": op_hasparser, "mozmatch": op_mozmatch, "project": op_project,
       "files": op_files, "env": op_env, "getparser": op_getparser, "rewalk": op_rewalk, "chan": op_chan, "moz": op_moz,
       "mnew": op_mnew, "mwith": op_mwith, "mmatch": op_mmatch, "msub": op_msub, "cnew": op_cnew, "csetloc": op_csetloc,
       "caddrules": op_caddrules, "caddpaths": op_caddpaths, "cfilter": op_cfilter, "calllocales": op_calllocales,
       "dnew": op_dnew, "dknown": op_dknown, "dtext": op_dtext, "junkkey": op_junkkey,
       "matcherq": op_matcherq, "cfgq": op_cfgq, "mozfn": op_mozfn, "read": op_read, "walk2": op_walk2,
       "wenv": op_wenv, "wrestore": op_wrestore, "wfs": op_wfs, "wcompare": op_wcompare, "wadd": op_wadd,
       "wlint": op_wlint, "wread": op_wread, "wproject": op_wproject}


def run_ops(base, ops):
    out = []
    own = None
    if base is None or not os.path.isdir(base):
        own = base = tempfile.mkdtemp(prefix="verif-c18-")
    real_stdout = sys.stdout
    try:
        for op in ops:
            before = Junk.junkid
            sys.stdout = io.StringIO()      # ContentComparer.merge prints
            try:
                r = OPS[op["op"]](base, op)
            except Exception as ex:         # noqa: adapter-level failure, reported as such
                r = {"canon": "ADAPTER-EXC %s: %s" % (type(ex).__name__, ex)}
            finally:
                sys.stdout = real_stdout
            r["jid"] = [before, Junk.junkid]
            if "model" in r and "state" not in r:
                try:
                    r["state"] = w_digest() if WORLD["root"] else state_digest()
                except Exception as ex:     # noqa
                    r["state"] = "DIGEST-EXC %s: %s" % (type(ex).__name__, ex)
            out.append(r)
    finally:
        if own:
            shutil.rmtree(own, ignore_errors=True)
    return out

"""Adapters for C18: operations executed one after another in ONE interpreter, on the process-wide
parser singletons (`compare_locales.parser.getParser`), exactly as the command line tools use them.

run_ops(base, ops) -> one result dict per operation
  canon : canonical string of the operation's observable result (what the oracle compares between histories);
          the keys of Junk OBJECTS in parse listings are shown modulo the counter (`_junk_N_<s>-<e>`), reports are raw
  model : result in the wire form of lean/CLModel/Ops/C18.lean (only for the operations the Lean model covers)
  junk  : raw keys of the Junk objects seen by a parse listing
  jid   : [Junk.junkid before, Junk.junkid after]   (diagnostics and root-cause predicate only)
"""
import io
import json
import os
import re
import shutil
import sys
import tempfile
import warnings

warnings.filterwarnings("ignore")

from compare_locales import mozpath
from compare_locales import parser as P
from compare_locales.compare import ContentComparer, Observer, compareProjects
from compare_locales.lint.linter import L10nLinter
from compare_locales.parser.base import Comment, Entity, Junk, Whitespace
from compare_locales.parser.defines import DefinesInstruction
from compare_locales.parser.ini import IniSection
from compare_locales.paths import File, TOMLParser
from compare_locales.serializer import serialize

FNAME = {"properties": "a.properties", "dtd": "a.dtd", "ini": "a.ini", "inc": "a.inc", "po": "a.po",
         "ftl": "a.ftl", "android": "strings.xml"}
JUNK_RE = re.compile(r"^_junk_\d+_")
HELD = {}


def enc(s):
    return "t:" + ",".join(str(ord(c)) for c in s)


def kind_of(e):
    if isinstance(e, Junk):
        return "J"
    if isinstance(e, Entity):
        return "E"
    if isinstance(e, IniSection):
        return "S"
    if isinstance(e, DefinesInstruction):
        return "I"
    if isinstance(e, Whitespace):
        return "W"
    if isinstance(e, Comment):
        return "C"
    return "?" + type(e).__name__


def attr(f):
    try:
        v = f()
    except Exception as ex:     # noqa: an observation that raises is an observation
        return "!" + type(ex).__name__
    if isinstance(v, tuple):
        return list(v)
    return v


def observe(e, raw=False):
    """everything a tool can read off an entry object"""
    k = kind_of(e)
    key = attr(lambda: e.key)
    if k == "J" and isinstance(key, str) and not raw:
        key = JUNK_RE.sub("_junk_N_", key)
    return [k, key, attr(lambda: e.raw_val), attr(lambda: e.val), attr(lambda: e.all),
            attr(lambda: e.span), attr(lambda: e.position()), attr(lambda: e.position(-1)),
            attr(lambda: e.value_position()) if k == "E" else None,
            attr(lambda: e.pre_comment.all if e.pre_comment is not None else None) if k == "E" else None,
            attr(lambda: e.count_words()) if k == "E" else None]


def model_entry(e, fmt):
    k = kind_of(e)
    if k == "J":
        return "J %s %d %d" % (enc(e.key), e.span[0], e.span[1])
    if k == "E":
        if fmt == "po":
            key = e.key[0] + "\x00" + (e.key[1] if e.key[1] is not None else "\x01")
        else:
            key = e.key
        return "E %s %s %d %d %d" % (enc(key), enc(e.raw_val), e._span_start(), e.span[0], e.span[1])
    return "%s %d %d" % (k, e.span[0], e.span[1])


def write(path, text):
    os.makedirs(os.path.dirname(path), exist_ok=True)
    with open(path, "w", encoding="utf-8", newline="") as f:
        f.write(text)


def read(path):
    try:
        with open(path, encoding="utf-8", newline="") as f:
            return f.read()
    except OSError:
        return None


def flatten(tree, prefix=""):
    """Observer details as {path: [items]}: the nesting of compare.utils.Tree depends on which other
    files are present, the union of single-file reports does not"""
    out = {}
    if isinstance(tree, list):
        out[prefix] = tree
        return out
    for k, v in tree.items():
        out.update(flatten(v, (prefix + "/" + k) if prefix else k))
    return out


def obs_json(observers):
    j = observers.toJSON()
    return {"details": flatten(j["details"]), "summary": j["summary"]}


def model_report(j, name, exc):
    """wire form of the report of one compare: details in order, then the summary without the word counts"""
    if exc:
        return "exc " + exc.split(":")[0]
    items = []
    for it in j["details"].get(name, []):
        (cat, data), = it.items()
        items.append("%s %s" % (cat, enc(data)))
    s = j["summary"].get("de", {})
    summ = " ".join("%s=%d" % (k, s.get(k, 0)) for k in (
        "errors", "warnings", "missing", "missing_w", "report", "obsolete", "changed", "changed_w",
        "unchanged", "unchanged_w", "keys"))
    return " ; ".join(["ok"] + items + [summ])


# ---------------------------------------------------------------- operations
def op_parse(base, op):
    fmt = op["fmt"]
    name = op.get("name") or FNAME[fmt]
    try:
        p = P.getParser(name)
    except UserWarning:
        return {"canon": json.dumps({"noparser": name}), "junk": []}
    if op.get("via") == "file":
        # Parser.readFile, as compare / lint / add use it
        d = tempfile.mkdtemp(dir=base)
        try:
            path = os.path.join(d, name)
            write(path, op["text"])
            p.readFile(path)
        finally:
            shutil.rmtree(d, ignore_errors=True)
    else:
        p.readUnicode(op["text"])
    ents = list(p.walk())
    loc = list(p.parse()) if op.get("keyed") else None
    res = {"canon": json.dumps([observe(e) for e in ents] + ([observe(e) for e in loc] if loc is not None else [])),
           "junk": [e.key for e in ents if isinstance(e, Junk)] + [e.key for e in (loc or []) if isinstance(e, Junk)]}
    if fmt in ("properties", "dtd", "ini", "inc", "po") and not op.get("keyed") and not op.get("name"):
        res["model"] = " | ".join(["done"] + [model_entry(e, fmt) for e in ents])
    return res


def op_hold(base, op):
    """parse with the shared parser, keep the entity objects alive under a handle"""
    fmt = op["fmt"]
    p = P.getParser(FNAME[fmt])
    p.readUnicode(op["text"])
    ents = list(p.walk()) if op.get("walk", True) else list(p.parse())
    HELD[op["id"]] = ents
    return {"canon": json.dumps([observe(e) for e in ents]), "raw": json.dumps([observe(e, True) for e in ents]),
            "junk": [e.key for e in ents if isinstance(e, Junk)]}


def op_reobs(base, op):
    """read the held objects again (after other files went through the same parser)"""
    ents = HELD[op["id"]]
    return {"canon": json.dumps([observe(e) for e in ents]), "raw": json.dumps([observe(e, True) for e in ents])}


def _compare(base, op, merge):
    fmt = op["fmt"]
    name = op.get("name") or FNAME[fmt]
    d = tempfile.mkdtemp(dir=base)
    try:
        refp = os.path.join(d, "ref", name)
        l10p = os.path.join(d, "l10n", name)
        mergep = os.path.join(d, "merge", name) if merge else None
        write(refp, op["ref"])
        write(l10p, op["l10n"])
        cc = ContentComparer()
        cc.observers.append(Observer())
        exc = None
        try:
            cc.compare(File(refp, name), File(l10p, name, locale="de"), mergep, op.get("extra"))
        except Exception as ex:       # noqa: a crash is part of the observable result
            exc = "%s: %s" % (type(ex).__name__, ex)
        j = obs_json(cc.observers)
        j0 = obs_json(cc.observers.observers[0])
        res = {"canon": json.dumps({"list": j, "obs": j0, "exc": exc, "error": cc.observers.error,
                                    "merged": read(mergep) if merge else None}, sort_keys=True)}
        if fmt in ("ini", "inc") and not merge and not op.get("extra") and not op.get("name"):
            res["model"] = model_report(j0, name, exc)
        return res
    finally:
        shutil.rmtree(d, ignore_errors=True)


def op_compare(base, op):
    return _compare(base, op, False)


def op_merge(base, op):
    return _compare(base, op, True)


def op_lint(base, op):
    fmt = op["fmt"]
    name = op.get("name") or FNAME[fmt]
    d = tempfile.mkdtemp(dir=base)
    try:
        curp = os.path.join(d, "cur", name)
        write(curp, op["cur"])
        refp = None
        if op.get("ref") is not None:
            refp = os.path.join(d, "ref", name)
            write(refp, op["ref"])
        exc = None
        out = []
        try:
            if op.get("name"):
                # the entry point of the lint command: files without a parser are skipped (parser.hasParser)
                it = L10nLinter().lint([curp], lambda path: (refp, op.get("extra")))
            else:
                it = L10nLinter().lint_file(curp, refp, op.get("extra"))
            for r in it:
                r = dict(r)
                r["path"] = os.path.basename(r["path"])
                out.append(r)
        except Exception as ex:       # noqa
            exc = "%s: %s" % (type(ex).__name__, ex)
        return {"canon": json.dumps({"results": out, "exc": exc}, sort_keys=True)}
    finally:
        shutil.rmtree(d, ignore_errors=True)


def op_add(base, op):
    """ContentComparer.add: a file that is missing in the localization (counts the reference's strings)"""
    fmt = op["fmt"]
    name = op.get("name") or FNAME[fmt]
    d = tempfile.mkdtemp(dir=base)
    try:
        refp = os.path.join(d, "ref", name)
        l10p = os.path.join(d, "l10n", name)
        write(refp, op["ref"])
        cc = ContentComparer()
        cc.observers.append(Observer())
        exc = None
        try:
            cc.add(File(refp, name), File(l10p, name, locale="de"), None)
        except Exception as ex:       # noqa
            exc = "%s: %s" % (type(ex).__name__, ex)
        return {"canon": json.dumps({"obs": obs_json(cc.observers.observers[0]), "exc": exc}, sort_keys=True)}
    finally:
        shutil.rmtree(d, ignore_errors=True)


def op_hasparser(base, op):
    out = []
    for n in op["names"]:
        has = P.hasParser(n)
        cls = None
        if has:
            cls = type(P.getParser(n)).__name__
        out.append([n, has, cls])
    return {"canon": json.dumps(out)}


def op_serialize(base, op):
    fmt = op["fmt"]
    name = FNAME[fmt]
    p = P.getParser(name)
    exc = None
    out = None
    try:
        p.readUnicode(op["ref"])
        ref = list(p.walk())
        p.readUnicode(op["old"])
        old = list(p.walk())
        out = serialize(name, ref, old, dict(op["new"])).decode("utf-8", "replace")
    except Exception as ex:           # noqa
        exc = "%s: %s" % (type(ex).__name__, ex)
    return {"canon": json.dumps({"out": out, "exc": exc}, sort_keys=True)}


def op_mozmatch(base, op):
    return {"canon": json.dumps([mozpath.match(p, op["pattern"]) for p in op["paths"]])}


TOML = """basepath = "."
locales = %s
[[paths]]
  reference = "en/**"
  l10n = "{l10n_base}/{locale}/**"
%s"""


def op_project(base, op):
    """compareProjects over a small project: files = {relpath: [ref or None, {locale: text}]}"""
    d = tempfile.mkdtemp(dir=base)
    try:
        locales = op["locales"]
        filters = "".join('[[filters]]\n  path = "{l10n_base}/{locale}/%s"\n  key = "%s"\n  action = "%s"\n' % tuple(f)
                          for f in op.get("filters", []))
        write(os.path.join(d, "l10n.toml"), TOML % (json.dumps(op.get("all_locales", locales)), filters))
        for rel, (ref, loc) in op["files"].items():
            if ref is not None:
                write(os.path.join(d, "en", rel), ref)
            for l, text in loc.items():
                if l in locales:
                    write(os.path.join(d, "l", l, rel), text)
        exc = None
        j = None
        try:
            cfg = TOMLParser().parse(os.path.join(d, "l10n.toml"), env={"l10n_base": os.path.join(d, "l")})
            cfg.set_locales(locales, deep=True)
            merge = os.path.join(d, "merge", "{ab_CD}") if False else None
            obs = compareProjects([cfg], locales, os.path.join(d, "l"), merge_stage=merge)
            j = {"list": obs_json(obs), "obs": [obs_json(o) for o in obs]}
        except Exception as ex:       # noqa
            exc = "%s: %s" % (type(ex).__name__, ex)
        return {"canon": json.dumps({"report": j, "exc": exc}, sort_keys=True)}
    finally:
        shutil.rmtree(d, ignore_errors=True)


def op_files(base, op):
    """one ContentComparer (+ one Observer) over several file pairs, in the given order"""
    d = tempfile.mkdtemp(dir=base)
    try:
        cc = ContentComparer()
        cc.observers.append(Observer())
        exc = None
        for i in op["order"]:
            rel, ref, l10n = op["files"][i]
            refp = os.path.join(d, "ref", rel)
            l10p = os.path.join(d, "l10n", rel)
            write(refp, ref)
            write(l10p, l10n)
            try:
                cc.compare(File(refp, rel), File(l10p, rel, locale="de"), None, None)
            except Exception as ex:   # noqa
                exc = "%s: %s" % (type(ex).__name__, ex)
        return {"canon": json.dumps({"obs": obs_json(cc.observers.observers[0]), "exc": exc}, sort_keys=True)}
    finally:
        shutil.rmtree(d, ignore_errors=True)


OPS = {"parse": op_parse, "hold": op_hold, "reobs": op_reobs, "compare": op_compare, "merge": op_merge,
       "lint": op_lint, "serialize": op_serialize, "add": op_add, "hasparser": op_hasparser, "mozmatch": op_mozmatch, "project": op_project,
       "files": op_files}


def run_ops(base, ops):
    out = []
    own = None
    if base is None or not os.path.isdir(base):
        own = base = tempfile.mkdtemp(prefix="verif-c18-")
    real_stdout = sys.stdout
    try:
        for op in ops:
            before = Junk.junkid
            sys.stdout = io.StringIO()      # ContentComparer.merge prints
            try:
                r = OPS[op["op"]](base, op)
            except Exception as ex:         # noqa: adapter-level failure, reported as such
                r = {"canon": "ADAPTER-EXC %s: %s" % (type(ex).__name__, ex)}
            finally:
                sys.stdout = real_stdout
            r["jid"] = [before, Junk.junkid]
            out.append(r)
    finally:
        if own:
            shutil.rmtree(own, ignore_errors=True)
    return out

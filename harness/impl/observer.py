"""Adapters around the real Tree / Observer / ObserverList / CompareLocales; canonical forms of Ops/C10.lean."""
import hashlib
import io
import json
import os
import shutil
import sys
import warnings

warnings.filterwarnings("ignore")

from compare_locales.compare.utils import Tree
from compare_locales.compare.observer import Observer, ObserverList
from compare_locales.paths import File

STATKEYS = ["errors", "warnings", "missing", "missing_w", "report", "obsolete", "changed", "changed_w",
            "unchanged", "unchanged_w", "keys"]
CATS = {"e": "error", "w": "warning", "me": "missingEntity", "oe": "obsoleteEntity", "mf": "missingFile",
        "of": "obsoleteFile", "x": "somethingElse"}
CAT_CODE = {v: k for k, v in CATS.items()}
RET_CODE = {"error": "e", "warning": "w", "ignore": "i"}


# ------------------------------------------------------------------ canonical text
def show_txt(t):
    return "t" + ".".join(str(ord(c)) for c in t)


def show_key(k):
    return "/".join(show_txt(p) for p in k)


def show_vals(l, sv):
    return ",".join(sv(x) for x in l)


def show_tree(t, sv):
    val = "N" if t.value is None else "L" + show_vals(t.value, sv)
    return "<" + val + "".join("(" + show_key(k) + ")" + show_tree(v, sv) for k, v in t.branches.items()) + ">"


def show_json(j, sv):
    if isinstance(j, list):
        return "[" + show_vals(j, sv) + "]"
    return "{" + "".join(show_txt(k) + ">" + show_json(v, sv) + ";" for k, v in j.items()) + "}"


def show_content(t, sv):
    out = []
    for depth, flag, x in t.getContent():
        if flag == "key":
            out.append("k%d:%s" % (depth, show_key(x)))
        else:
            out.append("v%d:%s" % (depth, show_vals(x, sv)))
    return " ".join(out)


def flat(t, prefix=()):
    """every (path, value) of the tree, read off the object graph (interior values included)"""
    out = []
    if t.value is not None:
        out.append((prefix, t.value))
    for k, v in t.branches.items():
        out += flat(v, prefix + tuple(k))
    return out


def show_data(d):
    if d is None:
        return "d-"
    if isinstance(d, tuple):
        return "dT" + "|".join("-" if p is None else show_txt(p) for p in d)
    return "d" + show_txt(d)


def show_detail(item):
    (cat, val), = item.items()
    c = CAT_CODE[cat]
    if c in ("mf", "of"):
        return c + ":r" + RET_CODE[val]
    return c + ":" + show_data(val)


def show_loc(loc):
    return "-" if loc is None else show_txt(loc)


def show_summary(s):
    return ";".join(show_loc(loc) + ":" + ",".join(str(c[k]) for k in STATKEYS) for loc, c in s.items())


def show_obs(o):
    return "err=%d sum=%s det=%s" % (1 if o.error else 0, show_summary(o.summary), show_json(o.details.toJSON(), show_detail))


def show_exc_text(f):
    try:
        return show_txt(f())
    except Exception as e:   # noqa
        return "!" + type(e).__name__


# ------------------------------------------------------------------ Tree
def build_tree(ops):
    """ops: list of lists of segments, or of [segments, append?].  Goes through the public `tree[leaf]` whenever the segments
    can be written as a leaf string, through the private `__get` otherwise (empty list, '/' inside)."""
    t = Tree(list)
    for i, op in enumerate(ops):
        parts, app = (op[0], op[1]) if (len(op) == 2 and isinstance(op[1], bool)) else (op, True)
        try:
            if parts and not any("/" in p for p in parts):
                v = t["/".join(parts)]
            else:
                v = t._Tree__get(list(parts))
            if app:
                v.append(i)
        except Exception as e:   # noqa
            return None, "!%s@%d" % (type(e).__name__, i)
    return t, None


def impl_tree(ops):
    t, err = build_tree(ops)
    if err:
        return err
    sv = str
    return "%s json=%s content=%s flat=%s" % (
        show_tree(t, sv), show_json(t.toJSON(), sv), show_content(t, sv),
        ";".join(show_key(p) + "=" + show_vals(v, sv) for p, v in flat(t)))


# ------------------------------------------------------------------ filters
class TableFilter:
    """a pure filter given by a seed: the action is a hash of (seed, file identity, entity)"""

    def __init__(self, seed, weights, ignore_locales=()):
        self.seed = seed
        self.weights = weights       # (error, warning, ignore) per mille thresholds
        self.ignore_locales = set(ignore_locales)

    def __call__(self, file, entity=None):
        if file.locale in self.ignore_locales:
            return "ignore"
        h = hashlib.sha256(repr((self.seed, file.file, file.module, file.locale, entity)).encode()).digest()
        x = int.from_bytes(h[:4], "big") % 1000
        if x < self.weights[0]:
            return "error"
        if x < self.weights[1]:
            return "warning"
        return "ignore"


def project_filter(spec):
    """a real ProjectConfig.filter: spec = {locales, rules:[{path,key?,action}]} under the root /l10n"""
    from compare_locales.paths import ProjectConfig
    pc = ProjectConfig("/l10n/l10n.toml")
    pc.set_root("/l10n")
    pc.set_locales(spec["locales"])
    pc.add_environment(l="/l10n/{locale}")
    pc.add_paths({"l10n": "{l}/**"})
    if spec["rules"]:
        pc.add_rules(*[dict(r) for r in spec["rules"]])
    return pc.filter


FILTERPY_VALUES = {"true": True, "false": False, "report": "report", "error": "error", "ignore": "ignore",
                   "warning": "warning"}


def filter_py_source(rules, default="error"):
    """the text of a legacy `filter.py`: `test(mod, path, entity=None)` answers with the value of the first rule
    {prefix, on: "file"|"entity"|"any", match: regex or None, value} whose path prefix, kind of question (file level =
    `entity is None`) and regex (searched in a `str` entity: a key, a message text, "" for updateStats) fit"""
    lines = ["def test(mod, path, entity=None):", "    import re"]
    for r in rules:
        conds = ["path.startswith(%r)" % r.get("prefix", "")]
        if r.get("mod") is not None:
            conds.append("mod == %r" % r["mod"])
        if r.get("on") == "file":
            conds.append("entity is None")
        elif r.get("on") == "entity":
            conds.append("entity is not None")
        if r.get("match") is not None:
            conds.append("isinstance(entity, str) and re.search(%r, entity) is not None" % r["match"])
        lines.append("    if %s:" % " and ".join(conds))
        lines.append("        return %r" % (FILTERPY_VALUES[r["value"]],))
    lines.append("    return %r" % (FILTERPY_VALUES[default],))
    return "\n".join(lines) + "\n"


def filterpy_filter(spec):
    """a real ProjectConfig.filter with legacy filter.py code hooked up (`set_filter_py`): spec = {locales, rules, default}"""
    from compare_locales.paths import ProjectConfig
    local = {}
    exec(compile(filter_py_source(spec["rules"], spec.get("default", "error")), "filter.py", "exec"), {}, local)
    pc = ProjectConfig("/l10n/l10n.toml")
    pc.set_root("/l10n")
    pc.set_locales(spec["locales"])
    pc.add_environment(l="/l10n/{locale}")
    pc.add_paths({"l10n": "{l}/**"})
    pc.set_filter_py(local["test"])
    return pc.filter


def make_filter(spec):
    if spec is None:
        return None
    if spec["kind"] == "table":
        return TableFilter(spec["seed"], spec["weights"], spec.get("ignore_locales", ()))
    if spec["kind"] == "filterpy":
        return filterpy_filter(spec)
    return project_filter(spec)


def mk_file(f):
    """f = (file, module, locale); fullpath as compareProjects builds it"""
    file, module, locale = f
    if module:
        full = "/l10n/%s/%s/%s" % (locale, module, file)
    else:
        full = "/l10n/" + file
    return File(full, file, module=module, locale=locale)


def mk_data(d):
    return tuple(d) if isinstance(d, list) else d


def filter_tables(case):
    """the value of every filter on every query the history makes: [(file index, data, action)] per observer"""
    files = [mk_file(f) for f in case["files"]]
    tables = []
    for spec in case["observers"]:
        flt = make_filter(spec)
        if flt is None:
            tables.append(None)
            continue
        seen = {}
        for ev in case["events"]:
            if ev[0] == "n":
                _, cat, fi, data = ev
                data = mk_data(data)
                q = (fi, None) if cat in ("mf", "of") else (fi, data)
                if q not in seen:
                    seen[q] = flt(files[fi]) if cat in ("mf", "of") else flt(files[fi], data)
            else:
                q = (ev[1], "")
                if q not in seen:
                    seen[q] = flt(files[ev[1]], entity="")
        tables.append([(fi, d, a) for (fi, d), a in seen.items()])
    return tables


# ------------------------------------------------------------------ exit status of commands.py
class _Sink(io.StringIO):
    def close(self):        # `handle` closes sys.stdout after writing the JSON to it
        pass


class _StubConfig:
    """what `handle` may touch of a loaded config between parsing it and handing it to compareProjects"""
    all_locales = []
    locales = []

    def set_locales(self, locales, deep=False):
        pass


class _StubTOML:
    def parse(self, path, env=None, ignore_missing_includes=False):
        return _StubConfig()


_CL = None


def exit_status(return_zero, observers, quiet=0):
    """what the REAL `CompareLocales.handle` returns when `compareProjects` hands it `observers` (an ObserverList after a
    history): `handle` runs as it is — whatever it reads off the observers to compute its return value — with
    `extract_positionals`, the config loader and `compareProjects` replaced by stubs and `--json -` into a sink (so that
    neither `serializeDetails` nor `serializeSummaries`, which raise at the excluded points of the text theorems, runs).
    One `.toml` config path per project observer.  -> the return value, or "!<exception>" """
    global _CL
    import logging
    from compare_locales import commands
    if _CL is None:
        _CL = commands.CompareLocales()
    cps = ["/c10/p%d.toml" % i for i, _ in enumerate(observers)]
    saved = [(commands, n, getattr(commands, n)) for n in ("compareProjects", "TOMLParser", "json_dump")]
    saved.append((commands.CompareLocales, "extract_positionals", commands.CompareLocales.extract_positionals))
    root = logging.getLogger()
    level = root.level
    old = sys.stdout
    try:
        commands.compareProjects = lambda *a, **kw: observers
        commands.TOMLParser = _StubTOML
        commands.json_dump = lambda *a, **kw: None
        commands.CompareLocales.extract_positionals = lambda self, **kw: (list(cps), "/c10/l10n", ["de"])
        sys.stdout = _Sink()
        try:
            rv = _CL.handle(quiet=quiet, config_paths=list(cps), l10n_base_dir="/c10/l10n", locales=["de"],
                            return_zero=bool(return_zero), json="-")
        except BaseException as e:   # noqa  (SystemExit included)
            return "!" + type(e).__name__
        return rv if isinstance(rv, str) else int(rv)
    finally:
        sys.stdout = old
        root.setLevel(level)
        for obj, name, val in saved:
            setattr(obj, name, val)


# ------------------------------------------------------------------ histories
def run_history(case, quiet):
    """-> (ObserverList, [return values]) or raises"""
    files = [mk_file(f) for f in case["files"]]
    ol = ObserverList(quiet=quiet)
    for spec in case["observers"]:
        ol.append(Observer(quiet=quiet, filter=make_filter(spec)))
    rets = []
    for i, ev in enumerate(case["events"]):
        try:
            if ev[0] == "n":
                _, cat, fi, data = ev
                rets.append(ol.notify(CATS[cat], files[fi], mk_data(data)))
            else:
                _, fi, stats = ev
                ol.updateStats(files[fi], {STATKEYS[k]: v for k, v in stats})
                rets.append(None)
        except Exception as e:   # noqa
            e.at = i
            raise
    return ol, rets


def impl_obs(case, quiet):
    """canonical string of a history at one quiet level + plain data for the oracle"""
    try:
        ol, rets = run_history(case, quiet)
    except Exception as e:   # noqa
        return {"canon": "!%s@%d" % (type(e).__name__, getattr(e, "at", -1))}
    canon = "rets=" + ",".join("-" if r is None else RET_CODE.get(r, "?") for r in rets)
    canon += " |L " + show_obs(ol)
    for o in ol:
        canon += " |O " + show_obs(o)
    canon += " |sd=" + show_exc_text(ol.serializeDetails)
    canon += " |ss=" + show_exc_text(ol.serializeSummaries)
    rc = exit_status(bool(case["rz"]), ol, quiet)
    canon += " |exit=%s" % rc

    def plain(o):
        return {"error": bool(o.error),
                "summary": [[loc, [c[k] for k in STATKEYS]] for loc, c in o.summary.items()],
                "json": o.toJSON()["details"],
                "flat": [[list(p), [show_detail(x) for x in v]] for p, v in flat(o.details)]}
    def text_of(f):
        try:
            return {"text": f()}
        except Exception as e:   # noqa
            return {"exc": type(e).__name__}

    def raw(o):
        """the stored lists with their items as (category, value) pairs, read off the object graph"""
        return [[list(p), [list(next(iter(x.items()))) for x in v]] for p, v in flat(o.details)]
    return {"canon": canon, "rets": rets, "list": plain(ol), "obs": [plain(o) for o in ol], "exit": rc,
            "details_text": text_of(ol.serializeDetails), "summaries_text": text_of(ol.serializeSummaries),
            "list_items": raw(ol)}


# ------------------------------------------------------------------ whole command
def impl_command(root, spec, quiet, rz):
    """write the project tree described by spec under root, run CompareLocales().handle, return rc + JSON"""
    from compare_locales.commands import CompareLocales
    if os.path.exists(root):
        shutil.rmtree(root)
    os.makedirs(os.path.join(root, "l10n"))     # the l10n base dir exists even when nothing is localized
    try:
        for rel, text in spec["files"].items():
            p = os.path.join(root, rel)
            os.makedirs(os.path.dirname(p), exist_ok=True)
            with open(p, "w", encoding="utf-8", newline="") as f:
                f.write(text)
        jpath = os.path.join(root, "out.json")
        buf = io.StringIO()
        old = sys.stdout
        sys.stdout = buf
        try:
            rc = CompareLocales().handle(
                config_paths=[os.path.join(root, c) for c in spec["configs"]], l10n_base_dir=os.path.join(root, "l10n"),
                locales=list(spec["locales"]), quiet=quiet, json=jpath, return_zero=bool(rz))
        except SystemExit as e:     # argparse-style exits must not kill the worker
            raise RuntimeError("SystemExit(%r)" % (e.code,))
        finally:
            sys.stdout = old
        data = json.load(open(jpath))
        return {"rc": rc, "json": data, "stdout": buf.getvalue()}
    finally:
        shutil.rmtree(root, ignore_errors=True)

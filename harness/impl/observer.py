"""Adapters around the real Tree / Observer / ObserverList / CompareLocales; canonical forms of Ops/C10.lean."""
import ast
import hashlib
import inspect
import io
import json
import os
import shutil
import sys
import warnings

warnings.filterwarnings("ignore")

from compare_locales.compare.utils import Tree
from compare_locales.compare.observer import Observer, ObserverList
from compare_locales.paths import File

STATKEYS = ["errors", "warnings", "missing", "missing_w", "report", "obsolete", "changed", "changed_w",
            "unchanged", "unchanged_w", "keys"]
CATS = {"e": "error", "w": "warning", "me": "missingEntity", "oe": "obsoleteEntity", "mf": "missingFile",
        "of": "obsoleteFile", "x": "somethingElse"}
CAT_CODE = {v: k for k, v in CATS.items()}
RET_CODE = {"error": "e", "warning": "w", "ignore": "i"}


# ------------------------------------------------------------------ canonical text
def show_txt(t):
    return "t" + ".".join(str(ord(c)) for c in t)


def show_key(k):
    return "/".join(show_txt(p) for p in k)


def show_vals(l, sv):
    return ",".join(sv(x) for x in l)


def show_tree(t, sv):
    val = "N" if t.value is None else "L" + show_vals(t.value, sv)
    return "<" + val + "".join("(" + show_key(k) + ")" + show_tree(v, sv) for k, v in t.branches.items()) + ">"


def show_json(j, sv):
    if isinstance(j, list):
        return "[" + show_vals(j, sv) + "]"
    return "{" + "".join(show_txt(k) + ">" + show_json(v, sv) + ";" for k, v in j.items()) + "}"


def show_content(t, sv):
    out = []
    for depth, flag, x in t.getContent():
        if flag == "key":
            out.append("k%d:%s" % (depth, show_key(x)))
        else:
            out.append("v%d:%s" % (depth, show_vals(x, sv)))
    return " ".join(out)


def flat(t, prefix=()):
    """every (path, value) of the tree, read off the object graph (interior values included)"""
    out = []
    if t.value is not None:
        out.append((prefix, t.value))
    for k, v in t.branches.items():
        out += flat(v, prefix + tuple(k))
    return out


def show_data(d):
    if d is None:
        return "d-"
    if isinstance(d, tuple):
        return "dT" + "|".join("-" if p is None else show_txt(p) for p in d)
    return "d" + show_txt(d)


def show_detail(item):
    (cat, val), = item.items()
    c = CAT_CODE[cat]
    if c in ("mf", "of"):
        return c + ":r" + RET_CODE[val]
    return c + ":" + show_data(val)


def show_loc(loc):
    return "-" if loc is None else show_txt(loc)


def show_summary(s):
    return ";".join(show_loc(loc) + ":" + ",".join(str(c[k]) for k in STATKEYS) for loc, c in s.items())


def show_obs(o):
    return "err=%d sum=%s det=%s" % (1 if o.error else 0, show_summary(o.summary), show_json(o.details.toJSON(), show_detail))


def show_exc_text(f):
    try:
        return show_txt(f())
    except Exception as e:   # noqa
        return "!" + type(e).__name__


# ------------------------------------------------------------------ Tree
def build_tree(ops):
    """ops: list of lists of segments, or of [segments, append?].  Goes through the public `tree[leaf]` whenever the segments
    can be written as a leaf string, through the private `__get` otherwise (empty list, '/' inside)."""
    t = Tree(list)
    for i, op in enumerate(ops):
        parts, app = (op[0], op[1]) if (len(op) == 2 and isinstance(op[1], bool)) else (op, True)
        try:
            if parts and not any("/" in p for p in parts):
                v = t["/".join(parts)]
            else:
                v = t._Tree__get(list(parts))
            if app:
                v.append(i)
        except Exception as e:   # noqa
            return None, "!%s@%d" % (type(e).__name__, i)
    return t, None


def impl_tree(ops):
    t, err = build_tree(ops)
    if err:
        return err
    sv = str
    return "%s json=%s content=%s flat=%s" % (
        show_tree(t, sv), show_json(t.toJSON(), sv), show_content(t, sv),
        ";".join(show_key(p) + "=" + show_vals(v, sv) for p, v in flat(t)))


# ------------------------------------------------------------------ filters
class TableFilter:
    """a pure filter given by a seed: the action is a hash of (seed, file identity, entity)"""

    def __init__(self, seed, weights, ignore_locales=()):
        self.seed = seed
        self.weights = weights       # (error, warning, ignore) per mille thresholds
        self.ignore_locales = set(ignore_locales)

    def __call__(self, file, entity=None):
        if file.locale in self.ignore_locales:
            return "ignore"
        h = hashlib.sha256(repr((self.seed, file.file, file.module, file.locale, entity)).encode()).digest()
        x = int.from_bytes(h[:4], "big") % 1000
        if x < self.weights[0]:
            return "error"
        if x < self.weights[1]:
            return "warning"
        return "ignore"


def project_filter(spec):
    """a real ProjectConfig.filter: spec = {locales, rules:[{path,key?,action}]} under the root /l10n"""
    from compare_locales.paths import ProjectConfig
    pc = ProjectConfig("/l10n/l10n.toml")
    pc.set_root("/l10n")
    pc.set_locales(spec["locales"])
    pc.add_environment(l="/l10n/{locale}")
    pc.add_paths({"l10n": "{l}/**"})
    if spec["rules"]:
        pc.add_rules(*[dict(r) for r in spec["rules"]])
    return pc.filter


def make_filter(spec):
    if spec is None:
        return None
    if spec["kind"] == "table":
        return TableFilter(spec["seed"], spec["weights"], spec.get("ignore_locales", ()))
    return project_filter(spec)


def mk_file(f):
    """f = (file, module, locale); fullpath as compareProjects builds it"""
    file, module, locale = f
    if module:
        full = "/l10n/%s/%s/%s" % (locale, module, file)
    else:
        full = "/l10n/" + file
    return File(full, file, module=module, locale=locale)


def mk_data(d):
    return tuple(d) if isinstance(d, list) else d


def filter_tables(case):
    """the value of every filter on every query the history makes: [(file index, data, action)] per observer"""
    files = [mk_file(f) for f in case["files"]]
    tables = []
    for spec in case["observers"]:
        flt = make_filter(spec)
        if flt is None:
            tables.append(None)
            continue
        seen = {}
        for ev in case["events"]:
            if ev[0] == "n":
                _, cat, fi, data = ev
                data = mk_data(data)
                q = (fi, None) if cat in ("mf", "of") else (fi, data)
                if q not in seen:
                    seen[q] = flt(files[fi]) if cat in ("mf", "of") else flt(files[fi], data)
            else:
                q = (ev[1], "")
                if q not in seen:
                    seen[q] = flt(files[ev[1]], entity="")
        tables.append([(fi, d, a) for (fi, d), a in seen.items()])
    return tables


# ------------------------------------------------------------------ exit status of commands.py
_EXIT = None


def exit_expr():
    """the expression assigned to `rv` at the end of CompareLocales.handle, taken from the source"""
    global _EXIT
    if _EXIT is None:
        from compare_locales import commands
        src = inspect.getsource(commands)
        tree = ast.parse(src)
        found = None
        for cls in tree.body:
            if isinstance(cls, ast.ClassDef) and cls.name == "CompareLocales":
                for fn in cls.body:
                    if isinstance(fn, ast.FunctionDef) and fn.name == "handle":
                        assigns = [n for n in ast.walk(fn) if isinstance(n, ast.Assign)
                                   and len(n.targets) == 1 and isinstance(n.targets[0], ast.Name)
                                   and n.targets[0].id == "rv"]
                        rets = [n for n in fn.body if isinstance(n, ast.Return)]
                        if len(assigns) == 1 and rets and isinstance(rets[-1].value, ast.Name) and rets[-1].value.id == "rv":
                            found = assigns[0].value
        if found is None:
            raise RuntimeError("commands.py: `rv = ...; return rv` not found in CompareLocales.handle")
        names = {n.id for n in ast.walk(found) if isinstance(n, ast.Name)}
        if not names <= {"return_zero", "observers"}:
            raise RuntimeError("commands.py: exit expression uses %s" % sorted(names))
        _EXIT = compile(ast.Expression(found), "<commands.py rv>", "eval")
    return _EXIT


def exit_status(return_zero, observers):
    return int(eval(exit_expr(), {}, {"return_zero": return_zero, "observers": observers}))


# ------------------------------------------------------------------ histories
def run_history(case, quiet):
    """-> (ObserverList, [return values]) or raises"""
    files = [mk_file(f) for f in case["files"]]
    ol = ObserverList(quiet=quiet)
    for spec in case["observers"]:
        ol.append(Observer(quiet=quiet, filter=make_filter(spec)))
    rets = []
    for i, ev in enumerate(case["events"]):
        try:
            if ev[0] == "n":
                _, cat, fi, data = ev
                rets.append(ol.notify(CATS[cat], files[fi], mk_data(data)))
            else:
                _, fi, stats = ev
                ol.updateStats(files[fi], {STATKEYS[k]: v for k, v in stats})
                rets.append(None)
        except Exception as e:   # noqa
            e.at = i
            raise
    return ol, rets


def impl_obs(case, quiet):
    """canonical string of a history at one quiet level + plain data for the oracle"""
    try:
        ol, rets = run_history(case, quiet)
    except Exception as e:   # noqa
        return {"canon": "!%s@%d" % (type(e).__name__, getattr(e, "at", -1))}
    canon = "rets=" + ",".join("-" if r is None else RET_CODE.get(r, "?") for r in rets)
    canon += " |L " + show_obs(ol)
    for o in ol:
        canon += " |O " + show_obs(o)
    canon += " |sd=" + show_exc_text(ol.serializeDetails)
    canon += " |ss=" + show_exc_text(ol.serializeSummaries)
    rc = exit_status(bool(case["rz"]), ol)
    canon += " |exit=%d" % rc

    def plain(o):
        return {"error": bool(o.error),
                "summary": [[loc, [c[k] for k in STATKEYS]] for loc, c in o.summary.items()],
                "json": o.toJSON()["details"],
                "flat": [[list(p), [show_detail(x) for x in v]] for p, v in flat(o.details)]}
    def text_of(f):
        try:
            return {"text": f()}
        except Exception as e:   # noqa
            return {"exc": type(e).__name__}

    def raw(o):
        """the stored lists with their items as (category, value) pairs, read off the object graph"""
        return [[list(p), [list(next(iter(x.items()))) for x in v]] for p, v in flat(o.details)]
    return {"canon": canon, "rets": rets, "list": plain(ol), "obs": [plain(o) for o in ol], "exit": rc,
            "details_text": text_of(ol.serializeDetails), "summaries_text": text_of(ol.serializeSummaries),
            "list_items": raw(ol)}


# ------------------------------------------------------------------ whole command
def impl_command(root, spec, quiet, rz):
    """write the project tree described by spec under root, run CompareLocales().handle, return rc + JSON"""
    from compare_locales.commands import CompareLocales
    if os.path.exists(root):
        shutil.rmtree(root)
    os.makedirs(os.path.join(root, "l10n"))     # the l10n base dir exists even when nothing is localized
    try:
        for rel, text in spec["files"].items():
            p = os.path.join(root, rel)
            os.makedirs(os.path.dirname(p), exist_ok=True)
            with open(p, "w", encoding="utf-8", newline="") as f:
                f.write(text)
        jpath = os.path.join(root, "out.json")
        buf = io.StringIO()
        old = sys.stdout
        sys.stdout = buf
        try:
            rc = CompareLocales().handle(
                config_paths=[os.path.join(root, c) for c in spec["configs"]], l10n_base_dir=os.path.join(root, "l10n"),
                locales=list(spec["locales"]), quiet=quiet, json=jpath, return_zero=bool(rz))
        except SystemExit as e:     # argparse-style exits must not kill the worker
            raise RuntimeError("SystemExit(%r)" % (e.code,))
        finally:
            sys.stdout = old
        data = json.load(open(jpath))
        return {"rc": rc, "json": data, "stdout": buf.getvalue()}
    finally:
        shutil.rmtree(root, ignore_errors=True)

"""Generators of C16 cases: (format, reference text, old localization text, new-data items).

Files are rendered from abstract records (entity with optional attached comment, standalone comment,
blank line, junk, ini section, inc instruction); raw values of the new data are obtained the way a tool
obtains them: by parsing a localized one-entity file of the format and calling entity.unwrap()."""
import itertools

FORMATS = ["properties", "dtd", "ini", "inc", "ftl", "android"]
REGEX_FORMATS = ["properties", "dtd", "ini", "inc"]

KEYS = ["k1", "k2", "k3", "k4", "k5", "k6"]
OBS = ["obs1", "obs2", "obs3"]
UNK = ["unk1", "unk2"]

# value flavours; {t} is a unique tag (EN…, OLD…, NEW…)
FLAVOURS = {
    "properties": ["{t}", "{t} two words", "{t}\\u0041", "{t} a\\\n    b", "{t}\\\\", "", "{t} = : #!", "{t}\\n x", "{t} é"],
    "dtd": ["{t}", "{t} two words", "{t} it's", "{t} say \"x\"", "{t} &amp; &brand;", "{t}\nline2", "", "{t} é"],
    "ini": ["{t}", "{t} a=b", "", "{t} ; x # y", "{t}  spaced ", "{t} é"],
    "inc": ["{t}", "{t} two words", "", "{t} # x", "{t}\t tab", "{t} é"],
    "ftl": ["{t}", "{t} {{ $x }} y", "{t}\n    continued", "{t}\n    .attr = {t}A", "{{ -brand }} {t}",
            "{{ $n ->\n        [one] {t}1\n       *[other] {t}2\n    }}", "{t} é"],
    "android": ["{t}", "{t} two words", "{t} &amp; co", "{t} \\'q\\'", "<![CDATA[{t} <b>x</b>]]>", "{t} é", "{t} &lt;b&gt;",
                "\n      <![CDATA[{t} <i>y</i>]]>\n    "],
}
# round 4: reference <string> elements with inline markup / several child nodes (AndroidEntity.wrap replaces ONE child's data)
ANDROID_MARKUP = ["{t} <b>bold</b>", "<b>{t}</b>", "{t} <xliff:g id=\"x\">%s</xliff:g>", "<xliff:g id=\"x\">%s</xliff:g> {t}",
                  "{t} <b>x</b> tail", "<!-- c -->{t}", "{t}<![CDATA[ {t}c ]]> t", "<!-- only a comment {t} -->"]
XLIFF = 'xmlns:xliff="urn:oasis:names:tc:xliff:document:1.2"'
REF_ROOT = [XLIFF, 'xmlns:tools="http://schemas.android.com/tools"', 'xmlns:a="urn:ENa"']
OLD_ROOT = [XLIFF, 'xmlns:tools="http://OLDtools"', 'xmlns:other="urn:OLDother"', 'xmlns:a="urn:OLDa"']


def pick_root(rng, pool, need_xliff):
    attrs = [a for a in pool if rng.random() < 0.4]
    if need_xliff and XLIFF not in attrs:
        attrs.insert(rng.randrange(len(attrs) + 1), XLIFF)
    rng.shuffle(attrs)
    return "".join(" " + a for a in attrs)

COMMENT_TEXTS = ["note A", "note B", "note C", "shared note"]


class Rec:
    __slots__ = ("kind", "key", "val", "comment", "extra")

    def __init__(self, kind, key=None, val=None, comment=None, extra=None):
        self.kind = kind      # ent | comment | blank | junk | section | instr | license
        self.key = key
        self.val = val        # source value text (as written in the file)
        self.comment = comment
        self.extra = extra    # per-format rendering choice (separator, quote, …)

    def tup(self):
        return (self.kind, self.key, self.val, self.comment, self.extra)


def dtd_quote(val, prefer):
    if '"' in val and "'" in val:
        return None
    if '"' in val:
        return "'"
    if "'" in val:
        return '"'
    return prefer


def render_comment(fmt, text):
    if fmt in ("properties", "inc", "ftl"):
        return "# %s\n" % text
    if fmt == "ini":
        return "; %s\n" % text
    if fmt == "dtd":
        return "<!-- %s -->\n" % text
    if fmt == "android":
        return "  <!-- %s -->\n" % text
    raise ValueError(fmt)


def render_ent(fmt, r):
    c = render_comment(fmt, r.comment) if r.comment else ""
    x = r.extra or 0
    if fmt == "properties":
        sep = [" = ", "=", ":", " : "][x % 4]
        return "%s%s%s%s\n" % (c, r.key, sep, r.val)
    if fmt == "dtd":
        q = dtd_quote(r.val, ['"', "'"][x % 2]) or '"'
        return "%s<!ENTITY %s %s%s%s>\n" % (c, r.key, q, r.val, q)
    if fmt == "ini":
        return "%s%s=%s\n" % (c, r.key, r.val)
    if fmt == "inc":
        if r.val is None:
            return "%s#define %s\n" % (c, r.key)
        return "%s#define %s %s\n" % (c, r.key, r.val)
    if fmt == "ftl":
        return "%s%s = %s\n" % (c, r.key, r.val)
    if fmt == "android":
        if r.val is None:
            return '%s  <string name="%s"/>\n' % (c, r.key)
        return '%s  <string name="%s">%s</string>\n' % (c, r.key, r.val)
    raise ValueError(fmt)


JUNK = {
    "properties": "JUNK line without separator\n",
    "dtd": "<!ENTY JUNK broken>\n",
    "ini": "JUNK line without separator\n",
    "inc": "JUNK line\n",
    "ftl": "JUNK line !!\n",
    "android": '  <plurals name="JUNK"><item quantity="one">x</item></plurals>\n',
}


def render_rec(fmt, r):
    if r.kind == "ent":
        return render_ent(fmt, r)
    if r.kind == "comment":
        # a standalone comment: followed by a blank line
        if fmt == "inc" and not r.extra:
            return render_comment(fmt, r.comment)      # no blank lines outside `#filter emptyLines`
        if fmt == "ftl" and r.extra == 2:
            return "## %s\n\n" % r.comment
        return render_comment(fmt, r.comment) + "\n"
    if r.kind == "blank":
        return "\n"
    if r.kind == "junk":
        return JUNK[fmt]
    if r.kind == "section":
        return "[%s]\n" % r.key
    if r.kind == "instr":
        return "#%s\n" % r.key
    if r.kind == "license":
        return render_comment(fmt, "This is a License header") + ("" if fmt == "inc" and not r.extra else "\n")
    raise ValueError(r.kind)


def render_file(fmt, recs, eof_newline=True, root=""):
    body = "".join(render_rec(fmt, r) for r in recs)
    if fmt == "android":
        if "xliff:" in body and "xmlns:xliff" not in root:
            root += " " + XLIFF
        body = '<?xml version="1.0" encoding="utf-8"?>\n<resources%s>\n' % root + body + "</resources>\n"
    if not eof_newline:
        body = body.rstrip("\n")
    return body


def one_entity_file(fmt, key, val, x=0):
    # Fluent: unwrap() is the whole entry source, including an attached comment of the localized file
    c = "l10n note" if (fmt == "ftl" and x >= 2) else None
    return render_file(fmt, [Rec("ent", key, val, c, x)])


# ------------------------------------------------------------------ random structured cases
def pick_val(rng, fmt, tag):
    return rng.choice(FLAVOURS[fmt]).replace("{t}", tag) if fmt != "ftl" else rng.choice(FLAVOURS[fmt]).format(t=tag)


def gen_file(rng, fmt, keys, tagp, own_comments, filtered, allow_junk, obsolete=()):
    """records of one file; `filtered`: inc file with `#filter emptyLines` (blank lines allowed)"""
    recs = []
    blank_ok = fmt != "inc" or filtered
    if rng.random() < 0.15:
        recs.append(Rec("license", extra=(blank_ok and fmt != "inc")))
    if fmt == "ini":
        recs.append(Rec("section", "Strings"))
    if fmt == "inc" and filtered:
        recs.append(Rec("instr", "filter emptyLines"))
    seq = list(keys)
    for o in obsolete:
        seq.insert(rng.randrange(len(seq) + 1), o)
    for i, k in enumerate(seq):
        r = rng.random()
        if blank_ok and r < 0.35:
            recs.append(Rec("blank"))
        elif r < 0.5:
            recs.append(Rec("comment", comment=rng.choice(own_comments), extra=(rng.choice([1, 2]) if fmt == "ftl" else blank_ok)))
        elif allow_junk and r < 0.62:
            recs.append(Rec("junk"))
        elif fmt == "ini" and r < 0.67:
            recs.append(Rec("section", "Sec%d" % i))
        c = rng.choice(own_comments) if rng.random() < 0.3 else None
        val = pick_val(rng, fmt, "%s%s" % (tagp, k))
        if fmt == "android" and tagp == "EN" and rng.random() < 0.06:
            val = rng.choice(ANDROID_MARKUP).replace("{t}", "%s%s" % (tagp, k))
        if fmt in ("inc", "android") and rng.random() < 0.04:
            val = None          # `#define k` without a value / <string name="k"/>
        recs.append(Rec("ent", k, val, c, rng.randrange(4)))
    r = rng.random()
    if blank_ok and r < 0.2:
        recs.append(Rec("blank"))
    elif r < 0.35:
        recs.append(Rec("comment", comment=rng.choice(own_comments), extra=blank_ok))
    elif allow_junk and r < 0.45:
        recs.append(Rec("junk"))
    if fmt == "inc" and filtered and rng.random() < 0.7:
        recs.append(Rec("instr", "unfilter emptyLines"))
    return recs


def gen_random_case(rng, fmt):
    nref = rng.randrange(1, 6)
    rkeys = rng.sample(KEYS, nref)
    filtered = rng.random() < 0.5
    ref = gen_file(rng, fmt, rkeys, "EN", COMMENT_TEXTS, filtered, False)
    okeys = [k for k in rkeys if rng.random() < 0.6]
    if rng.random() < 0.25:
        rng.shuffle(okeys)
    obs = rng.sample(OBS, rng.choice([0, 0, 1, 1, 2]))
    ofiltered = filtered if rng.random() < 0.8 else not filtered
    old = gen_file(rng, fmt, okeys, "OLD", COMMENT_TEXTS + ["l10n note"], ofiltered, True, obs)
    if fmt == "android" and rng.random() < 0.05:
        old_text = rng.choice(["", "not xml JUNK", "<other>JUNK</other>"])
    else:
        old_text = render_file(fmt, old, eof_newline=rng.random() < 0.85,
                               root=pick_root(rng, OLD_ROOT, False) if fmt == "android" else "") \
            if (okeys or obs or rng.random() < 0.7) else ""
    new = []
    for k in rkeys:
        r = rng.random()
        if r < 0.35:
            new.append((k, pick_val(rng, fmt, "NEW" + k)))
        elif r < 0.5:
            new.append((k, None))
    for k in UNK:
        r = rng.random()
        if r < 0.15:
            new.append((k, pick_val(rng, fmt, "NEW" + k)))
        elif r < 0.25:
            new.append((k, None))
    for k in obs:
        r = rng.random()
        if r < 0.15:
            new.append((k, pick_val(rng, fmt, "NEW" + k)))
        elif r < 0.25:
            new.append((k, None))
    rng.shuffle(new)
    return {"fmt": fmt, "ref": render_file(fmt, ref, eof_newline=rng.random() < 0.9,
                                           root=pick_root(rng, REF_ROOT, False) if fmt == "android" else ""), "old": old_text,
            "new_src": [[k, v, rng.randrange(4)] for k, v in new]}


# ------------------------------------------------------------------ bounded-exhaustive cases
REF_SHAPES = {
    # records of the reference over keys k1, k2 (values EN…)
    "plain": lambda fmt: [Rec("ent", "k1", "ENk1"), Rec("ent", "k2", "ENk2")],
    "commented": lambda fmt: [Rec("ent", "k1", "ENk1", "note A"), Rec("blank") if fmt != "inc" else Rec("comment", comment="note B"),
                              Rec("ent", "k2", "ENk2", "shared note")],
    "standalone": lambda fmt: [Rec("comment", comment="note B", extra=(fmt != "inc")), Rec("ent", "k1", "ENk1"),
                               Rec("ent", "k2", "ENk2"), Rec("comment", comment="note C", extra=(fmt != "inc"))],
}
OLD_ALPHA = ["k1", "k2", "obs", "k1c", "comment", "junk", "blank"]


def old_rec(fmt, sym):
    if sym == "k1":
        return Rec("ent", "k1", "OLDk1")
    if sym == "k1c":
        return Rec("ent", "k1", "OLDk1", "note A")
    if sym == "k2":
        return Rec("ent", "k2", "OLDk2")
    if sym == "obs":
        return Rec("ent", "obs1", "OLDobs1", "l10n note")
    if sym == "comment":
        return Rec("comment", comment="note B", extra=(fmt != "inc"))
    if sym == "junk":
        return Rec("junk")
    if sym == "blank":
        return Rec("blank") if fmt != "inc" else Rec("comment", comment="l10n note")
    raise ValueError(sym)


NEW_CHOICES = [None, "value", "remove"]


def gen_exhaustive(fmt, maxlen):
    cases = []
    for shape, mk in sorted(REF_SHAPES.items()):
        recs = mk(fmt)
        if fmt == "ini":
            recs = [Rec("section", "Strings")] + recs
        ref_text = render_file(fmt, recs)
        for n in range(maxlen + 1):
            for syms in [s_ + (e_,) for s_ in itertools.product(OLD_ALPHA, repeat=n) for e_ in (True, False)]:
                eof = syms[-1]
                syms = syms[:-1]
                if not syms and not eof:
                    continue
                if ("k1" in syms) + ("k1c" in syms) > 1 or syms.count("k1") > 1 or syms.count("k2") > 1 \
                        or syms.count("obs") > 1 or syms.count("k1c") > 1:
                    continue
                orecs = [old_rec(fmt, s) for s in syms]
                if fmt == "ini" and orecs:
                    orecs = [Rec("section", "Strings")] + orecs
                old_text = render_file(fmt, orecs, eof_newline=eof) if orecs else ""
                for c1 in NEW_CHOICES:
                    for c2 in NEW_CHOICES:
                        for cu in (None, "value"):
                            new = []
                            if cu:
                                new.append(["unk1", "NEWunk1", 0])
                            if c2:
                                new.append(["k2", "NEWk2" if c2 == "value" else None, 0])
                            if c1:
                                new.append(["k1", "NEWk1" if c1 == "value" else None, 0])
                            cases.append({"fmt": fmt, "ref": ref_text, "old": old_text, "new_src": new,
                                          "exh": (shape,) + syms + (("noeof",) if not eof else ())})
    return cases


# ------------------------------------------------------------------ correspondence-only streams
WILD_ALPHA = {
    "properties": ["k1", "k2", "=", ":", " ", "\n", "\\", "#", "!", "# License", "\\\n", "v", "\n\n", "k1=a", "k2 = b\n", "# c\n"],
    "dtd": ["<!ENTITY", " ", "k1", "k2", "\"", "'", ">", "<!--", "-->", "\n", "%", "<!ENTITY k1 \"b\">", "<!ENTITY k2 'c'>\n", "<!-- c -->", "\ufeff"],
    "ini": ["[", "]", "=", "k1", "k2", ";", "#", "\n", " ", "\n\n", "[Strings]", "[k1]", "k1=v", "k2=w\n", "; c\n"],
    "inc": ["#define", " ", "k1", "k2", "\n", "# ", "#", "\n\n", "#filter emptyLines", "#unfilter emptyLines", "#define k1 v", "#define k2\n", "# c\n", "x"],
}


def gen_wild_case(rng, fmt):
    """arbitrary token soups (duplicate keys, junk in the reference, colliding section names, no final newline …):
    only model == implementation is checked on these"""
    base = gen_random_case(rng, fmt)

    def soup():
        return "".join(rng.choice(WILD_ALPHA[fmt]) for _ in range(rng.randrange(0, 9)))

    def mutate(text):
        r = rng.random()
        if r < 0.3:
            return soup()
        if r < 0.6:
            i = rng.randrange(len(text) + 1)
            return text[:i] + soup() + text[i:]
        if r < 0.8 and text:
            i = rng.randrange(len(text))
            j = min(len(text), i + rng.randrange(1, 6))
            return text[:i] + text[j:]
        return text + text[rng.randrange(len(text) + 1):]       # duplicated tail: duplicate keys

    ref = mutate(base["ref"])
    old = mutate(base["old"])
    new = []
    for k in KEYS[:3] + ["Strings", "filter emptyLines"]:
        r = rng.random()
        if r < 0.3:
            new.append([k, rng.choice(["NEWv", "", "x y", "a'b\"c", "q\\"])])
        elif r < 0.4:
            new.append([k, None])
    rng.shuffle(new)
    return {"fmt": fmt, "ref": ref, "old": old, "new": new, "wild": True}


def gen_entry_case(rng):
    """synthetic entry lists for the entry-level correspondence (`ser.ents`): sticky entries, entries that
    are neither Entity/Comment/Whitespace, key collisions between classes, duplicate comments, junk"""
    keys = ["a", "b", "c", "d"]
    comments = ["x", "y"]

    def ent_list(n, is_ref):
        out = []
        for _ in range(n):
            r = rng.random()
            if r < 0.35:
                k = rng.choice(keys)
                out.append(["E", k, k + "=", rng.choice(["1", "22", ""]) + ("R" if is_ref else "O"), rng.choice(["", ";"])])
            elif r < 0.6:
                out.append(["W", "\n" * rng.randrange(1, 4)])
            elif r < 0.75:
                c = rng.choice(comments)
                out.append(["C", "#" + c, c])
            elif r < 0.85:
                k = rng.choice(keys + ["<doc>"])
                out.append(["S", k, "<" + k + ("r" if is_ref else "o") + ">"])
            elif r < 0.95:
                k = rng.choice(keys + ["sec"])
                out.append(["O", k, "[" + k + ("r" if is_ref else "o") + "]"])
            else:
                out.append(["J", "??"])
        return out

    ref = ent_list(rng.randrange(0, 7), True)
    old = ent_list(rng.randrange(0, 7), False)
    new = []
    for k in keys + ["zz"]:
        r = rng.random()
        if r < 0.3:
            new.append([k, "N" + k])
        elif r < 0.45:
            new.append([k, None])
    rng.shuffle(new)
    return {"ref": ref, "old": old, "new": new}


# ------------------------------------------------------------------ round 4: white-space around junk of the OLD file
# Junk regions are marked BY CONSTRUCTION: their first and last non-blank characters are private markers, and the
# white-space put directly before / after them inside the region comes from ALL Unicode white-space (str.isspace)
# outside the formats' own `[ \t\r\n]`.  None of these characters occurs anywhere else (reference, old records, new
# values), so "no old junk text appears in the output" is decidable on the output text alone.
UWS = [chr(i) for i in range(0x110000) if chr(i).isspace() and chr(i) not in " \t\r\n"]
JMARK_A, JMARK_B = "Ж", "Џ"          # Ж … Џ
PRIVATE = frozenset(UWS) | {JMARK_A, JMARK_B}
# text between the two markers: must not contain anything the format's parser resumes at (comment / key starters)
JUNK_MID = {"properties": " line without separator ", "dtd": "<!ENTY x broken>", "ini": " line without separator ",
            "inc": " line ", "ftl": " line !! "}
# the format's own inline white-space (what its parser may split off a junk line); inc: blanks belong to the junk
FMT_WS = {"properties": [" ", "\t", "\r"], "dtd": [" ", "\t", "\r"], "ini": [" ", "\t", "\r"], "inc": [" ", "\t"],
          "ftl": [" ", "\t", "\r"]}


def junk_line(fmt, lead, trail):
    """one junk region: lead + Ж…Џ + trail + newline"""
    return lead + JMARK_A + JUNK_MID[fmt] + JMARK_B + trail + "\n"


def android_junk(kind, lead="", trail=""):
    if kind == "element":
        return '  <plurals name="%s"><item quantity="one">%s%s%s</item></plurals>\n' % (JMARK_A, lead, JMARK_B, trail)
    return lead + "not xml " + JMARK_A + " <" + JMARK_B + trail          # the whole file is one XMLJunk


def junk_ws_file(fmt, recs, inserts, eof_newline=True):
    """render `recs`, with junk regions inserted before record index i for every (i, lead, trail) of `inserts`
    (i == len(recs): at the end)"""
    parts = [render_rec(fmt, r) for r in recs]
    by_pos = {}
    for i, lead, trail in inserts:
        by_pos.setdefault(i, []).append((lead, trail))
    out = []
    for i in range(len(parts) + 1):
        for lead, trail in by_pos.get(i, []):
            out.append(junk_line(fmt, lead, trail) if fmt != "android" else android_junk("element", lead, trail))
        if i < len(parts):
            out.append(parts[i])
    body = "".join(out)
    if fmt == "android":
        body = '<?xml version="1.0" encoding="utf-8"?>\n<resources>\n' + body + "</resources>\n"
    if not eof_newline:
        body = body.rstrip("\n")
    return body


def _lead_ok(fmt, recs, i, lead):
    """Fluent: an indented line after a message (also after blank lines) continues its value / last attribute, it is not junk:
    a blank-indented junk line is only generated at the file start or directly after a stand-alone comment"""
    if fmt != "ftl" or not lead or lead[0] != " ":
        return True
    return i == 0 or recs[i - 1].kind in ("comment", "license")


def gen_junkws_exhaustive(fmt):
    """every Unicode white-space character x {before, after, both ends of the junk} x {file start, between two
    records, after a standalone comment, after an attached comment's entity, file end} (+ no final newline at the end)"""
    cases = []
    head = [Rec("section", "Strings")] if fmt == "ini" else []
    ref = render_file(fmt, head + [Rec("ent", "k1", "ENk1"), Rec("ent", "k2", "ENk2", "note A")])
    recs = head + [Rec("ent", "k1", "OLDk1"), Rec("comment", comment="note B", extra=(fmt != "inc")),
                   Rec("ent", "k2", "OLDk2", "note A")]
    h = len(head)
    if fmt == "android":
        for c in UWS:
            for lead, trail in ((c, ""), ("", c), (c, c)):
                for new in ([], [["k1", "NEWk1", 0]]):
                    cases.append({"fmt": fmt, "ref": ref, "old": android_junk("file", lead, trail), "new_src": new, "junkws": "file"})
        for pos in (h, h + 1, h + 2, h + 3):
            cases.append({"fmt": fmt, "ref": ref, "old": junk_ws_file(fmt, recs, [(pos, UWS[pos], UWS[-pos - 1])]),
                          "new_src": [["k2", "NEWk2", 0]], "junkws": "element"})
        return cases
    for c in UWS:
        for lead, trail in ((c, ""), ("", c), (c, c)):
            for pos in (h, h + 1, h + 2, h + 3):
                for eof in ((True, False) if pos == h + 3 else (True,)):
                    for new in ([], [["k1", "NEWk1", 0], ["k2", None, 0]]):
                        cases.append({"fmt": fmt, "ref": ref, "old": junk_ws_file(fmt, recs, [(pos, lead, trail)], eof),
                                      "new_src": new, "junkws": "exh"})
    # the format's own white-space at the ends of the junk line
    for lead in [""] + FMT_WS[fmt]:
        for trail in [""] + FMT_WS[fmt]:
            for pos in (h, h + 1, h + 2, h + 3):
                if _lead_ok(fmt, recs, pos, lead):
                    cases.append({"fmt": fmt, "ref": ref, "old": junk_ws_file(fmt, recs, [(pos, lead, trail)]),
                                  "new_src": [], "junkws": "fmtws"})
    return cases


def gen_junkws_case(rng, fmt):
    """random files with 1-3 junk regions whose ends are Unicode / format white-space runs"""
    nref = rng.randrange(1, 5)
    rkeys = rng.sample(KEYS, nref)
    filtered = rng.random() < 0.5
    okeys = [k for k in rkeys if rng.random() < 0.7]
    obs = rng.sample(OBS, rng.choice([0, 0, 1]))
    recs = gen_file(rng, fmt, okeys, "OLD", COMMENT_TEXTS + ["l10n note"], filtered, False, obs)
    ref = gen_file(rng, fmt, rkeys, "EN", COMMENT_TEXTS, filtered, False)

    def ws_run(i, is_lead):
        r = rng.random()
        if r < 0.15:
            return ""
        if r < 0.8 or fmt == "android":
            return "".join(rng.choice(UWS) for _ in range(rng.choice([1, 1, 2])))
        run = "".join(rng.choice(FMT_WS[fmt] + UWS[:2]) for _ in range(rng.choice([1, 2])))
        return run if (not is_lead or _lead_ok(fmt, recs, i, run)) else ""

    inserts = []
    for _ in range(rng.choice([1, 1, 2, 3])):
        i = rng.choice([0, len(recs), rng.randrange(len(recs) + 1)])
        if fmt == "ini" and i == 0 and recs:
            i = 1 if rng.random() < 0.7 else 0
        inserts.append((i, ws_run(i, True), ws_run(i, False)))
    if fmt == "android" and rng.random() < 0.2:
        old_text = android_junk("file", ws_run(0, True), ws_run(0, False))
    else:
        old_text = junk_ws_file(fmt, recs, inserts, eof_newline=rng.random() < 0.8)
    new = []
    for k in rkeys + obs + UNK[:1]:
        r = rng.random()
        if r < (0.3 if k in rkeys else 0.1):
            new.append([k, pick_val(rng, fmt, "NEW" + k), rng.randrange(4)])
        elif r < (0.45 if k in rkeys else 0.2):
            new.append([k, None, 0])
    rng.shuffle(new)
    return {"fmt": fmt, "ref": render_file(fmt, ref), "old": old_text, "new_src": new, "junkws": "random"}


# ------------------------------------------------------------------ round 4: AndroidEntity.wrap / serialize_comment alone
WRAP_CHILDREN = ["EN text", " ", "\n    ", "<![CDATA[EN <b>c</b>]]>", "<![CDATA[]]>", "<b>EN</b>", "<!-- c -->", "<xliff:g id=\"1\">%s</xliff:g>",
                 "&amp;&lt;", "<?pi EN?>", "a &quot;q&quot; 'b'"]
WRAP_RAWS = ["NEW", "", "a & b", "x < y > z", "say \"hi\" 'there'", "]]>", "a ]]> b", "--", "a -- b", "é \u3000", "&amp;", "<b>x</b>", "\n  NEW\n"]


def gen_wrap_case(rng):
    """a one-entity strings.xml whose <string> has 0-4 child nodes of every class, optional attached comment, and a raw value"""
    n = rng.choice([0, 1, 1, 1, 2, 2, 3, 4])
    inner = "".join(rng.choice(WRAP_CHILDREN) for _ in range(n))
    attrs = rng.choice(["", ' translatable="false"', ' tools:x="a &amp; b"'])
    comment = rng.choice(["", "", "  <!-- note -->\n", "<!-- a --> <!-- b -->\n"])
    lead = rng.choice(["  ", "", "\n  "])
    body = "%s%s<string name=\"k\"%s>%s</string>\n" % (comment, lead, attrs, inner) if (n or rng.random() < 0.5) \
        else "%s%s<string name=\"k\"%s/>\n" % (comment, lead, attrs)
    text = '<?xml version="1.0" encoding="utf-8"?>\n<resources %s xmlns:tools="urn:t">\n%s</resources>\n' % (XLIFF, body)
    return {"text": text, "key": "k", "raw": rng.choice(WRAP_RAWS)}


COMMENT_CONTENTS = ["", "one line", "two\nlines", "gap\n\nbelow", "\n", "\nlead", "trail\n", "  indented", "é\u3000x", "a\n\n\nb", "#"]


# ------------------------------------------------------------------ round 4: directed layouts (coverage of the anchored parsers)
def gen_directed(fmt):
    """few hand-picked layouts the record generators do not produce: Fluent terms and messages without a value; Android comments
    at the very end of <resources> (with / without white-space after them) and a comment followed by a processing instruction"""
    cases = []
    if fmt == "ftl":
        ref = "-brand = ENbrand\n# note A\nk1 =\n    .attr = ENk1A\nk2 = ENk2\n"
        olds = ["", "-brand = OLDbrand\nk1 =\n    .attr = OLDk1A\n", "k2 = OLDk2\n-brand = OLDbrand\n    .gender = x\n"]
        news = [[], [["-brand", "-brand = NEWbrand", 0]], [["k1", "k1 =\n    .attr = NEWk1A", 0], ["-brand", None, 0]]]
        for old in olds:
            for new in news:
                cases.append({"fmt": fmt, "ref": ref, "old": old, "new_src": [list(n) for n in new], "directed": True, "raw_new": True})
    if fmt == "android":
        H = '<?xml version="1.0" encoding="utf-8"?>\n<resources>\n'
        bodies = ['  <string name="k1">%sk1</string>\n  <!-- tail -->\n</resources>\n',
                  '  <string name="k1">%sk1</string>\n  <!-- tail --></resources>\n',
                  '  <!-- c --><?pi x?>\n  <string name="k1">%sk1</string>\n</resources>\n',
                  '  <!-- a -->\n  <!-- b -->\n\n\n  <string name="k1">%sk1</string>\n  <!-- c -->\n  <?pi y?>\n</resources>\n']
        for rb in bodies:
            for ob in bodies + [None]:
                for new in ([], [["k1", "NEWk1", 0]]):
                    cases.append({"fmt": fmt, "ref": H + rb % "EN", "old": (H + ob % "OLD") if ob else "",
                                  "new_src": [list(n) for n in new], "directed": True})
    return cases

"""Adapters around the real orchestration layer of C10 — `compareProjects`, `ContentComparer.add/remove/compare`,
`CompareLocales.handle`, `extract_positionals`, `mozpath.relpath/abspath` — and the model inputs read off the real
objects; canonical forms of lean/CLModel/Ops/C10P.lean.

A generated project lives in `<parent>/R`; `<parent>` is cut off every path and every text, so that the model sees
the tree under `/R`."""
import io
import json
import os
import shutil
import sys
import tempfile
import warnings

warnings.filterwarnings("ignore")

from compare_locales import commands, mozpath, parser
from compare_locales.compare import content as content_mod
from compare_locales.compare.observer import Observer, ObserverList
from compare_locales.paths import File, ProjectFiles, TOMLParser, ProjectConfig
from compare_locales.paths.files import REFERENCE_LOCALE

from impl import observer as OB

SCRATCH = os.environ.get("VERIF_C10_SCRATCH", "/tmp/wt/c10/proj")
TESTS = ["android-dtd", "compare-extra", "t3"]        # = impl.projfiles.TESTS (ids of the `pfm.run` wire)


def enc(s):
    return "t:" + ",".join(str(ord(c)) for c in s)


def enc_opt(s):
    return "-" if s is None else enc(s)


def show_txt(t):
    return "t" + ".".join(str(ord(c)) for c in t)


def show_opt(t):
    return "-" if t is None else show_txt(t)


# ------------------------------------------------------------------ mozpath
def impl_rel(cwd, path, start):
    old = os.getcwd()
    os.chdir(cwd)
    try:
        try:
            r = show_txt(mozpath.relpath(path, start))
        except ValueError:
            r = "!ValueError"
        return r + " abs=" + show_txt(mozpath.abspath(path))
    finally:
        os.chdir(old)


# ------------------------------------------------------------------ a tree on disk
class Tree:
    def __init__(self, spec):
        os.makedirs(SCRATCH, exist_ok=True)
        self.parent = os.path.realpath(tempfile.mkdtemp(prefix="run-", dir=SCRATCH))
        self.root = self.parent + "/R"
        os.makedirs(self.root)
        for rel in spec.get("dirs", []):
            os.makedirs(os.path.join(self.root, rel), exist_ok=True)
        for rel, text in spec["files"].items():
            p = os.path.join(self.root, rel)
            os.makedirs(os.path.dirname(p), exist_ok=True)
            with open(p, "w", encoding="utf-8", newline="") as f:
                f.write(text)
        for rel, target in spec.get("symlinks", {}).items():
            p = os.path.join(self.root, rel)
            os.makedirs(os.path.dirname(p), exist_ok=True)
            os.symlink(target, p)

    def cut(self, s):
        return s if s is None else s.replace(self.parent, "")

    def arg(self, a, relative):
        """a command line argument naming something of the tree: absolute, or relative to the root (= cwd then)"""
        if a.startswith("!"):        # verbatim (a locale code, something that does not exist)
            return a[1:]
        return a if relative else (self.root + "/" + a if a else self.root)

    def close(self):
        shutil.rmtree(self.parent, ignore_errors=True)


class Capture(io.StringIO):
    def close(self):        # `handle` closes sys.stdout after writing the JSON to it
        pass


def usage_message(err):
    """the message of `parser.error(msg)`: argparse prints the usage and `<prog>: error: <msg>`"""
    mark = ": error: "
    i = err.rfind(mark)
    return None if i < 0 else err[i + len(mark):].rstrip("\n")


# ------------------------------------------------------------------ extract_positionals
def impl_pos(spec):
    """spec: {files, dirs, config_paths, base, locales, validate, relative}"""
    t = Tree(spec)
    old = os.getcwd()
    try:
        rel = bool(spec.get("relative"))
        os.chdir(t.root)
        cps = [t.arg(a, rel) for a in spec["config_paths"]]
        base = t.arg(spec["base"], rel)
        locs = [t.arg(a, rel) for a in spec["locales"]]
        allargs = cps + [base] + locs
        dirs = [a for a in allargs if os.path.isdir(a)]
        files = [a for a in allargs if os.path.isfile(a)]
        line = " ".join(["c10.pos", "1" if spec["validate"] else "0", "CWD", enc(t.cut(os.getcwd())),
                         "A", str(len(cps))] + [enc(t.cut(a)) for a in cps] + ["B", enc(t.cut(base)),
                         "L", str(len(locs))] + [enc(t.cut(a)) for a in locs] +
                        ["DIRS", str(len(dirs))] + [enc(t.cut(a)) for a in dirs] +
                        ["FILES", str(len(files))] + [enc(t.cut(a)) for a in files])
        err = io.StringIO()
        olderr, sys.stderr = sys.stderr, err
        try:
            try:
                c, b, l = commands.CompareLocales().extract_positionals(
                    validate=spec["validate"], config_paths=list(cps), l10n_base_dir=base, locales=list(locs))
                canon = "ok %s;%s;%s" % (",".join(show_txt(t.cut(x)) for x in c), show_txt(t.cut(b)),
                                         ",".join(show_opt(t.cut(x)) for x in l))
                plain = {"configs": [t.cut(x) for x in c], "base": t.cut(b), "locales": [t.cut(x) for x in l]}
            except SystemExit as e:
                msg = usage_message(err.getvalue())
                canon = "usage:" + show_txt(t.cut(msg)) if msg is not None else "exit:%r" % (e.code,)
                plain = {"usage": t.cut(msg), "code": e.code}
        finally:
            sys.stderr = olderr
        return {"canon": canon, "line": line, "plain": plain, "args": [t.cut(a) for a in allargs],
                "dirs": [t.cut(a) for a in dirs], "files": [t.cut(a) for a in files]}
    finally:
        os.chdir(old)
        t.close()


# ------------------------------------------------------------------ canonical text of observers / JSON data
def map_strings(x, f):
    if isinstance(x, str):
        return f(x)
    if isinstance(x, dict):
        return {(f(k) if isinstance(k, str) else k): map_strings(v, f) for k, v in x.items()}
    if isinstance(x, (list, tuple)):
        return type(x)(map_strings(v, f) for v in x)
    return x


def show_summary(s):
    return ";".join(OB.show_loc(loc) + ":" + ",".join(str(c[k]) for k in OB.STATKEYS) for loc, c in s.items())


def show_obs_json(j):
    """`Observer.toJSON()` (strings already cut)"""
    return "sum=%s det=%s" % (show_summary(j["summary"]), OB.show_json(j["details"], OB.show_detail))


def show_observer(o, cut):
    j = map_strings(o.toJSON(), cut)
    return "err=%d %s" % (1 if o.error else 0, show_obs_json(j))


def plain_observer(o, cut):
    j = map_strings(o.toJSON(), cut)
    return {"error": bool(o.error), "summary": {("" if k is None else k): dict(v) for k, v in j["summary"].items()},
            "none_locale": None in j["summary"], "details": j["details"]}


# ------------------------------------------------------------------ model inputs read off the real objects
def file_row(f):
    return (f.file, f.module, f.locale)


def wire_data(d):
    if d is None:
        return ["-"]
    if isinstance(d, (list, tuple)):
        return ["T", str(len(d))] + [enc_opt(p) for p in d]
    return [enc(d)]


def read_contents(t, name, path):
    """what `Parser.readFile` leaves in `ctx.contents` for that file, or `str(exception)`; None without a parser"""
    try:
        p = type(parser.getParser(name))()
    except UserWarning:
        return None
    try:
        p.readFile(path)
        return ["T", enc(p.ctx.contents)]
    except Exception as e:   # noqa
        return ["E", enc(t.cut(str(e)))]


def enumeration(t, loc, configs, merge):
    """(`TAB …` tokens, `PFM …` tokens or None, items) of `ProjectFiles(loc, configs, mergebase=merge)`"""
    try:
        files = ProjectFiles(loc, configs, mergebase=merge)
        items = list(files)
    except Exception as e:   # noqa
        return ["ERR", type(e).__name__], ["ERR", type(e).__name__], []
    toks = ["TAB", str(len(files.matchers))]
    for m in files.matchers:
        matched = [it[0] for it in items if m["l10n"].match(it[0]) is not None]
        toks += [enc(t.cut(m["l10n"].prefix)), enc_opt(m.get("module")), "1" if m.get("merge") is not None else "0",
                 str(len(matched))] + [enc(t.cut(p)) for p in matched]
    toks.append(str(len(items)))
    for l10n, ref, mrg, tests in items:
        toks += [enc(t.cut(l10n)), enc_opt(t.cut(ref)), enc_opt(t.cut(mrg)),
                 "t:" + ",".join(str(i) for i in sorted(TESTS.index(x) for x in tests))]
    return toks, None, items


def pfm_tokens(t, loc, configs, merge, fsfiles):
    """the enumeration as the input of the model of C13: pattern texts + the regular files in os.walk order"""
    from impl import projfiles as PFI
    try:
        line = PFI.model_line_m(configs, loc, merge, fsfiles, len(fsfiles), PFI.Strip(t.parent), t.parent, REFERENCE_LOCALE)
    except Exception:   # noqa
        return None
    if line is None or not line.startswith("pfm.run "):
        return None
    mods = []
    # matcher ids are handed out in the order of `model_line_m.conf`: l10n, reference, merge of every path rule
    n = [0]

    def walk(pc):
        for paths in pc.paths:
            l10n = n[0]
            n[0] += 1
            if "reference" in paths:
                n[0] += 1
            if merge is not None and loc is not None:
                n[0] += 1
            if paths.get("module"):
                mods.append((l10n, paths["module"]))
        for ch in pc.children:
            walk(ch)
        for ch in pc.excludes:
            walk(ch)

    for pc in configs:
        walk(pc)
    toks = ["PFM", line[len("pfm.run "):], "MOD", str(len(mods))]
    for i, m in mods:
        toks += [str(i), enc(m)]
    return toks


# ------------------------------------------------------------------ CompareLocales.handle
class Recorder:
    def __init__(self):
        self.cp = None              # arguments of compareProjects
        self.observers = None       # its return value
        self.calls = []
        self.queries = {}           # id(project) -> {(file row, fullpath, entity): result}
        self.env = None
        self.positionals = None
        self.dump = None
        self.load_error = None


def run_handle(spec):
    """materialise spec["files"], run the real `CompareLocales().handle(**args)` with recording wrappers around
    `compareProjects`, the `ContentComparer` methods, `ProjectConfig.filter`, `TOMLParser.parse`, `json_dump` and
    `extract_positionals`; return the canonical result, the model inputs (`c10.handle` lines) and plain data"""
    t = Tree(spec)
    a = spec["args"]
    rel = bool(spec.get("relative"))
    old_cwd = os.getcwd()
    rec = Recorder()
    cut = t.cut
    saved = []

    def patch(obj, name, new):
        saved.append((obj, name, getattr(obj, name)))
        setattr(obj, name, new)

    try:
        os.chdir(t.root)
        cps = [t.arg(x, rel) for x in a["config_paths"]]
        base = t.arg(a["l10n_base_dir"], rel)
        locs = list(a["locales"])
        merge = None if a.get("merge") is None else t.arg(a["merge"], rel)
        jarg = a.get("json")
        jpath = None if jarg is None else ("-" if jarg == "-" else t.arg(jarg, rel))
        allargs = cps + [base] + locs
        dirs = [x for x in allargs if os.path.isdir(x)]
        isfiles = [x for x in allargs if os.path.isfile(x)]
        cwd = os.getcwd()
        fsfiles = []
        for d, _dirs, files in os.walk(t.root):
            for f in files:
                fsfiles.append(mozpath.join(d, f))

        real_cp = commands.compareProjects

        def cp_wrapper(project_configs, locales, l10n_base_dir, *args, **kw):
            rec.cp = (list(project_configs), list(locales), l10n_base_dir, kw)
            rec.observers = real_cp(project_configs, locales, l10n_base_dir, *args, **kw)
            return rec.observers

        patch(commands, "compareProjects", cp_wrapper)

        def wrap_cc(kind):
            real = getattr(content_mod.ContentComparer, kind)

            def w(self, ref_file, l10n, merge_file, extra_tests=None):
                rec.calls.append((kind, ref_file.file, ref_file.module, ref_file.fullpath, l10n.file, l10n.locale,
                                  l10n.fullpath, merge_file, sorted(TESTS.index(x) for x in (extra_tests or []))))
                if kind == "compare":
                    return real(self, ref_file, l10n, merge_file, extra_tests)
                return real(self, ref_file, l10n, merge_file)
            return w

        for kind in ("add", "remove", "compare"):
            patch(content_mod.ContentComparer, kind, wrap_cc(kind))
        real_filter = ProjectConfig.filter

        def filter_wrapper(self, l10n_file, entity=None):
            rv = real_filter(self, l10n_file, entity=entity)
            rec.queries.setdefault(id(self), {})[(file_row(l10n_file), l10n_file.fullpath,
                                                 tuple(entity) if isinstance(entity, list) else entity)] = rv
            return rv

        patch(ProjectConfig, "filter", filter_wrapper)
        real_parse = TOMLParser.parse

        def parse_wrapper(self, path, env=None, ignore_missing_includes=False):
            if rec.env is None:
                rec.env = list((env or {}).items())
            try:
                return real_parse(self, path, env=env, ignore_missing_includes=ignore_missing_includes)
            except commands.ConfigNotFound as e:
                rec.load_error = e.filename
                raise

        patch(TOMLParser, "parse", parse_wrapper)
        real_pos = commands.CompareLocales.extract_positionals

        def pos_wrapper(self, **kw):
            rec.positionals = real_pos(self, **kw)
            return rec.positionals

        patch(commands.CompareLocales, "extract_positionals", pos_wrapper)
        out, err = Capture(), io.StringIO()
        real_dump = commands.json_dump

        def dump_wrapper(data, fh, **kw):
            rec.dump = {"data": data, "stdout": fh is sys.stdout, "kw": kw,
                        "at": len(out.getvalue())}
            return real_dump(data, fh, **kw)

        patch(commands, "json_dump", dump_wrapper)
        parser.Junk.junkid = spec.get("junk", 0)
        old_out, old_err = sys.stdout, sys.stderr
        sys.stdout, sys.stderr = out, err
        outcome = None
        exc_info = None
        try:
            try:
                rc = commands.CompareLocales().handle(
                    quiet=a.get("quiet", 0), validate=bool(a.get("validate")), merge=merge, config_paths=list(cps),
                    l10n_base_dir=base, locales=list(locs), defines=list(a.get("defines", [])), full=bool(a.get("full")),
                    return_zero=bool(a.get("return_zero")), clobber=bool(a.get("clobber")), json=jpath)
                outcome = "returned:%d" % rc
            except SystemExit as e:
                msg = usage_message(err.getvalue())
                if msg is not None:
                    outcome = "usage:" + show_txt(cut(msg))
                elif isinstance(e.code, str):
                    outcome = "exit:" + show_txt(cut(e.code))
                else:
                    outcome = "exit:%d" % (e.code or 0)
            except Exception as e:   # noqa
                import traceback
                tb = traceback.extract_tb(e.__traceback__)
                outcome = "raise:" + ("OSError" if isinstance(e, OSError) else type(e).__name__)
                exc_info = {"exc": type(e).__name__, "msg": cut(str(e))[:300],
                            "where": ["%s:%s:%s" % (os.path.basename(f.filename), f.lineno, f.name) for f in tb[-3:]]}
        finally:
            sys.stdout, sys.stderr = old_out, old_err
            for obj, name, val in reversed(saved):
                setattr(obj, name, val)
            saved.clear()
        stdout_all = out.getvalue()
        at = rec.dump["at"] if (rec.dump and rec.dump["stdout"]) else len(stdout_all)
        printed = cut(stdout_all[:at])
        json_text = stdout_all[at:] if (rec.dump and rec.dump["stdout"]) else None
        if rec.dump and not rec.dump["stdout"] and jpath not in (None, "-"):
            try:
                json_text = open(jpath).read()
            except OSError:
                json_text = None
        # ---------------- canonical result
        canon = "outcome=" + outcome
        if rec.positionals is None:
            canon += " |pos=-"
        else:
            c, b, l = rec.positionals
            canon += " |pos=%s;%s;%s" % (",".join(show_txt(cut(x)) for x in c), show_txt(cut(b)), ",".join(show_opt(x) for x in l))
        env_known = rec.env is not None or rec.positionals is None
        canon += " |env=" + ";".join(show_txt(k) + "=" + show_txt(cut(v)) for k, v in (rec.env or []))
        canon += " |out=" + show_txt(printed)
        if rec.dump is None:
            canon += " |json=-"
        else:
            data = map_strings(rec.dump["data"], cut)
            canon += " |json=%s%s" % ("stdout:" if rec.dump["stdout"] else "file:", " & ".join(show_obs_json(j) for j in data))
        returned = outcome.startswith("returned:")
        if rec.observers is not None:
            canon += " |calls=" + ";".join(
                "%s:%s,%s,%s,%s,%s,%s,%s,t:%s" % (k, show_opt(rf), show_opt(rm), show_opt(cut(rfull)), show_opt(lf), show_opt(ll),
                                                show_txt(cut(lfull)), show_opt(cut(mf)), ",".join(str(i) for i in tests))
                for k, rf, rm, rfull, lf, ll, lfull, mf, tests in rec.calls)
            canon += " |L " + show_observer(rec.observers, cut)
            for o in rec.observers:
                canon += " |O " + show_observer(o, cut)
        else:
            canon += " |calls=-"
        # ---------------- the model input
        head = ["c10.handle", "Q", str(a.get("quiet", 0)), "V", "1" if a.get("validate") else "0",
                "FULL", "1" if a.get("full") else "0", "RZ", "1" if a.get("return_zero") else "0",
                "CL", "1" if a.get("clobber") else "0", "JK", str(spec.get("junk", 0)),
                "MERGE", enc_opt(cut(merge)), "JSON", enc_opt(cut(jpath)), "CWD", enc(cut(cwd)),
                "A", str(len(cps))] + [enc(cut(x)) for x in cps] + ["B", enc(cut(base)), "L", str(len(locs))] + \
               [enc(x) for x in locs] + ["D", str(len(a.get("defines", [])))] + [enc(x) for x in a.get("defines", [])] + \
               ["DIRS", str(len(dirs))] + [enc(cut(x)) for x in dirs] + ["FILES", str(len(isfiles))] + [enc(cut(x)) for x in isfiles]
        # ConfigNotFound(name) raised by TOMLParser().parse: an INPUT of the model
        head += ["LOAD", enc_opt(cut(rec.load_error) if rec.cp is None else None)]
        tab = list(head)
        pfm = list(head)
        notes = {}
        if rec.cp is None:
            tail = ["P", "0", "X", "0", "MD", "0", "C", "0", "E", "0"]
            tab += tail
            pfm = None
        else:
            configs, cp_locales, cp_base, cp_kw = rec.cp
            cand = []
            for x in list(cp_locales) + [l for pc in configs for l in pc.all_locales]:
                if x not in cand:
                    cand.append(x)
            enums = {}
            for loc in cand:
                enums[loc] = enumeration(t, loc, configs, merge)
            items = [it for loc in cand for it in enums[loc][2]]
            # projects: all_locales + the filter as a table
            ptoks = ["P", str(len(configs))]
            fullpaths = {}
            for pc in configs:
                rows = {}
                for (frow, full, ent), rv in rec.queries.get(id(pc), {}).items():
                    rows[(frow, ent)] = rv
                    fullpaths.setdefault(frow, set()).add(full)
                als = [x for x in pc.all_locales if x is not None]      # --full --validate: set_locales([None])
                ptoks += [str(len(als))] + [enc(x) for x in als]
                good = [(fr, ent, rv) for (fr, ent), rv in rows.items() if fr[0] is not None]
                ptoks += ["FT", str(len(good))]
                for (ff, fm, fl), ent, rv in good:
                    # (messages carry paths: the temporary parent is cut off them like off everything else)
                    ptoks += [enc(cut(ff)), enc_opt(fm), enc_opt(fl)] + wire_data(map_strings(ent, cut)) + [rv[0]]
            notes["fullpath_not_function_of_file"] = sum(1 for v in fullpaths.values() if len(v) > 1)
            paths = []
            for l10n, ref, mrg, tests in items:
                for p in (l10n, ref):
                    if p is not None and p not in paths:
                        paths.append(p)
            existing = [p for p in paths if os.path.exists(p)]
            xtoks = ["X", str(len(existing))] + [enc(cut(p)) for p in existing]
            md = []
            for l10n, ref, mrg, tests in items:
                if mrg and mrg not in [m for m, _ in md]:
                    try:
                        os.makedirs(mozpath.dirname(mrg), exist_ok=True)
                    except OSError as e:
                        md.append((mrg, str(e)))
            mdtoks = ["MD", str(len(md))]
            for m, msg in md:
                mdtoks += [enc(cut(m)), enc(cut(msg))]
            cont = []
            for p in paths:
                c = read_contents(t, mozpath.basename(p), p)
                if c is not None:
                    cont.append([enc(cut(p))] + c)
            ctoks = ["C", str(len(cont))] + [x for c in cont for x in c]
            etab = ["E", str(len(cand))]
            epfm = ["E", str(len(cand))]
            pfm_ok = True
            for loc in cand:
                etab += [enc_opt(loc)] + enums[loc][0]
                if enums[loc][0][0] == "ERR":
                    epfm += [enc_opt(loc)] + enums[loc][0]
                else:
                    pt = pfm_tokens(t, loc, configs, merge, fsfiles)
                    if pt is None:
                        pfm_ok = False
                    else:
                        epfm += [enc_opt(loc)] + pt
            tab += ptoks + xtoks + mdtoks + ctoks + etab
            pfm = (pfm + ptoks + xtoks + mdtoks + ctoks + epfm) if pfm_ok else None
        plain = {
            "outcome": outcome, "exc": exc_info, "stdout": printed, "stderr": cut(err.getvalue())[-400:],
            "json_text_ok": None, "calls": [[c[0], cut(c[6]), None if c[3] is None else cut(c[3])] for c in rec.calls],
            "env_known": env_known,
        }
        if rec.dump is not None:
            data = map_strings(rec.dump["data"], cut)
            plain["json"] = [{"summary": {("" if k is None else k): dict(v) for k, v in j["summary"].items()},
                              "details": j["details"]} for j in data]
            plain["json_to_stdout"] = rec.dump["stdout"]
            plain["json_kw"] = {k: v for k, v in rec.dump["kw"].items()}
            try:
                parsed = json.loads(json_text) if json_text is not None else None
                want = json.loads(json.dumps(rec.dump["data"], sort_keys=True))
                plain["json_text_ok"] = parsed == want
                plain["json_text_tail_newline"] = bool(json_text) and json_text.endswith("\n")
            except Exception as e:   # noqa
                plain["json_text_ok"] = False
        if rec.observers is not None:
            plain["list"] = plain_observer(rec.observers, cut)
            plain["obs"] = [plain_observer(o, cut) for o in rec.observers]
            plain["filters"] = [o.filter is not None for o in rec.observers]
        return {"canon": canon, "tab": " ".join(tab), "pfm": None if pfm is None else " ".join(pfm), "plain": plain,
                "notes": notes}
    finally:
        for obj, name, val in reversed(saved):
            setattr(obj, name, val)
        os.chdir(old_cwd)
        t.close()

"""C13, legacy l10n.ini route: materialise a generated tree of l10n.ini files (+ filter.py, all-locales, source and l10n files),
run the REAL `EnumerateApp(...).asConfig()` / `EnumerateSourceTreeApp`, canonicalise the resulting ProjectConfig (same text as
`cldriver c13.ini.config`), enumerate it with the real ProjectFiles, and judge both with an oracle that knows the expected
rules and covered files by construction."""
import os
import shutil
import tempfile
import warnings

warnings.filterwarnings("ignore")

SCRATCH = "/tmp/wt/c13"
TESTS = ["android-dtd", "compare-extra", "t3"]


def enc(s):
    return "t:" + ",".join(str(ord(c)) for c in s)


def opt(x):
    return "-" if x is None else enc(x)


def ini_text(d):
    """d = {"depth": str|None, "all": str|None, "includes": [(title, path)]|None, "dirs": str|None, "details": {title: (mozilla, ini)}}"""
    out = []
    if d.get("depth") is not None or d.get("all") is not None:
        out.append("[general]")
        if d.get("depth") is not None:
            out.append("depth = %s" % d["depth"])
        if d.get("all") is not None:
            out.append("all = %s" % d["all"])
    if d.get("dirs") is not None:
        out.append("[compare]")
        out.append("dirs = " + d["dirs"].replace("\n", "\n   "))
    if d.get("includes") is not None:
        out.append("[includes]")
        for t, p in d["includes"]:
            out.append("%s = %s" % (t, p))
    for t, (moz, ini) in d.get("details", {}).items():
        out.append("[include_%s]" % t)
        out.append("mozilla = %s" % moz)
        out.append("l10n.ini = %s" % ini)
    return "\n".join(out) + "\n"


def doc_tokens(path):
    """what the code asks a ConfigParser about this file, read with the real configparser"""
    from configparser import ConfigParser, NoSectionError, NoOptionError
    cp = ConfigParser()
    cp.read(path)

    def get(sec, o):
        try:
            return cp.get(sec, o)
        except (NoSectionError, NoOptionError):
            return None
    try:
        incs = list(cp.items("includes"))
    except NoSectionError:
        incs = None
    det = []
    for sec in cp.sections():
        if sec.startswith("include_") and cp.has_option(sec, "mozilla") and cp.has_option(sec, "l10n.ini"):
            det.append((sec[len("include_"):], cp.get(sec, "mozilla"), cp.get(sec, "l10n.ini")))
    toks = [opt(get("general", "depth")), opt(get("general", "all"))]
    if incs is None:
        toks.append("-")
    else:
        toks.append(str(len(incs)))
        for t, p in incs:
            toks += [enc(t), enc(p)]
    toks.append(opt(get("compare", "dirs")))
    toks.append(str(len(det)))
    for a, b, c in det:
        toks += [enc(a), enc(b), enc(c)]
    return toks


def walk_files(root):
    out = []
    for d, dirs, fs in os.walk(root):
        for f in fs:
            out.append(os.path.join(d, f).replace(os.sep, "/"))
    return out


def write_case(root, case):
    for rel, d in case["inis"].items():
        if d is None:
            continue
        p = os.path.join(root, rel)
        os.makedirs(os.path.dirname(p), exist_ok=True)
        with open(p, "w") as f:
            f.write(ini_text(d).replace("@R@", root))
    for rel in case.get("filters", []):
        p = os.path.join(root, rel, "filter.py")
        os.makedirs(os.path.dirname(p), exist_ok=True)
        with open(p, "w") as f:
            f.write("def test(mod, path, entity=None):\n    return mod != %r\n" % rel)
    for rel in case.get("bad_filters", []):
        p = os.path.join(root, rel, "filter.py")
        os.makedirs(os.path.dirname(p), exist_ok=True)
        with open(p, "w") as f:
            f.write("test = 3\n" if len(rel) % 2 else "def test(:\n")
    for rel, text in case.get("locales_files", {}).items():
        p = os.path.join(root, rel)
        os.makedirs(os.path.dirname(p), exist_ok=True)
        with open(p, "w") as f:
            f.write(text)
    for rel in case.get("files", []):
        p = root + rel
        os.makedirs(os.path.dirname(p), exist_ok=True)
        with open(p, "w") as f:
            f.write("k = v\n")


def world_tokens(root, case):
    """the world for the model, read with the real configparser / parseLocales from the files as they are NOW"""
    from compare_locales import util
    fl = case.get("flavour")
    inifiles = [p for p in walk_files(root) if p.endswith(".ini")]
    wt = ["P"] if fl is None else (["T", enc(os.path.join(root, fl["base"])), str(len(fl["redirects"]))] +
                                   [x for k, v in fl["redirects"].items() for x in (enc(k), enc(v))])
    wt += [enc(os.getcwd()), "W", str(len(inifiles))]
    for p in inifiles:
        wt.append(enc(p))
        wt += doc_tokens(p)
    fdirs = []
    for p in inifiles:
        fp = os.path.join(os.path.dirname(p), "filter.py")
        try:
            loc = {}
            with open(fp) as f:
                exec(compile(f.read(), fp, "exec"), {}, loc)
            if "test" in loc and callable(loc["test"]):
                fdirs.append(p)
        except BaseException:
            pass
    wt += ["FL", str(len(fdirs))] + [enc(p) for p in fdirs]
    lfiles = [p for p in walk_files(root) if os.path.basename(p) in ("all-locales", "locales.txt")]
    wt += ["LO", str(len(lfiles))]
    for p in lfiles:
        ls = util.parseLocales(open(p).read())
        wt += [enc(p), str(len(ls))] + [enc(x) for x in ls]
    return wt


def new_app(root, case):
    from compare_locales.paths import EnumerateApp, EnumerateSourceTreeApp
    top = os.path.join(root, case["top"])
    l10nbase = os.path.join(root, case["l10nbase"])
    fl = case.get("flavour")
    if fl is None:
        return EnumerateApp(top, l10nbase)
    return EnumerateSourceTreeApp(top, os.path.join(root, fl["base"]), l10nbase, dict(fl["redirects"]))


def as_config(root, case, get_app):
    """(pc|None, canonical text, violations) of `get_app().asConfig()`"""
    from impl import tomlcfg as TCF
    vio = []
    pc = None
    try:
        pc = get_app().asConfig()
        fp = None
        hits = []
        if pc.filter_py is not None:
            hits = [rel for rel in case.get("filters", []) if pc.filter_py(rel, "x") == "ignore"]
            fp = os.path.normpath(os.path.join(root, hits[0])) if hits else "?"
        want = case.get("expect", {}).get("filter_dir")
        if "expect" in case and not case["expect"].get("error") and hits[:1] != ([want] if want is not None else []):
            vio.append("l10n.ini %s: filter_py comes from the filter.py in %r, expected the first one in getFilters order "
                       "(own directory, then the includes depth first): %r" % (case["top"], hits[:1], want))
        impl = TCF.canon_pc(pc) + " FP " + opt(fp)
    except RecursionError:
        impl = "err:RecursionError"
    except FileNotFoundError as e:
        impl = "err:FileNotFoundError " + enc(e.filename)
    except Exception as e:    # noqa
        impl = "err:" + type(e).__name__
    return pc, impl, vio


def enumerate_config(root, case, pc, wt, order, out):
    """ProjectFiles(loc, [pc]) for every locale of `order`: canonical results, `c13.ini.run` lines, oracle"""
    from compare_locales.paths import ProjectFiles
    from compare_locales import mozpath
    from impl.projfiles import fmt_item, Strip
    top = os.path.join(root, case["top"])
    l10nbase = os.path.join(root, case["l10nbase"])
    strip = Strip(root)
    fsfiles = []
    for d, dirs, files in os.walk(root):
        for f in files:
            fsfiles.append(mozpath.join(d, f))
    universe = fsfiles + [root + p for p in case.get("lookups", []) if root + p not in fsfiles]
    mbase = root + "/merge" if case.get("mergebase") else None
    for loc in order:
        mb = mbase if loc is not None else None
        try:
            pf = ProjectFiles(loc, [pc], mergebase=mb)
            items = [[strip(a), strip(b), strip(c), sorted(t)] for a, b, c, t in pf]
            looks = []
            for p in universe:
                m = pf.match(p)
                looks.append(None if m is None else [strip(m[0]), strip(m[1]), strip(m[2]), sorted(m[3])])
            canon = "ok|" + ";".join(fmt_item(i) for i in items) + "|" + ";".join("None" if l is None else fmt_item(l) for l in looks)
            out["violations"] += check_enum(case, loc, items)
        except (RuntimeError, AttributeError, TypeError) as e:
            canon = "err:" + type(e).__name__
        out["rimpl"].append(canon)
        out["locales"].append(loc)
        out["rlines"].append(" ".join(
            ["c13.ini.run"] + wt + [enc(top), enc(l10nbase), "-" if loc is None else enc(loc), "-" if mb is None else enc(mb),
                                    "S", str(len(universe))] + [enc(p) for p in universe] +
            ["U", str(len(universe))] + [str(i) for i in range(len(universe))] +
            ["F", str(len(fsfiles)), "TT", str(len(TESTS))] + [enc(t) for t in TESTS] + [enc(root)]))


def run_ini(case):
    """case = {"inis": {rel: doc|None}, "filters": [rel dir], "locales_files": {rel: text}, "files": [rel], "top": rel,
               "l10nbase": rel, "flavour": None | {"base": rel, "redirects": {..}}, "locales": [...], "mergebase": bool,
               "expect": {...}}"""
    import logging
    logging.disable(logging.CRITICAL)
    os.makedirs(SCRATCH, exist_ok=True)
    root = os.path.realpath(tempfile.mkdtemp(prefix="ini-", dir=SCRATCH))
    try:
        write_case(root, case)
        top = os.path.join(root, case["top"])
        l10nbase = os.path.join(root, case["l10nbase"])
        wt = world_tokens(root, case)
        out = {"root": root, "violations": [], "rlines": [], "rimpl": [], "locales": []}
        out["line"] = " ".join(["c13.ini.config"] + wt + [enc(top), enc(l10nbase)])
        pc, impl, vio = as_config(root, case, lambda: new_app(root, case))
        out["violations"] += vio
        out["impl"] = impl.replace(root, "@R@")
        out["violations"] += check_config(case, root, pc, impl)
        if pc is None:
            return out
        enumerate_config(root, case, pc, wt, case["locales"] + [None], out)
        return out
    finally:
        shutil.rmtree(root, ignore_errors=True)


# ---------------------------------------------------------------- application sessions
def run_ini_session(sess):
    """sess = {"steps": [case, ...], "reuse": [bool, ...]}: the steps are written one after the other into ONE directory; step k
    calls `asConfig()` on the EnumerateApp object of step k-1 when `reuse[k]` (the generator sets it only when the l10n.ini
    files, the top file and the l10n base are unchanged — `self.config` is loaded by the constructor), else on a new object.
    Every step is judged by its own by-construction expectation, a re-used application also by a fresh one; the
    configurations returned earlier must stay what they were."""
    import logging
    logging.disable(logging.CRITICAL)
    from impl import tomlcfg as TCF
    from impl.projfiles import wipe
    os.makedirs(SCRATCH, exist_ok=True)
    root = os.path.realpath(tempfile.mkdtemp(prefix="inis-", dir=SCRATCH))
    try:
        app = [None]
        held = []            # (step, pc, canonical text when returned)
        steps = []
        runs = []            # one entry per application object: {"head": tokens, "worlds": [...], "impl": [...]}
        for k, case in enumerate(sess["steps"]):
            wipe(root)
            write_case(root, case)
            wt = world_tokens(root, case)
            out = {"root": root, "violations": [], "rlines": [], "rimpl": [], "locales": []}
            reuse = bool(sess["reuse"][k]) and app[0] is not None

            def get_app():
                if not reuse:
                    app[0] = None
                    app[0] = new_app(root, case)
                return app[0]
            pc, impl, vio = as_config(root, case, get_app)
            out["violations"] += vio + check_config(case, root, pc, impl)
            out["impl"] = impl.replace(root, "@R@")
            if reuse:
                fpc, fimpl, _ = as_config(root, case, lambda: new_app(root, case))
                if fimpl != impl:
                    out["violations"].append("asConfig() on the RE-USED EnumerateApp object differs from a fresh EnumerateApp on the same files: "
                                             "re-used %s, fresh %s" % (TCF.canon_readable(impl).replace(root, "")[:500], TCF.canon_readable(fimpl).replace(root, "")[:500]))
            if not reuse or not runs:
                top = os.path.join(root, case["top"])
                runs.append({"head": wt + [enc(top), enc(os.path.join(root, case["l10nbase"]))], "worlds": [], "impl": [],
                             "dead": app[0] is None})
            runs[-1]["worlds"].append(wt)
            runs[-1]["impl"].append(impl.replace(root, "@R@"))
            if pc is not None:
                order = case.get("order") or (case["locales"] + [None])
                enumerate_config(root, case, pc, wt, order, out)
                held.append((k, pc, TCF.canon_pc(pc)))
            for j, old, canon in held:
                now = TCF.canon_pc(old)
                if now != canon:
                    out["violations"].append("the ProjectConfig returned by asConfig() in step %d changed while the caller held it (after step %d): "
                                             "it reads %s, it was %s" % (j, k, TCF.canon_readable(now).replace(root, "")[:400], TCF.canon_readable(canon).replace(root, "")[:400]))
            held = [(j, old, TCF.canon_pc(old)) for j, old, _ in held]
            out["violations"] = ["session step %d (%s application): %s" % (k, "re-used" if reuse else "new", v) for v in out["violations"]]
            steps.append(out)
        slines, simpl = [], []
        for r in runs:
            if r["dead"] and len(r["impl"]) == 1 and r["impl"][0].startswith("err:"):
                # the constructor raised: nothing to call asConfig() on; the stateless stream covers it
                continue
            slines.append(" ".join(["c13.ini.session"] + r["head"] + [str(len(r["worlds"]))] + [t for w in r["worlds"] for t in w]))
            simpl.append(" ## ".join(r["impl"]))
        return {"steps": steps, "slines": slines, "simpl": simpl, "root": root}
    finally:
        shutil.rmtree(root, ignore_errors=True)


# ---------------------------------------------------------------- oracle, by construction
def expected_dirs(case):
    """[(base dir relative to the root, module)] in the order `directories()` yields them, from the description"""
    return [tuple(x) for x in case["expect"]["dirs"]]


def check_config(case, root, pc, impl):
    exp = case.get("expect")
    if exp is None:
        return []
    msgs = []
    if exp.get("error"):
        if pc is not None or not impl.startswith("err:" + exp["error"]):
            msgs.append("l10n.ini %s: expected %s, got %s" % (case["top"], exp["error"], "a configuration" if pc is not None else impl[:80]))
        return msgs
    if pc is None:
        return ["l10n.ini %s: asConfig raised %s, expected a configuration" % (case["top"], impl[:80])]
    want = expected_dirs(case)
    if len(pc.paths) != len(want):
        msgs.append("l10n.ini %s: %d path rules, expected one per `dirs` entry of the file and its includes: %r" % (case["top"], len(pc.paths), want))
        return msgs
    import posixpath
    for d, (base, module) in zip(pc.paths, want):
        l10n = posixpath.normpath("{l10n_base}/{locale}/%s/**" % module)
        ref = posixpath.normpath(posixpath.join(root, base, module, "locales/en-US/**"))
        got = (str(d["l10n"].pattern and "".join(map(str_node, d["l10n"].pattern))), "".join(map(str_node, d["reference"].pattern)), d.get("module"),
               d.get("test"))
        exp_t = (l10n, ref, module, ["android-dtd"] if module == "mobile/android/base" else None)
        if got != exp_t:
            msgs.append("l10n.ini %s: directory %s gives the rule %r, expected %r" % (case["top"], module, got, exp_t))
    if pc.locales != exp["locales"] or pc.children or pc.excludes or pc.path is not None or pc.root is not None:
        msgs.append("l10n.ini %s: locales/children/excludes/path/root = %r, expected %r, [], [], None, None" % (
            case["top"], (pc.locales, len(pc.children), len(pc.excludes), pc.path, pc.root), exp["locales"]))
    if dict(pc.environ) != {"l10n_base": os.path.join(root, case["l10nbase"])}:
        msgs.append("l10n.ini %s: environ is %r" % (case["top"], dict(pc.environ)))
    if (pc.filter_py is not None) != bool(exp.get("filter")):
        msgs.append("l10n.ini %s: filter_py is %s, expected %s" % (case["top"], "set" if pc.filter_py is not None else "None", exp.get("filter")))
    return msgs


def str_node(n):
    from compare_locales.paths import matcher as MM
    if isinstance(n, MM.AndroidLocale):
        return "{android_locale}"
    if isinstance(n, MM.Variable):
        return "{%s}" % n.name
    if isinstance(n, MM.Starstar):
        return "**" + n.suffix
    if isinstance(n, MM.Star):
        return "*"
    return str(n)


def check_enum(case, loc, items):
    """every file below <l10nbase>/<loc>/<module>/ or <base>/<module>/locales/en-US/ of a configured directory, once, sorted,
    an existing localized file paired with the reference of the LAST directory (in `directories()` order) covering it"""
    exp = case.get("expect")
    if exp is None or exp.get("error"):
        return []
    msgs = []
    dirs = expected_dirs(case)
    files = set(case.get("files", []))
    paths = [i[0] for i in items]
    if any(not (a < b) for a, b in zip(paths, paths[1:])):
        msgs.append("ini enumeration (locale %s): paths not strictly increasing: %r" % (loc, paths))
    got = {i[0]: i for i in items}
    lb = "/" + case["l10nbase"].strip("/")

    def norm(p):
        import posixpath
        return posixpath.normpath(p)

    if loc is None:
        want = {}
        for base, module in dirs:
            pre = norm(posixpath.join("/", base, module, "locales/en-US")) + "/"
            for f in sorted(files):
                if f.startswith(pre):
                    want[f] = True
        for p in paths:
            if p not in want:
                msgs.append("ini validation mode yields %s which no configured directory covers" % p)
        for p in want:
            if p not in got:
                msgs.append("ini validation mode: reference file %s is covered but not enumerated" % p)
            elif got[p][1] != p:
                msgs.append("ini validation mode: %s is paired with %r" % (p, got[p][1]))
        return msgs
    if loc not in (exp["locales"] or []):
        if items:
            msgs.append("ini enumeration: locale %s is not in all-locales but %d items are yielded" % (loc, len(items)))
        return msgs
    want = {}
    for base, module in dirs:
        lpre = norm("%s/%s/%s" % (lb, loc, module)) + "/"
        rpre = norm(posixpath.join("/", base, module, "locales/en-US")) + "/"
        for f in sorted(files):
            if f.startswith(lpre):
                want.setdefault(f, {"l": [], "r": []})["l"].append((lpre, rpre))
            if f.startswith(rpre):
                want.setdefault(lpre + f[len(rpre):], {"l": [], "r": []})["r"].append(f)
    for p in paths:
        if p not in want:
            msgs.append("ini enumeration (locale %s) yields %s which no configured directory covers" % (loc, p))
    for p, w in want.items():
        if p not in got:
            msgs.append("ini enumeration (locale %s): %s is covered (%s side) but not enumerated" % (loc, p, "l10n" if w["l"] else "reference"))
            continue
        if w["l"]:
            lpre, rpre = w["l"][-1]
            if got[p][1] != rpre + p[len(lpre):]:
                msgs.append("ini enumeration (locale %s): %s is paired with %r, expected the reference of the last directory covering it, %r" % (
                    loc, p, got[p][1], rpre + p[len(lpre):]))
        elif got[p][1] not in w["r"]:
            msgs.append("ini enumeration (locale %s): %s is paired with %r, expected one of %r" % (loc, p, got[p][1], w["r"]))
    return msgs


# ---------------------------------------------------------------- generator
import posixpath

INIS = [("browser/locales/l10n.ini", "../.."), ("toolkit/locales/l10n.ini", "../.."), ("mobile/android/locales/l10n.ini", "../../.."),
        ("mail/locales/l10n.ini", "../.."), ("l10n.ini", None), ("sub/l10n.ini", "..")]
MODULES = ["browser", "browser/branding", "toolkit", "dom", "mobile/android/base", "mobile/android", "devtools/client", "mail"]
NAMES = ["a.ftl", "sub/b.ftl", "c.properties", "branding/x.dtd", "base/y.dtd"]
LOCALES = ["de", "fr", "ja"]


def describe(case):
    """expected [(base, module)] in `directories()` order, or an error name — from the description alone"""
    inis = case["inis"]
    fl = case.get("flavour")

    def walk(ini, stack):
        if ini in stack:
            raise RecursionError()
        doc = inis.get(ini)
        if doc is None:
            return []
        base = posixpath.normpath(posixpath.join(posixpath.dirname(ini), doc.get("depth") or "."))
        out = [("" if base == "." else base, d) for d in (doc.get("dirs") or "").split()]
        for title, path in (doc.get("includes") or []):
            det = (doc.get("details") or {}).get(title)
            if fl is not None and det is not None:
                child = posixpath.join(base, fl["redirects"].get(det[0], det[0]), det[1])
            else:
                child = posixpath.join(base, path)
            out += walk(posixpath.normpath(child), stack + [ini])
        return out

    return walk(posixpath.normpath(case["top"]), [])


def finish_case(case):
    exp = {}
    try:
        exp["dirs"] = describe(case)
    except RecursionError:
        exp["error"] = "RecursionError"
    top = case["inis"].get(case["top"]) or {}
    if "error" not in exp:
        if top.get("all") is None:
            exp["error"] = "TypeError"
        else:
            base = posixpath.normpath(posixpath.join(posixpath.dirname(case["top"]), top.get("depth") or "."))
            ap = posixpath.normpath(posixpath.join(base, top["all"]))
            text = case.get("locales_files", {}).get(ap)
            if text is None:
                exp["error"] = "FileNotFoundError"
            else:
                exp["locales"] = sorted(line.split()[0] for line in text.splitlines() if line)
    # which filter.py: the first in getFilters order (own, then the includes depth first)
    if "error" not in exp:
        order = []

        def visit(ini, fl=case.get("flavour")):
            order.append(posixpath.dirname(ini) or ".")
            doc = case["inis"].get(ini)
            if doc is None:
                return
            base = posixpath.normpath(posixpath.join(posixpath.dirname(ini), doc.get("depth") or "."))
            for title, path in (doc.get("includes") or []):
                det = (doc.get("details") or {}).get(title)
                if fl is not None and det is not None:
                    child = posixpath.join(base, fl["redirects"].get(det[0], det[0]), det[1])
                else:
                    child = posixpath.join(base, path)
                visit(posixpath.normpath(child))
        visit(posixpath.normpath(case["top"]))
        exp["filter"] = any(d in case.get("filters", []) for d in order)
        exp["filter_dir"] = next((d for d in order if d in case.get("filters", [])), None)
    case["expect"] = exp
    return case


def gen_ini(rng):
    k = rng.choice([1, 2, 2, 3, 3, 4])
    chosen = rng.sample(INIS, k)
    prefix = ""
    flavour = None
    if rng.random() < 0.25:
        flavour = {"base": "", "redirects": rng.choice([{}, {"mozilla-central": "mc"}, {"other": "zz"}])}
    inis = {}
    names = [c[0] for c in chosen]
    for i, (ini, depth) in enumerate(chosen):
        seps = rng.choice([" ", " ", "\n", "\t", "  "])
        dirs = seps.join(rng.sample(MODULES, rng.randint(0, 3)))
        doc = {"depth": depth if rng.random() < 0.9 else None, "all": None,
               "dirs": dirs if (dirs or rng.random() < 0.5) else None, "includes": None, "details": {}}
        # includes: later files of the list (tree), sometimes a missing file, rarely a back edge
        incs = []
        for j in range(i + 1, k):
            if rng.random() < 0.6:
                incs.append(("inc%d" % j, names[j]))
        if rng.random() < 0.12:
            incs.append(("gone", "nowhere/l10n.ini"))
        if rng.random() < 0.04 and i > 0:
            incs.append(("back", names[0]))
        if incs or rng.random() < 0.2:
            doc["includes"] = incs
        if flavour is not None:
            for t, pth in incs:
                if rng.random() < 0.5 and t.startswith("inc"):
                    doc["details"][t] = (rng.choice(["mozilla-central", "other", "plain"]), pth)
        inis[ini] = doc
    # with a source-tree flavour the detailed includes live below <base>/<branch>/
    if flavour is not None:
        for ini, doc in list(inis.items()):
            base = posixpath.normpath(posixpath.join(posixpath.dirname(ini), doc.get("depth") or "."))
            for t, (moz, pth) in doc["details"].items():
                branch = flavour["redirects"].get(moz, moz)
                target = posixpath.normpath(posixpath.join(base, branch, pth))
                if target not in inis and pth in inis and rng.random() < 0.8:
                    inis[target] = dict(inis[pth])
    top = names[0]
    tdoc = inis[top]
    allrel = rng.choice(["browser/locales/all-locales", "all-locales", "cfg/locales.txt"])
    lfiles = {}
    r = rng.random()
    if r < 0.85:
        base = posixpath.normpath(posixpath.join(posixpath.dirname(top), tdoc.get("depth") or "."))
        tdoc["all"] = allrel
        lfiles[posixpath.normpath(posixpath.join(base, allrel))] = rng.choice(
            ["de\nfr\n", "fr\n\nde extra words\nja\n", "ja\n", "de\n", ""])
    elif r < 0.93:
        tdoc["all"] = allrel
    dirsof = sorted(set(posixpath.dirname(i) or "." for i in inis))
    filters = [d for d in dirsof if rng.random() < 0.45]
    bad = [d for d in dirsof if d not in filters and rng.random() < 0.1]
    files = set()
    for _ in range(rng.randint(2, 8)):
        m = rng.choice(MODULES)
        n = rng.choice(NAMES)
        for loc in LOCALES:
            if rng.random() < 0.4:
                files.add("/l10n/%s/%s/%s" % (loc, m, n))
        if rng.random() < 0.6:
            files.add("/%s/locales/en-US/%s" % (m, n))
        if rng.random() < 0.1:
            files.add("/mc/%s/locales/en-US/%s" % (m, n))
    if rng.random() < 0.3:
        files.add("/l10n/de/other/u.ftl")
    files = sorted(f for f in files if not any(f == "/" + i or f.startswith("/" + i + "/") for i in inis))[:14]
    lookups = ["/l10n/de/browser/zz.ftl", "/l10n/xx/browser/a.ftl", "/browser/locales/en-US/zz.ftl", "/elsewhere/a.ftl"]
    case = {"inis": inis, "filters": filters, "bad_filters": bad, "locales_files": lfiles, "files": files, "top": top,
            "l10nbase": "l10n", "flavour": flavour, "locales": list(LOCALES), "mergebase": rng.random() < 0.3,
            "lookups": [l for l in lookups if l not in files]}
    return finish_case(case)


def gen_ini_session(rng):
    """an l10n.ini tree, then 1-3 edited versions of it; the EnumerateApp object is kept across an edit that leaves the
    l10n.ini files alone (all-locales rewritten, filter.py added or removed, files added to the tree, nothing at all)"""
    import copy
    base = gen_ini(rng)
    steps, reuse = [base], [False]
    for _ in range(rng.choice([1, 2, 2, 3])):
        c = copy.deepcopy(steps[-1])
        c.pop("expect", None)
        e = rng.choice(["locales", "locales", "filters", "tree", "same", "dirs", "dirs", "include"])
        keep = True
        if e == "locales" and c["locales_files"]:
            k = rng.choice(sorted(c["locales_files"]))
            c["locales_files"][k] = rng.choice([t for t in ["de\nfr\n", "ja\n", "de\n", "fr\nja\nde\n", ""] if t != c["locales_files"][k]])
        elif e == "filters":
            dirsof = sorted(set(posixpath.dirname(i) or "." for i in c["inis"]))
            d = rng.choice(dirsof)
            c["bad_filters"] = [x for x in c.get("bad_filters", []) if x != d]
            c["filters"] = [x for x in c["filters"] if x != d] if d in c["filters"] else sorted(c["filters"] + [d])
        elif e == "tree":
            fs = set(c["files"])
            for _ in range(rng.randint(1, 3)):
                m, n, loc = rng.choice(MODULES), rng.choice(NAMES), rng.choice(LOCALES)
                fs.add(rng.choice(["/l10n/%s/%s/%s" % (loc, m, n), "/%s/locales/en-US/%s" % (m, n)]))
            if fs and rng.random() < 0.5:
                fs.discard(rng.choice(sorted(fs)))
            c["files"] = sorted(f for f in fs if not any(f == "/" + i or f.startswith("/" + i + "/") for i in c["inis"]))
            c["lookups"] = [l for l in c.get("lookups", []) if l not in c["files"]]
        elif e == "dirs":
            keep = False
            k = rng.choice(sorted(c["inis"]))
            c["inis"][k]["dirs"] = " ".join(rng.sample(MODULES, rng.randint(0, 3)))
        elif e == "include":
            keep = False
            k = rng.choice(sorted(c["inis"]))
            if c["inis"][k].get("includes"):
                c["inis"][k]["includes"] = c["inis"][k]["includes"][:-1]
            else:
                c["inis"][k]["dirs"] = None
        c["edit"] = e
        steps.append(finish_case(c))
        reuse.append(keep and rng.random() < 0.8)
    for c in steps:
        locs = list(c["locales"]) + [None]
        rng.shuffle(locs)
        c["order"] = locs[:3] + ([locs[0]] if rng.random() < 0.5 else [])
    return {"steps": steps, "reuse": reuse}


def directed_ini():
    std = {"depth": "../..", "all": "browser/locales/all-locales", "dirs": "browser browser/branding", "includes": [("toolkit", "toolkit/locales/l10n.ini")], "details": {}}
    tk = {"depth": "../..", "all": None, "dirs": "toolkit\n  dom", "includes": None, "details": {}}
    mob = {"depth": "../../..", "all": "mobile/android/locales/all-locales", "dirs": "mobile/android/base mobile/android", "includes": None, "details": {}}
    files = ["/l10n/de/browser/a.ftl", "/l10n/de/browser/branding/x.dtd", "/l10n/fr/browser/a.ftl", "/browser/locales/en-US/a.ftl",
             "/browser/locales/en-US/only-ref.ftl", "/browser/branding/locales/en-US/x.dtd", "/toolkit/locales/en-US/t.ftl", "/l10n/de/toolkit/t.ftl",
             "/l10n/de/dom/d.properties", "/l10n/de/mobile/android/base/y.dtd", "/mobile/android/base/locales/en-US/y.dtd", "/l10n/de/uncovered/u.ftl"]
    base = {"filters": [], "bad_filters": [], "locales_files": {"browser/locales/all-locales": "de\nfr\n", "mobile/android/locales/all-locales": "de\n"},
            "files": files, "l10nbase": "l10n", "flavour": None, "locales": ["de", "fr", "ja"], "mergebase": False,
            "lookups": ["/l10n/de/browser/zz.ftl", "/elsewhere/a.ftl"]}
    cs = []

    def C(name, inis, top="browser/locales/l10n.ini", **kw):
        c = dict(base)
        c.update(kw)
        c.update({"name": name, "inis": inis, "top": top})
        cs.append(finish_case(c))
    C("standard", {"browser/locales/l10n.ini": std, "toolkit/locales/l10n.ini": tk})
    C("include-missing-is-empty", {"browser/locales/l10n.ini": std})
    C("android-test", {"mobile/android/locales/l10n.ini": mob}, top="mobile/android/locales/l10n.ini")
    C("no-all-option", {"browser/locales/l10n.ini": dict(std, all=None), "toolkit/locales/l10n.ini": tk})
    C("all-locales-file-missing", {"browser/locales/l10n.ini": dict(std, all="browser/locales/nothing"), "toolkit/locales/l10n.ini": tk})
    C("top-missing", {"toolkit/locales/l10n.ini": tk})
    C("no-depth", {"l10n.ini": {"depth": None, "all": "browser/locales/all-locales", "dirs": "browser", "includes": None, "details": {}}}, top="l10n.ini")
    C("cycle", {"browser/locales/l10n.ini": std, "toolkit/locales/l10n.ini": dict(tk, includes=[("b", "browser/locales/l10n.ini")])})
    C("self-include", {"browser/locales/l10n.ini": dict(std, includes=[("me", "browser/locales/l10n.ini")])})
    C("filter-own", {"browser/locales/l10n.ini": std, "toolkit/locales/l10n.ini": tk}, filters=["browser/locales", "toolkit/locales"])
    C("filter-from-include", {"browser/locales/l10n.ini": std, "toolkit/locales/l10n.ini": tk}, filters=["toolkit/locales"], bad_filters=["browser/locales"])
    C("filter-not-callable", {"browser/locales/l10n.ini": std, "toolkit/locales/l10n.ini": tk}, bad_filters=["browser/locales", "toolkit/locales"])
    C("included-twice", {"browser/locales/l10n.ini": dict(std, includes=[("t1", "toolkit/locales/l10n.ini"), ("t2", "toolkit/locales/../locales/l10n.ini")]),
                         "toolkit/locales/l10n.ini": tk})
    C("nested", {"browser/locales/l10n.ini": std, "toolkit/locales/l10n.ini": dict(tk, includes=[("m", "mobile/android/locales/l10n.ini")]),
                 "mobile/android/locales/l10n.ini": mob})
    C("merge", {"browser/locales/l10n.ini": std, "toolkit/locales/l10n.ini": tk}, mergebase=True)
    st = dict(std, details={"toolkit": ("mozilla-central", "toolkit/locales/l10n.ini")})
    C("source-tree-redirect", {"browser/locales/l10n.ini": st, "mc/toolkit/locales/l10n.ini": tk, "toolkit/locales/l10n.ini": dict(tk, dirs="dom")},
      flavour={"base": "ignored-base", "redirects": {"mozilla-central": "mc"}}, files=files + ["/mc/toolkit/locales/en-US/t.ftl"])
    C("source-tree-no-redirect", {"browser/locales/l10n.ini": st, "mozilla-central/toolkit/locales/l10n.ini": tk},
      flavour={"base": "", "redirects": {}}, files=files + ["/mozilla-central/toolkit/locales/en-US/t.ftl"])
    C("source-tree-no-details", {"browser/locales/l10n.ini": std, "toolkit/locales/l10n.ini": tk}, flavour={"base": "", "redirects": {"x": "y"}})
    C("plain-ignores-details", {"browser/locales/l10n.ini": st, "toolkit/locales/l10n.ini": tk, "mc/toolkit/locales/l10n.ini": dict(tk, dirs="dom")})
    return cs

"""Independent reference recogniser for well-formed XML element content (regex tokeniser + stack).

Written separately from lean/CLModel/Checks/XmlContent.lean (a character automaton); used by the C07
oracle to label values whose well-formedness is not known by construction, and monitored against expat
and against the Lean recogniser (three-way contract)."""
import re

NS = (":A-Z_a-zÀ-ÖØ-öø-˿Ͱ-ͽͿ-῿‌-‍⁰-↏"
      "Ⰰ-⿯、-퟿豈-﷏ﷰ-�\U00010000-\U000EFFFF")
NC = NS + r"\-.0-9·̀-ͯ‿-⁀"
NAME = "[%s][%s]*" % (NS, NC)
S = "[ \t\r\n]"
BAD_CHAR = re.compile("[^\t\n\r -퟿-�\U00010000-\U0010FFFF]")
PREDEFINED = ("amp", "lt", "gt", "apos", "quot")

TOKEN = re.compile(
    r"(?P<text>[^<&]+)"
    r"|&(?P<ref>%(N)s);"
    r"|&#(?P<dec>[0-9]+);"
    r"|&#x(?P<hex>[0-9a-fA-F]+);"
    r"|<!--(?P<comment>(?:[^-]|-[^-])*)-->"
    r"|<!\[CDATA\[(?P<cdata>.*?)\]\]>"
    r"|<\?(?P<pi>%(N)s)(?:%(S)s(?P<pidata>.*?))?\?>"
    r"|</(?P<etag>%(N)s)%(S)s*>"
    r"|<(?P<stag>%(N)s)(?P<attrs>(?:%(S)s+%(N)s%(S)s*=%(S)s*(?:\"[^<\"]*\"|'[^<']*'))*)%(S)s*(?P<empty>/?)>"
    % {"N": NAME, "S": S}, re.S)
ATTR = re.compile(r"%(S)s+(?P<n>%(N)s)%(S)s*=%(S)s*(?:\"(?P<d>[^<\"]*)\"|'(?P<s>[^<']*)')" % {"N": NAME, "S": S}, re.S)
AVTOKEN = re.compile(r"(?P<text>[^&]+)|&(?P<ref>%s);|&#(?P<dec>[0-9]+);|&#x(?P<hex>[0-9a-fA-F]+);" % NAME)


def char_ok(n):
    return n in (9, 10, 13) or 0x20 <= n <= 0xD7FF or 0xE000 <= n <= 0xFFFD or 0x10000 <= n <= 0x10FFFF


def _ref_ok(m, declared):
    if m.group("ref") is not None:
        return m.group("ref") in declared or m.group("ref") in PREDEFINED
    if m.group("dec") is not None:
        return char_ok(int(m.group("dec")))
    if m.group("hex") is not None:
        return char_ok(int(m.group("hex"), 16))
    return True


def wf(declared, v):
    """is `v` well-formed element content, entity references being to declared or predefined names"""
    pos = 0
    stack = []
    while pos < len(v):
        m = TOKEN.match(v, pos)
        if not m:
            return False
        pos = m.end()
        if m.group("text") is not None:
            t = m.group("text")
            if "]]>" in t or BAD_CHAR.search(t):
                return False
        elif m.group("ref") is not None or m.group("dec") is not None or m.group("hex") is not None:
            if not _ref_ok(m, declared):
                return False
        elif m.group("comment") is not None or m.group("cdata") is not None:
            if BAD_CHAR.search(m.group(0)):
                return False
        elif m.group("pi") is not None:
            if m.group("pi").lower() == "xml" or BAD_CHAR.search(m.group(0)):
                return False
        elif m.group("etag") is not None:
            if not stack or stack.pop() != m.group("etag"):
                return False
        elif m.group("stag") is not None:
            seen = set()
            apos = 0
            attrs = m.group("attrs")
            while apos < len(attrs):
                a = ATTR.match(attrs, apos)
                if not a or a.group("n") in seen:
                    return False
                seen.add(a.group("n"))
                val = a.group("d") if a.group("d") is not None else a.group("s")
                vpos = 0
                while vpos < len(val):
                    t = AVTOKEN.match(val, vpos)
                    if not t or not _ref_ok(t, declared):
                        return False
                    if t.group("text") is not None and BAD_CHAR.search(t.group("text")):
                        return False
                    vpos = t.end()
                apos = a.end()
            if not m.group("empty"):
                stack.append(m.group("stag"))
        else:
            return False
    return not stack


LITTOKEN = re.compile(r"(?P<text>[^&%%]+)|(?P<ref>&%s;)|&#(?P<dec>[0-9]+);|&#x(?P<hex>[0-9a-fA-F]+);" % NAME)


def lit_expand(v):
    """replacement text of the entity literal `v` (character references expanded), None if the literal is malformed"""
    out = []
    pos = 0
    while pos < len(v):
        m = LITTOKEN.match(v, pos)
        if not m:
            return None
        pos = m.end()
        if m.group("text") is not None:
            if BAD_CHAR.search(m.group("text")):
                return None
            out.append(m.group("text"))
        elif m.group("ref") is not None:
            out.append(m.group("ref"))
        else:
            n = int(m.group("dec")) if m.group("dec") is not None else int(m.group("hex"), 16)
            if not char_ok(n):
                return None
            out.append(chr(n))
    return "".join(out)


def wf_value(declared, key, v):
    """`v` passes both template documents: content, and literal of <!ENTITY key "v"> referenced once"""
    if not wf(declared, v):
        return False
    rt = lit_expand(v)
    if rt is None:
        return False
    return wf([d for d in declared if d != key], rt)

"""Adapters around the real DTDChecker; results in the canonical form of Ops/C07.lean.

The real checker is run unchanged.  While it runs, `xml.sax.make_parser` is wrapped by a recording proxy
that notes every document handed to `parse()` and delegates to the real expat reader, so the template
documents the code really builds can be compared with the model's.  expat's verdict on a document is
obtained independently of the checker by `xml_verdict` (fresh reader, same feature setting)."""
import io
import warnings

warnings.filterwarnings("ignore")

from xml import sax
from xml.sax.handler import ContentHandler, feature_external_ges

from compare_locales import parser as P
from compare_locales.checks import getChecker
from compare_locales.checks.base import EntityPos
from compare_locales.parser.base import Entity, Junk
from compare_locales.paths import File

_real_make_parser = sax.make_parser
DTD_FILE = File("foo.dtd", "foo.dtd")


def enc(s):
    return "t:" + ",".join(str(ord(c)) for c in s)


class _Rec:
    def __init__(self, real, log):
        self.__dict__["_real"] = real
        self.__dict__["_log"] = log

    def parse(self, src):
        self._log.append(src.getvalue())
        return self._real.parse(src)

    def __getattr__(self, n):
        return getattr(self._real, n)


class _Text(ContentHandler):
    def __init__(self):
        ContentHandler.__init__(self)
        self.text = ""

    def characters(self, content):
        self.text += content


def xml_verdict(doc_hex):
    """expat's verdict on one document, obtained without the checker: ["ok"|"err", line, col, msg, text]"""
    doc = bytes.fromhex(doc_hex)
    p = _real_make_parser()
    p.setFeature(feature_external_ges, False)
    h = _Text()
    p.setContentHandler(h)
    try:
        p.parse(io.BytesIO(doc))
    except sax.SAXParseException as e:
        return ["err", e.getLineNumber(), e.getColumnNumber(), " ".join(e.args), h.text]
    return ["ok", 0, 0, "", h.text]


def show_result(r):
    level, pos, msg, cat = r
    lv = {"warning": "W", "error": "E"}.get(level, "?" + str(level))
    if isinstance(pos, EntityPos):
        ps = "P%d" % int(pos)
    elif isinstance(pos, tuple):
        ps = "L%d,%d" % pos
    else:
        ps = "N%d" % pos
    return "%s %s %s %s" % (lv, ps, enc(msg), cat)


def dtd_entities(text):
    p = type(P.getParser("foo.dtd"))()
    p.readUnicode(text)
    return p.parse()


def inputs(ref_text, l10n_text, idx):
    """what the model needs, taken from the real parser's entities"""
    refl = dtd_entities(ref_text)
    p2 = type(P.getParser("foo.dtd"))()
    p2.readUnicode(l10n_text)
    l10n = [e for e in p2 if isinstance(e, Entity) and not isinstance(e, Junk)]
    if idx >= len(l10n):
        return None
    le = l10n[idx]
    if le.key not in refl:
        return None
    re_ = refl[le.key]
    return {"refvals": [e.raw_val for e in refl.values()], "rkey": re_.key, "rall": re_.all, "rval": re_.raw_val,
            "lkey": le.key, "lall": le.all, "lval": le.raw_val, "_ref": refl, "_re": re_, "_le": le}


def impl_inputs(ref_text, l10n_text, idx):
    i = inputs(ref_text, l10n_text, idx)
    if i is None:
        return None
    return {k: v for k, v in i.items() if not k.startswith("_")}


def impl_check(ref_text, l10n_text, idx, android, use_reference, model_docs):
    """run the real checker on entity idx of l10n_text; also the independent expat verdicts of `model_docs`"""
    i = inputs(ref_text, l10n_text, idx)
    if i is None:
        return None
    checker = getChecker(DTD_FILE, extra_tests=["android-dtd"] if android else None)
    if use_reference and checker.needs_reference:
        checker.set_reference(i["_ref"])
    log = []
    results = []
    exc = None
    sax.make_parser = lambda *a, **k: _Rec(_real_make_parser(*a, **k), log)
    try:
        try:
            for r in checker.check(i["_re"], i["_le"]):
                results.append(r)
        except Exception as e:      # noqa: classify every failure
            exc = type(e).__name__
    finally:
        sax.make_parser = _real_make_parser
    canon = " | ".join(["res"] + [show_result(r) for r in results] + (["!" + exc] if exc else []))
    out = {k: v for k, v in i.items() if not k.startswith("_")}
    out.update({"canon": canon, "docs": [d.hex() for d in log], "exc": exc,
                "results": [[r[0], list(r[1]) if isinstance(r[1], tuple) else int(r[1]), r[2], r[3]] for r in results],
                "verdicts": [xml_verdict(d) for d in model_docs]})
    return out

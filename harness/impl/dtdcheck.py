"""Adapters around the real DTDChecker; results in the canonical form of Ops/C07.lean.

The real checker is run unchanged.  While it runs, `xml.sax.make_parser` is wrapped by a recording proxy
that notes every document handed to `parse()` and delegates to the real expat reader, so the template
documents the code really builds can be compared with the model's.  expat's verdict on a document is
obtained independently of the checker by `xml_verdict` (fresh reader, same feature setting)."""
import io
import warnings

warnings.filterwarnings("ignore")

from xml import sax
from xml.sax.handler import ContentHandler, feature_external_ges

from compare_locales import parser as P
from compare_locales.checks import getChecker
from compare_locales.checks.base import EntityPos
from compare_locales.parser.base import Entity, Junk
from compare_locales.paths import File

_real_make_parser = sax.make_parser
DTD_FILE = File("foo.dtd", "foo.dtd")


def enc(s):
    return "t:" + ",".join(str(ord(c)) for c in s)


class _Rec:
    def __init__(self, real, log):
        self.__dict__["_real"] = real
        self.__dict__["_log"] = log

    def parse(self, src):
        self._log.append(src.getvalue())
        return self._real.parse(src)

    def __getattr__(self, n):
        return getattr(self._real, n)


class _Text(ContentHandler):
    def __init__(self):
        ContentHandler.__init__(self)
        self.text = ""

    def characters(self, content):
        self.text += content


def xml_verdict(doc_hex):
    """expat's verdict on one document, obtained without the checker: ["ok"|"err", line, col, msg, text]"""
    doc = bytes.fromhex(doc_hex)
    p = _real_make_parser()
    p.setFeature(feature_external_ges, False)
    h = _Text()
    p.setContentHandler(h)
    try:
        p.parse(io.BytesIO(doc))
    except sax.SAXParseException as e:
        return ["err", e.getLineNumber(), e.getColumnNumber(), " ".join(e.args), h.text]
    return ["ok", 0, 0, "", h.text]


def show_result(r):
    level, pos, msg, cat = r
    lv = {"warning": "W", "error": "E"}.get(level, "?" + str(level))
    if isinstance(pos, EntityPos):
        ps = "P%d" % int(pos)
    elif isinstance(pos, tuple):
        ps = "L%d,%d" % pos
    else:
        ps = "N%d" % pos
    return "%s %s %s %s" % (lv, ps, enc(msg), cat)


def dtd_entities(text):
    p = type(P.getParser("foo.dtd"))()
    p.readUnicode(text)
    return p.parse()


def inputs(ref_text, l10n_text, idx):
    """what the model needs, taken from the real parser's entities"""
    refl = dtd_entities(ref_text)
    p2 = type(P.getParser("foo.dtd"))()
    p2.readUnicode(l10n_text)
    l10n = [e for e in p2 if isinstance(e, Entity) and not isinstance(e, Junk)]
    if idx >= len(l10n):
        return None
    le = l10n[idx]
    if le.key not in refl:
        return None
    re_ = refl[le.key]
    return {"refvals": [e.raw_val for e in refl.values()], "rkey": re_.key, "rall": re_.all, "rval": re_.raw_val,
            "lkey": le.key, "lall": le.all, "lval": le.raw_val, "_ref": refl, "_re": re_, "_le": le}


def impl_inputs(ref_text, l10n_text, idx):
    i = inputs(ref_text, l10n_text, idx)
    if i is None:
        return None
    return {k: v for k, v in i.items() if not k.startswith("_")}


def impl_check(ref_text, l10n_text, idx, android, use_reference, model_docs):
    """run the real checker on entity idx of l10n_text; also the independent expat verdicts of `model_docs`"""
    i = inputs(ref_text, l10n_text, idx)
    if i is None:
        return None
    checker = getChecker(DTD_FILE, extra_tests=["android-dtd"] if android else None)
    if use_reference and checker.needs_reference:
        checker.set_reference(i["_ref"])
    log = []
    results = []
    exc = None
    sax.make_parser = lambda *a, **k: _Rec(_real_make_parser(*a, **k), log)
    try:
        try:
            for r in checker.check(i["_re"], i["_le"]):
                results.append(r)
        except Exception as e:      # noqa: classify every failure
            exc = type(e).__name__
    finally:
        sax.make_parser = _real_make_parser
    canon = " | ".join(["res"] + [show_result(r) for r in results] + (["!" + exc] if exc else []))
    out = {k: v for k, v in i.items() if not k.startswith("_")}
    out.update({"canon": canon, "docs": [d.hex() for d in log], "exc": exc,
                "results": [[r[0], list(r[1]) if isinstance(r[1], tuple) else int(r[1]), r[2], r[3]] for r in results],
                "verdicts": [xml_verdict(d) for d in model_docs]})
    return out


# ---------------------------------------------------------------------------------------------------------------
# round 4: ONE checker instance over the entities of a file, as ContentComparer.compare / L10nLinter.lint_file do
def _l10n_entities(text):
    p = type(P.getParser("foo.dtd"))()
    p.readUnicode(text)
    return p.parse()


def _pairs(ref_text, l10n_text, mode):
    """(reference KeyedTuple, [(refEnt, l10nEnt)]) in the order the real callers produce them.
    compare: `for key in l10n keys` (duplicates included): checker.check(ref_entities[key], l10n_entities[key]);
    lint:    `for current_entity in current`: checker.check(current_entity, current_entity), reference = current."""
    if mode == "lint":
        cur = _l10n_entities(l10n_text)
        return cur, [(e, e) for e in cur if isinstance(e, Entity) and not isinstance(e, Junk)]
    refl = dtd_entities(ref_text)
    l10n = _l10n_entities(l10n_text)
    pairs = []
    for e in l10n:
        if isinstance(e, Junk) or not isinstance(e, Entity):
            continue
        if mode == "compare":
            # both sides by key, as compare() does (the LAST entity of a duplicated key on either side)
            if e.key in refl and not isinstance(refl[e.key], Junk) and not isinstance(l10n[e.key], Junk):
                pairs.append((refl[e.key], l10n[e.key]))
        else:   # "walk": every localized entity in file order against the reference entity of its key
            if e.key in refl and not isinstance(refl[e.key], Junk):
                pairs.append((refl[e.key], e))
    return refl, pairs


def _ent(e):
    return {"key": e.key, "all": e.all, "val": e.raw_val}


def seq_inputs(ref_text, l10n_text, mode):
    refl, pairs = _pairs(ref_text, l10n_text, mode)
    return {"refvals": [e.raw_val for e in refl.values()], "pairs": [[_ent(r), _ent(l)] for r, l in pairs]}


def _state(checker):
    from compare_locales.checks.dtd import DTDChecker
    ke = checker._DTDChecker__known_entities
    known = "X" if ke is None else " ".join([str(len(ke))] + [enc(s) for s in sorted(ke)])
    return "known=%s text=%s css=%d" % (known, enc(DTDChecker.texthandler.textcontent), 1 if hasattr(checker, "_css_spec") else 0)


def _run_check(checker, r, l):
    log, results, exc, where = [], [], None, []
    sax.make_parser = lambda *a, **k: _Rec(_real_make_parser(*a, **k), log)
    try:
        try:
            for res in checker.check(r, l):
                results.append(res)
                # what compare() / lint do with every result: the position inside the file (drives value_position)
                try:
                    where.append(list(l.position(res[1]) if isinstance(res[1], EntityPos) else l.value_position(res[1])))
                except Exception as e:   # noqa
                    where.append(type(e).__name__)
        except Exception as e:      # noqa: classify every failure
            exc = type(e).__name__
    finally:
        sax.make_parser = _real_make_parser
    canon = " | ".join(["res"] + [show_result(x) for x in results] + (["!" + exc] if exc else []))
    return {"canon": canon, "docs": [d.hex() for d in log], "exc": exc, "where": where,
            "results": [[x[0], list(x[1]) if isinstance(x[1], tuple) else int(x[1]), x[2], x[3]] for x in results]}


def seq_check(ref_text, l10n_text, mode, android, use_reference, model_docs):
    """one checker for the whole file (sequence), then a FRESH checker per pair; the state of the object after every step"""
    from compare_locales.checks.dtd import DTDChecker
    refl, pairs = _pairs(ref_text, l10n_text, mode)
    extra = ["android-dtd"] if android else None
    text0 = DTDChecker.texthandler.textcontent
    checker = getChecker(DTD_FILE, extra_tests=extra)
    if use_reference and checker.needs_reference:
        checker.set_reference(refl)
    steps = []
    for r, l in pairs:
        try:
            r.equals(l)          # compare() does this first (DTDEntityMixin.val)
        except Exception:        # noqa
            pass
        s = _run_check(checker, r, l)
        s["state"] = _state(checker)
        s.update({"rval": r.raw_val, "lval": l.raw_val, "lkey": l.key, "rkey": r.key})
        steps.append(s)
    for (r, l), s in zip(pairs, steps):
        fresh = getChecker(DTD_FILE, extra_tests=extra)
        if use_reference and fresh.needs_reference:
            fresh.set_reference(refl)
        f = _run_check(fresh, r, l)
        s["fresh"] = f["canon"]
        s["fresh_results"] = f["results"]
    return {"text0": text0, "steps": steps, "refvals": [e.raw_val for e in refl.values()],
            "verdicts": [xml_verdict(d) for d in model_docs]}


def uescape(val):
    """DTDChecker.unicode_escape(val) alone: "fine" or "error <pos> <reason>" (args[2], args[4] of the re-raised error)"""
    checker = getChecker(DTD_FILE, extra_tests=["android-dtd"])
    try:
        checker.unicode_escape(val)
    except UnicodeDecodeError as e:
        return "error %d %s" % (e.args[2], enc(e.args[4]))
    return "fine"

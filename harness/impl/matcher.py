"""Implementation adapter for C11/C12: runs the real compare_locales.paths.matcher / mozpath.match
and formats the results in the canonical form of lean/CLModel/Ops/C11.lean."""
import sys

sys.setrecursionlimit(400)      # the only deep recursion we ever see is a genuine infinite one

from lib.common import enc


def enc_name(name):
    acc = 0
    for c in name:
        acc = acc * 1114112 + ord(c) + 1
    return acc


def exc_canon(e):
    return "E:" + type(e).__name__


def opt_text(v):
    return "None" if v is None else enc(v)


def dict_canon(d):
    return "{" + ",".join(enc(k) + "=" + opt_text(v) for k, v in d.items()) + "}"


def _rename(tree, byidx):
    k = tree[0]
    if k == "group":
        return ("group", byidx.get(tree[1], tree[1]), _rename(tree[2], byidx))
    if k == "backref":
        return ("backref", byidx.get(tree[1], tree[1]))
    if k in ("seq", "alt"):
        return (k, _rename(tree[1], byidx), _rename(tree[2], byidx))
    if k == "rep":
        return tree[:4] + (_rename(tree[4], byidx),)
    if k == "look":
        return tree[:3] + (_rename(tree[3], byidx),)
    return tree


def regex_canon(pattern_string):
    """wire form of a compiled pattern string, named groups numbered by enc_name(name)"""
    import translate
    tree, gi, _ = translate.parse_tree(pattern_string)
    byidx = {i: enc_name(n) for n, i in gi.items()}
    names = [n for n, _ in sorted(gi.items(), key=lambda kv: kv[1])]
    return " ".join(translate.to_wire(_rename(tree, byidx))) + " ; " + ",".join(enc(n) for n in names)


def node_canon(n):
    from compare_locales.paths import matcher as M
    t = type(n)
    if t is M.Literal:
        return "L" + enc(str(n))
    if t is M.AndroidLocale:
        return "A%d" % (1 if n.repeat else 0)
    if t is M.Variable:
        return "V%d%s" % (1 if n.repeat else 0, enc(n.name))
    if t is M.Star:
        return "S%d" % n.number
    if t is M.Starstar:
        return "D%d%s" % (n.number, enc(n.suffix))
    return "?" + t.__name__


def pattern_canon(p):
    return ",".join([str(p.prefix_length)] + [node_canon(n) for n in p])


def guarded(f):
    """-> (canonical string, raw value or {'exc': name, 'msg': text})"""
    try:
        v = f()
        return None, v
    except RecursionError as e:
        return exc_canon(e), {"exc": "RecursionError", "msg": ""}
    except Exception as e:      # noqa
        return exc_canon(e), {"exc": type(e).__name__, "msg": str(e)[:200]}


def build(spec):
    from compare_locales.paths.matcher import Matcher
    m = Matcher(spec["pat"], dict(spec.get("env") or []), root=spec.get("root"))
    if spec.get("with") is not None:
        m = m.with_env(dict(spec["with"]))
    return m


def node_kinds(m):
    """names of the groups that stand for a top-level Star / Starstar node"""
    from compare_locales.paths import matcher as M
    stars, dstars = set(), {}
    for n in m.pattern:
        if type(n) is M.Star:
            stars.add("s%d" % n.number)
        elif type(n) is M.Starstar:
            dstars["s%d" % n.number] = n.suffix
    return sorted(stars), dstars


def impl_matcher(case):
    """info + match of every path"""
    m = build(case)
    out = {"root": m.pattern.root, "nodes": pattern_canon(m.pattern)}
    stars, dstars = node_kinds(m)
    out["stars"] = stars
    out["dstars"] = dstars

    def rx():
        m._cached_re = None
        m._cache_regex()
        return regex_canon(m._cached_re.pattern)
    c, v = guarded(rx)
    rxc = c if c is not None else v
    out["rx_raw"] = v if c is not None else None
    c, v = guarded(lambda: m.prefix)
    pc = c if c is not None else enc(v)
    out["prefix"] = v
    c, v = guarded(lambda: str(m))
    sc = c if c is not None else enc(v)
    out["str"] = v
    out["info"] = rxc + " | " + pc + " | " + sc
    ms, raws = [], []
    for p in case.get("paths", []):
        m2 = build(case)
        c, v = guarded(lambda: m2.match(p))
        if c is not None:
            ms.append(c)
        elif v is None:
            ms.append("None")
        else:
            ms.append(dict_canon(v))
        raws.append(v)
    out["matches"] = " | ".join(ms)
    out["match_raw"] = raws
    return out


def impl_sub(case):
    ms, raws = [], []
    for p in case["paths"]:
        a, b = build(case["a"]), build(case["b"])
        c, v = guarded(lambda: a.sub(b, p))
        if c is not None:
            ms.append(c)
            raws.append([v, None])
            continue
        if v is None:
            ms.append("None")
            raws.append([None, None])
            continue
        c2, v2 = guarded(lambda: b.sub(a, v))
        ms.append(enc(v) + " " + (c2 if c2 is not None else ("None" if v2 is None else enc(v2))))
        raws.append([v, v2])
    return {"subs": " | ".join(ms), "raw": raws}


def impl_android(loc):
    from compare_locales.paths.matcher import Matcher
    c, a = guarded(lambda: str(Matcher("{android_locale}", {"locale": loc})))
    # str() truncates on MissingEnvironment; expand with the node itself to see errors
    if c is not None:
        return {"canon": c, "android": a, "back": None}
    c2, d = guarded(lambda: Matcher("{android_locale}").match(a))
    if c2 is not None:
        return {"canon": enc(a) + " " + c2, "android": a, "back": d}
    back = None if d is None else d.get("locale")
    return {"canon": enc(a) + " " + opt_text(back), "android": a, "back": back, "dict": d}


def impl_moz(pat, paths):
    from compare_locales import mozpath
    import translate
    mozpath.re_cache.pop(pat, None)
    res = []
    for p in paths:
        c, v = guarded(lambda: mozpath.match(p, pat))
        res.append(c if c is not None else ("1" if v else "0"))
    if not pat:
        rx = "-"
    else:
        tree, _, _ = translate.parse_tree(mozpath.re_cache[pat].pattern)
        rx = " ".join(translate.to_wire(tree))
    return {"canon": rx + " | " + " ".join(res), "res": res}


def impl_parse(pat):
    from compare_locales.paths.matcher import PatternParser
    c, v = guarded(lambda: PatternParser().parse(pat))
    return c if c is not None else pattern_canon(v)


def impl_sequence(case):
    """operations on matcher OBJECTS in sequence: use a0 (match, prefix, sub), then rebind it with
    with_env, then use the rebound matcher and the original again"""
    a0 = build(case["a0"])
    b = build(case["b"])
    p_old, p_new, pb = case["p_old"], case["p_new"], case["pb"]
    res, canon = {}, {}

    def step(name, f, kind):
        c, v = guarded(f)
        res[name] = v
        if c is not None:
            canon[name] = c
        elif kind == "match":
            canon[name] = "None" if v is None else dict_canon(v)
        else:
            canon[name] = "None" if v is None else enc(v)
    step("a0.match.old", lambda: a0.match(p_old), "match")
    step("a0.prefix", lambda: a0.prefix, "text")
    step("a0.sub.old", lambda: a0.sub(b, p_old), "text")
    c, a1 = guarded(lambda: a0.with_env(dict(case["with"])))
    if c is not None:
        res["with_env"] = a1
        return {"res": res, "canon": canon}
    step("a1.match.new", lambda: a1.match(p_new), "match")
    step("a1.match.old", lambda: a1.match(p_old), "match")
    step("a1.prefix", lambda: a1.prefix, "text")
    step("a1.sub.new", lambda: a1.sub(b, p_new), "text")
    step("b.sub.a1", lambda: b.sub(a1, pb), "text")
    step("a0.match.old.again", lambda: a0.match(p_old), "match")
    step("a0.match.new", lambda: a0.match(p_new), "match")
    step("b.sub.a0", lambda: b.sub(a0, pb), "text")
    return {"res": res, "canon": canon}


# ------------------------------------------------------------------ round 4: mozpath helpers, ==, concat, expand, encoding
import os as _os


def _at(cwd, f):
    """run f with the given current directory (relative roots / relpath look at os.getcwd())"""
    if cwd is None:
        return f()
    old = _os.getcwd()
    _os.chdir(cwd)
    try:
        return f()
    finally:
        _os.chdir(old)


def _texts(l):
    return "[" + " ".join(enc(x) for x in l) + "]"


def impl_mozpath(fn, args, cwd=None):
    """one pure helper of compare_locales.mozpath -> {"canon": canonical string, "raw": value | {'exc':..}}"""
    from compare_locales import mozpath

    def call():
        if fn == "join":
            return mozpath.join(*args)
        if fn == "commonprefix":
            return mozpath.commonprefix(list(args))
        if fn == "basedir":
            return mozpath.basedir(args[0], list(args[1:]))
        return getattr(mozpath, fn)(*args)
    c, v = guarded(lambda: _at(cwd, call))
    if c is not None:
        return {"canon": c, "raw": {"exc": v["exc"]}}
    if fn == "splitext":
        return {"canon": enc(v[0]) + " " + enc(v[1]), "raw": list(v)}
    if fn == "split":
        return {"canon": _texts(v), "raw": list(v)}
    if v is None:
        return {"canon": "None", "raw": None}
    return {"canon": enc(v), "raw": v}


def build_raw(spec):
    """Matcher(pattern, env, root) with the root exactly as given (may be relative)"""
    from compare_locales.paths.matcher import Matcher
    return Matcher(spec["pat"], dict(spec.get("env") or []), root=spec.get("root"))


def _info(m):
    def rx():
        m._cached_re = None
        m._cache_regex()
        return regex_canon(m._cached_re.pattern)
    c, v = guarded(rx)
    rxc = c if c is not None else v
    c, v = guarded(lambda: m.prefix)
    pc = c if c is not None else enc(v)
    prefix = v
    c, v = guarded(lambda: str(m))
    sc = c if c is not None else enc(v)
    return rxc + " | " + pc + " | " + sc, prefix, v


def _matches(m, paths):
    ms, raws = [], []
    for p in paths:
        m._cached_re = None
        c, v = guarded(lambda: m.match(p))
        ms.append(c if c is not None else ("None" if v is None else dict_canon(v)))
        raws.append(v)
    return " | ".join(ms), raws


def impl_expand(case):
    """the module function expand(root, path, env)"""
    from compare_locales.paths import matcher as M
    c, v = guarded(lambda: _at(case.get("cwd"), lambda: M.expand(case["root"], case["pat"], dict(case["env"]))))
    return {"canon": c if c is not None else enc(v), "raw": v}


def impl_eq(case):
    def go():
        a, b = build_raw(case["a"]), build_raw(case["b"])
        from compare_locales.paths import matcher as M
        vals = [a == b, a != b, b == a, a.pattern == b.pattern, a.pattern != b.pattern]
        nodes = [x != y for x, y in zip(a.pattern, b.pattern)]
        # reflexivity, the NotImplemented branch, a plain list, a different encoding, the abstract base class, repr
        a_enc = M.Matcher(case["a"]["pat"], dict(case["a"].get("env") or []), root=case["a"].get("root"), encoding="utf-8")
        abstract = []
        for f in (lambda: M.Node().regex_pattern({}), lambda: M.Node().expand({})):
            try:
                f()
                abstract.append("returned")
            except NotImplementedError:
                abstract.append("NotImplementedError")
        vals2 = [a == a, b == b, a == case["a"]["pat"], a != case["a"]["pat"], a.pattern == list(a.pattern), a == a_enc,
                 abstract, isinstance(repr(a), str) and isinstance(repr(b), str)]
        return vals, vals2, nodes
    c, v = guarded(lambda: _at(case.get("cwd"), go))
    if c is not None:
        return {"canon": c, "raw": v}

    def behave(spec):
        m = build_raw(spec)
        info, prefix, s = _info(m)
        return [info, _matches(m, case.get("paths", []))[0]]
    beh = _at(case.get("cwd"), lambda: [behave(case["a"]), behave(case["b"])])
    return {"canon": " ".join("1" if x else "0" for x in v[0]) + " n" + "".join("1" if x else "0" for x in v[2]),
            "raw": v[0], "extra": v[1], "behave": beh, "nodes": v[2]}


def impl_concat(case):
    def go():
        a = build_raw(case["a"])
        o = case["other"]
        other = build_raw(o["spec"]) if o["kind"] == "M" else o["text"]
        return a, a.concat(other)
    c, v = guarded(lambda: _at(case.get("cwd"), go))
    if c is not None:
        return {"canon": c, "raw": v}
    a, m = v
    before = pattern_canon(build_raw(case["a"]).pattern)
    info, prefix, s = _info(m)
    ms, raws = _matches(m, case.get("paths", []))
    root = "None" if m.pattern.root is None else enc(m.pattern.root)
    return {"canon": pattern_canon(m.pattern) + " ; " + root + " ; " + info + " ; " + ms, "prefix": prefix, "str": s,
            "match_raw": raws, "a_unchanged": before == pattern_canon(a.pattern)}


def impl_rebuild(case):
    """Matcher(other_matcher, env, root)"""
    from compare_locales.paths.matcher import Matcher

    def go():
        a = build_raw(case["a"])
        return Matcher(a, dict(case["env"]), root=case["root"])
    c, m = guarded(lambda: _at(case.get("cwd"), go))
    if c is not None:
        return {"canon": c, "raw": m}
    info, prefix, s = _info(m)
    ms, raws = _matches(m, case.get("paths", []))
    root = "None" if m.pattern.root is None else enc(m.pattern.root)
    return {"canon": root + " ; " + info + " ; " + ms, "prefix": prefix, "str": s, "match_raw": raws, "root": m.pattern.root}


def impl_enc(case):
    """matchers built with encoding='utf-8': bytes in, bytes out (decoded here for the comparison)"""
    from compare_locales.paths.matcher import Matcher

    def mk(spec):
        return Matcher(spec["pat"], dict(spec.get("env") or []), root=spec.get("root"), encoding="utf-8")

    def go():
        a, b = mk(case["a"]), mk(case["b"])
        c, v = guarded(lambda: a.prefix)
        pc = c if c is not None else enc(v.decode("utf-8"))
        praw = v.decode("utf-8") if c is None else v
        out, raws = [], []
        for p in case["paths"]:
            a._cached_re = None
            c1, v1 = guarded(lambda: a.match(p.encode("utf-8")))
            a._cached_re = None
            c2, v2 = guarded(lambda: a.sub(b, p.encode("utf-8")))
            m1 = c1 if c1 is not None else ("None" if v1 is None else dict_canon(v1))
            m2 = c2 if c2 is not None else ("None" if v2 is None else enc(v2.decode("utf-8")))
            out.append(m1 + " " + m2)
            raws.append([v1, v2.decode("utf-8") if isinstance(v2, bytes) else v2])
        return pc + " ; " + " | ".join(out), praw, raws
    c, v = guarded(lambda: _at(case.get("cwd"), go))
    if c is not None:
        return {"canon": c, "raw": v}
    return {"canon": v[0], "prefix": v[1], "raw": v[2]}


def impl_objargs(case):
    """Matcher(pattern OBJECT, env of Pattern / Matcher objects): PatternParser.parse on non-strings"""
    from compare_locales.paths.matcher import Matcher, PatternParser
    env = {}
    for i, (k, v) in enumerate(case.get("env") or []):
        env[k] = PatternParser().parse(v) if i % 2 == 0 else Matcher(v, {"unused": "x"})
    pat = PatternParser().parse(case["pat"]) if case.get("patobj") == "P" else Matcher(case["pat"])
    m = Matcher(pat, env, root=case.get("root"))
    info, prefix, s = _info(m)
    ms, raws = _matches(m, case.get("paths", []))
    return {"info": info, "matches": ms, "match_raw": raws, "prefix": prefix, "str": s}


def impl_derive(case):
    """operations on matcher OBJECTS in sequence, caches never reset: the source is used (match, sub: its regex is cached),
    then a matcher is derived from it step by step (Matcher(m, env, root) = with_env / re-rooted copy, concat), every
    intermediate object is used once, and the last one is compared with a matcher built FRESH from the same pattern text,
    environment and root"""
    from compare_locales.paths.matcher import Matcher

    def can_match(v_c):
        c, v = v_c
        return c if c is not None else ("None" if v is None else dict_canon(v))

    def can_text(v_c):
        c, v = v_c
        return c if c is not None else ("None" if v is None else enc(v))

    def go():
        a, b = build_raw(case["a"]), build_raw(case["b"])
        warm = case["warm"]
        r0 = guarded(lambda: a.match(warm))
        r1 = guarded(lambda: a.sub(b, warm))
        head = can_match(r0) + " ; " + can_text(r1)
        out = {"a.match.warm": r0[1], "a.sub.warm": r1[1], "steps": []}
        d = a
        acc = []
        for st in case["steps"]:
            prev = d
            if st["op"] == "E":
                c, d = guarded(lambda: Matcher(prev, dict(st["env"]), root=st["root"]))
            elif st["op"] == "CT":
                c, d = guarded(lambda: prev.concat(st["text"]))
            else:
                o = build_raw(st["spec"])
                c, d = guarded(lambda: prev.concat(o))
            if c is not None:
                out["derive_exc"] = d
                return head + " ; " + c, out
            empty = d._cached_re is None
            r = guarded(lambda: d.match(warm))
            acc.append(("1" if empty else "0") + " " + can_match(r))
            out["steps"].append({"cache_empty": empty, "match.warm": r[1]})
        paths = case["paths"]
        pr = guarded(lambda: d.prefix)
        ms = [guarded(lambda p=p: d.match(p)) for p in paths]
        sb = guarded(lambda: d.sub(b, paths[0])) if paths else (None, None)
        again = guarded(lambda: a.match(warm))
        out.update({"prefix": pr[1], "matches": [m[1] for m in ms], "sub": sb[1], "a.match.again": again[1]})
        if paths and isinstance(sb[1], str):
            out["back"] = guarded(lambda: b.sub(d, sb[1]))[1]
        # the same questions to a matcher built afresh
        f = build_raw(case["fresh"])
        out["fresh"] = {"prefix": guarded(lambda: f.prefix)[1], "matches": [guarded(lambda p=p: f.match(p))[1] for p in paths],
                        "sub": guarded(lambda: f.sub(b, paths[0]))[1] if paths else None}
        canon = (head + " ; " + " , ".join(acc) + " ; " + can_text(pr) + " ; " + " | ".join(can_match(m) for m in ms) + " ; " +
                 (can_text(sb) if paths else "-") + " ; " + can_match(again))
        return canon, out
    canon, out = _at(case.get("cwd"), go)
    out["canon"] = canon
    return out


def impl_pairing(case):
    """a one-rule project on a real directory tree: ProjectFiles pairs the files of the reference and the l10n side
    (iter_locale, match, iter_reference); paths are returned relative to the scratch root"""
    import shutil
    import tempfile
    from compare_locales.paths import ProjectConfig, ProjectFiles
    base = "/tmp/wt/c12"
    _os.makedirs(base, exist_ok=True)
    top = tempfile.mkdtemp(prefix="pair-", dir=base)
    try:
        for rel in case["files"]:
            p = _os.path.join(top, rel)
            _os.makedirs(_os.path.dirname(p), exist_ok=True)
            with open(p, "w") as fh:
                fh.write("x")
        pc = ProjectConfig(_os.path.join(top, "l10n.toml"))
        pc.set_root(".")
        env = dict(case["env"])
        if case.get("late_locale"):
            env.pop("locale", None)         # ProjectFiles binds it: paths["l10n"].with_env({"locale": locale})
        pc.add_environment(**env)
        pc.add_paths({"l10n": case["l10n"], "reference": case["ref"]})
        pc.set_locales([case["locale"]] + ([case["other_locale"]] if case.get("late_locale") else []), deep=True)
        # calls that only LOOK at the configuration's matchers (what printing or inspecting a configuration does)
        for w in case.get("warm") or []:
            for key in ("l10n", "reference"):
                m = pc.paths[0][key]
                if w == "prefix":
                    guarded(lambda: m.prefix)
                elif w == "str":
                    guarded(lambda: str(m))
                elif w == "repr":
                    guarded(lambda: repr(m))
                elif w == "expand":
                    guarded(lambda: m.pattern.expand(m.env, raise_missing=True))
                elif w == "eq":
                    guarded(lambda: m == pc.paths[0]["l10n"])
            if w == "other-locale":
                guarded(lambda: list(ProjectFiles(case["other_locale"], [pc])))
        files = ProjectFiles(case["locale"], [pc])

        def rel(p):
            if p is None:
                return None
            return p[len(top) + 1:] if p.startswith(top + "/") else "!" + p
        listed = [[rel(a), rel(b)] for a, b, _, _ in files]
        lookups = []
        for f in case["files"]:
            r = files.match(_os.path.join(top, f))
            lookups.append(None if r is None else [rel(r[0]), rel(r[1])])
        refs = [[rel(a), rel(b)] for a, b, _, _ in ProjectFiles(None, [pc])]
        return {"listed": listed, "lookups": lookups, "reference_mode": refs}
    finally:
        shutil.rmtree(top, ignore_errors=True)


# ------------------------------------------------------------------ round 5: histories on long-lived matcher objects
def _snap(m):
    """observable state of a matcher object, read from its attributes only (no method of the matcher is called):
    pattern nodes + prefix_length, root, the entries of the env dict by key, whether a regex is cached"""
    def val(v):
        if isinstance(v, str):
            return "L" + enc(v)
        r = getattr(v, "root", None)
        return pattern_canon(v) + ("" if r is None else "@" + enc(r))
    env = sorted((k, val(v)) for k, v in dict.items(m.env))
    root = m.pattern.root
    cached = m._cached_re is not None
    canon = (pattern_canon(m.pattern) + " ; " + ("None" if root is None else enc(root)) + " ; {" +
             ",".join(enc(k) + "=" + v for k, v in env) + "} ; " + ("1" if cached else "0"))
    return {"canon": canon, "pattern": pattern_canon(m.pattern), "root": root, "env": [list(kv) for kv in env], "cached": cached,
            "regex": m._cached_re.pattern if cached else None, "env_id": id(m.env)}


def impl_history(case):
    """a HISTORY on one store of long-lived matcher objects (objects are numbered in the order of creation; caches are
    never reset).  Per call: its result, the snapshot of every object afterwards and - for the calls that only look -
    the result of the same call on objects built FRESH from the current pattern text / variables / root of the operands.
    ops: B(spec) | P o | S o | X o | R o | Q o o2 | M o path | U o o2 path | E o root env | CT o text | CM o o2 | W o k v"""
    from compare_locales.paths.matcher import Matcher, PatternParser

    def can_match(c, v):
        return c if c is not None else ("None" if v is None else dict_canon(v))

    def can_text(c, v):
        return c if c is not None else ("None" if v is None else enc(v))

    fresh_rx = {}

    def fresh_regex(spec):
        key = repr(spec)
        if key not in fresh_rx:
            def f():
                m = build_raw(spec)
                m._cache_regex()
                return m._cached_re.pattern
            c, v = guarded(f)
            fresh_rx[key] = v if c is None else None
        return fresh_rx[key]

    def call(k, op, objs):
        """the call itself, on the given objects -> (canonical, raw)"""
        o = objs[op["o"]] if "o" in op else None
        if k == "P":
            c, v = guarded(lambda: o.prefix)
            return can_text(c, v), v
        if k == "S":
            c, v = guarded(lambda: str(o))
            return can_text(c, v), v
        if k == "X":
            c, v = guarded(lambda: o.pattern.expand(o.env, raise_missing=True))
            return can_text(c, v), v
        if k == "R":
            c, v = guarded(lambda: isinstance(repr(o), str))
            return (c if c is not None else "ok"), v
        if k == "Q":
            o2 = objs[op["o2"]]
            c, v = guarded(lambda: [bool(o == o2), bool(o != o2)])
            return (c if c is not None else "".join("1" if x else "0" for x in v)), v
        if k == "M":
            c, v = guarded(lambda: o.match(op["path"]))
            return can_match(c, v), v
        if k == "U":
            o2 = objs[op["o2"]]
            c, v = guarded(lambda: o.sub(o2, op["path"]))
            return can_text(c, v), v
        raise ValueError(k)

    def go():
        objs, specs, tainted, steps, prev = [], [], set(), [], []
        for op in case["ops"]:
            k = op["op"]
            refs = [op[x] for x in ("o", "o2") if x in op]
            if any(r >= len(objs) for r in refs):
                steps.append({"canon": "stuck", "stuck": True})
                break
            st = {}
            if k == "B":
                c, v = guarded(lambda: build_raw(op["spec"]))
                if c is None:
                    objs.append(v)
                    specs.append(op["spec"])
                out_c, st["out"] = (c if c is not None else "o%d" % (len(objs) - 1)), (v if c is not None else None)
            elif k in ("E", "CT", "CM"):
                src = objs[op["o"]]
                if k == "E":
                    c, v = guarded(lambda: Matcher(src, dict(op["env"]), root=op["root"]))
                elif k == "CT":
                    c, v = guarded(lambda: src.concat(op["text"]))
                else:
                    c, v = guarded(lambda: src.concat(objs[op["o2"]]))
                if c is None:
                    st["same_object"] = any(v is x for x in objs)
                    objs.append(v)
                    specs.append(op["result"])
                    fr = guarded(lambda: _snap(build_raw(op["result"])))
                    st["fresh_state"] = fr[1]
                out_c, st["out"] = (c if c is not None else "o%d" % (len(objs) - 1)), (v if c is not None else None)
            elif k == "W":
                def w():
                    objs[op["o"]].env[op["k"]] = PatternParser().parse(op["v"])
                c, v = guarded(w)
                specs[op["o"]] = op["result"]
                if objs[op["o"]]._cached_re is not None:
                    tainted.add(op["o"])
                out_c, st["out"] = (c if c is not None else "ok"), v
            else:
                out_c, st["out"] = call(k, op, objs)
                fobjs = {}
                for r in refs:
                    fobjs[r] = build_raw(specs[r])
                st["fresh"] = call(k, op, fobjs)[1]
                st["tainted"] = any(r in tainted for r in refs)
            snaps = [_snap(m) for m in objs]
            st["snap"] = snaps
            st["cache_bad"] = [i for i, sn in enumerate(snaps)
                               if sn["cached"] and i not in tainted and fresh_regex(specs[i]) != sn["regex"]]
            cur = [sn["canon"] for sn in snaps]
            st["canon"] = out_c + " ~ " + " # ".join("=" if i < len(prev) and prev[i] == c else c for i, c in enumerate(cur))
            prev = cur
            steps.append(st)
        return steps
    steps = _at(case.get("cwd"), go)
    return {"steps": steps, "canon": " || ".join(s["canon"] for s in steps)}

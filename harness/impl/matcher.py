"""Implementation adapter for C11/C12: runs the real compare_locales.paths.matcher / mozpath.match
and formats the results in the canonical form of lean/CLModel/Ops/C11.lean."""
import sys

sys.setrecursionlimit(400)      # the only deep recursion we ever see is a genuine infinite one

from lib.common import enc


def enc_name(name):
    acc = 0
    for c in name:
        acc = acc * 1114112 + ord(c) + 1
    return acc


def exc_canon(e):
    return "E:" + type(e).__name__


def opt_text(v):
    return "None" if v is None else enc(v)


def dict_canon(d):
    return "{" + ",".join(enc(k) + "=" + opt_text(v) for k, v in d.items()) + "}"


def _rename(tree, byidx):
    k = tree[0]
    if k == "group":
        return ("group", byidx.get(tree[1], tree[1]), _rename(tree[2], byidx))
    if k == "backref":
        return ("backref", byidx.get(tree[1], tree[1]))
    if k in ("seq", "alt"):
        return (k, _rename(tree[1], byidx), _rename(tree[2], byidx))
    if k == "rep":
        return tree[:4] + (_rename(tree[4], byidx),)
    if k == "look":
        return tree[:3] + (_rename(tree[3], byidx),)
    return tree


def regex_canon(pattern_string):
    """wire form of a compiled pattern string, named groups numbered by enc_name(name)"""
    import translate
    tree, gi, _ = translate.parse_tree(pattern_string)
    byidx = {i: enc_name(n) for n, i in gi.items()}
    names = [n for n, _ in sorted(gi.items(), key=lambda kv: kv[1])]
    return " ".join(translate.to_wire(_rename(tree, byidx))) + " ; " + ",".join(enc(n) for n in names)


def node_canon(n):
    from compare_locales.paths import matcher as M
    t = type(n)
    if t is M.Literal:
        return "L" + enc(str(n))
    if t is M.AndroidLocale:
        return "A%d" % (1 if n.repeat else 0)
    if t is M.Variable:
        return "V%d%s" % (1 if n.repeat else 0, enc(n.name))
    if t is M.Star:
        return "S%d" % n.number
    if t is M.Starstar:
        return "D%d%s" % (n.number, enc(n.suffix))
    return "?" + t.__name__


def pattern_canon(p):
    return ",".join([str(p.prefix_length)] + [node_canon(n) for n in p])


def guarded(f):
    """-> (canonical string, raw value or {'exc': name, 'msg': text})"""
    try:
        v = f()
        return None, v
    except RecursionError as e:
        return exc_canon(e), {"exc": "RecursionError", "msg": ""}
    except Exception as e:      # noqa
        return exc_canon(e), {"exc": type(e).__name__, "msg": str(e)[:200]}


def build(spec):
    from compare_locales.paths.matcher import Matcher
    m = Matcher(spec["pat"], dict(spec.get("env") or []), root=spec.get("root"))
    if spec.get("with") is not None:
        m = m.with_env(dict(spec["with"]))
    return m


def node_kinds(m):
    """names of the groups that stand for a top-level Star / Starstar node"""
    from compare_locales.paths import matcher as M
    stars, dstars = set(), {}
    for n in m.pattern:
        if type(n) is M.Star:
            stars.add("s%d" % n.number)
        elif type(n) is M.Starstar:
            dstars["s%d" % n.number] = n.suffix
    return sorted(stars), dstars


def impl_matcher(case):
    """info + match of every path"""
    m = build(case)
    out = {"root": m.pattern.root, "nodes": pattern_canon(m.pattern)}
    stars, dstars = node_kinds(m)
    out["stars"] = stars
    out["dstars"] = dstars

    def rx():
        m._cached_re = None
        m._cache_regex()
        return regex_canon(m._cached_re.pattern)
    c, v = guarded(rx)
    rxc = c if c is not None else v
    out["rx_raw"] = v if c is not None else None
    c, v = guarded(lambda: m.prefix)
    pc = c if c is not None else enc(v)
    out["prefix"] = v
    c, v = guarded(lambda: str(m))
    sc = c if c is not None else enc(v)
    out["str"] = v
    out["info"] = rxc + " | " + pc + " | " + sc
    ms, raws = [], []
    for p in case.get("paths", []):
        m2 = build(case)
        c, v = guarded(lambda: m2.match(p))
        if c is not None:
            ms.append(c)
        elif v is None:
            ms.append("None")
        else:
            ms.append(dict_canon(v))
        raws.append(v)
    out["matches"] = " | ".join(ms)
    out["match_raw"] = raws
    return out


def impl_sub(case):
    ms, raws = [], []
    for p in case["paths"]:
        a, b = build(case["a"]), build(case["b"])
        c, v = guarded(lambda: a.sub(b, p))
        if c is not None:
            ms.append(c)
            raws.append([v, None])
            continue
        if v is None:
            ms.append("None")
            raws.append([None, None])
            continue
        c2, v2 = guarded(lambda: b.sub(a, v))
        ms.append(enc(v) + " " + (c2 if c2 is not None else ("None" if v2 is None else enc(v2))))
        raws.append([v, v2])
    return {"subs": " | ".join(ms), "raw": raws}


def impl_android(loc):
    from compare_locales.paths.matcher import Matcher
    c, a = guarded(lambda: str(Matcher("{android_locale}", {"locale": loc})))
    # str() truncates on MissingEnvironment; expand with the node itself to see errors
    if c is not None:
        return {"canon": c, "android": a, "back": None}
    c2, d = guarded(lambda: Matcher("{android_locale}").match(a))
    if c2 is not None:
        return {"canon": enc(a) + " " + c2, "android": a, "back": d}
    back = None if d is None else d.get("locale")
    return {"canon": enc(a) + " " + opt_text(back), "android": a, "back": back, "dict": d}


def impl_moz(pat, paths):
    from compare_locales import mozpath
    import translate
    mozpath.re_cache.pop(pat, None)
    res = []
    for p in paths:
        c, v = guarded(lambda: mozpath.match(p, pat))
        res.append(c if c is not None else ("1" if v else "0"))
    if not pat:
        rx = "-"
    else:
        tree, _, _ = translate.parse_tree(mozpath.re_cache[pat].pattern)
        rx = " ".join(translate.to_wire(tree))
    return {"canon": rx + " | " + " ".join(res), "res": res}


def impl_parse(pat):
    from compare_locales.paths.matcher import PatternParser
    c, v = guarded(lambda: PatternParser().parse(pat))
    return c if c is not None else pattern_canon(v)


def impl_sequence(case):
    """operations on matcher OBJECTS in sequence: use a0 (match, prefix, sub), then rebind it with
    with_env, then use the rebound matcher and the original again"""
    a0 = build(case["a0"])
    b = build(case["b"])
    p_old, p_new, pb = case["p_old"], case["p_new"], case["pb"]
    res, canon = {}, {}

    def step(name, f, kind):
        c, v = guarded(f)
        res[name] = v
        if c is not None:
            canon[name] = c
        elif kind == "match":
            canon[name] = "None" if v is None else dict_canon(v)
        else:
            canon[name] = "None" if v is None else enc(v)
    step("a0.match.old", lambda: a0.match(p_old), "match")
    step("a0.prefix", lambda: a0.prefix, "text")
    step("a0.sub.old", lambda: a0.sub(b, p_old), "text")
    c, a1 = guarded(lambda: a0.with_env(dict(case["with"])))
    if c is not None:
        res["with_env"] = a1
        return {"res": res, "canon": canon}
    step("a1.match.new", lambda: a1.match(p_new), "match")
    step("a1.match.old", lambda: a1.match(p_old), "match")
    step("a1.prefix", lambda: a1.prefix, "text")
    step("a1.sub.new", lambda: a1.sub(b, p_new), "text")
    step("b.sub.a1", lambda: b.sub(a1, pb), "text")
    step("a0.match.old.again", lambda: a0.match(p_old), "match")
    step("a0.match.new", lambda: a0.match(p_new), "match")
    step("b.sub.a0", lambda: b.sub(a0, pb), "text")
    return {"res": res, "canon": canon}

"""C14 adapters: build real ProjectConfig objects from JSON-able specs, run the implementation,
encode the case for the Lean driver, and the independent reference interpreter (oracle).

A configuration spec is a dict
  {"locales": None | [str], "env": {name: value}, "paths": [{"l10n": PAT, "locales": [str]?}],
   "rules": [{"path": PAT | [PAT], "key": str | [str] (optional), "action": "error"|"warning"|"ignore"}],
   "children": [spec], "excludes": [spec]}
A PAT is a list of tokens: "literal text" | ["var", name] | ["star"] | ["starstar", "/" | ""].
"""
import os
import re
import shutil
import tempfile

ACT = {"error": "e", "warning": "w", "ignore": "i"}
ROOT_PLACEHOLDER = "@ROOT@"


# ------------------------------------------------------------------ patterns
def pat_str(pat):
    out = []
    for t in pat:
        if isinstance(t, str):
            out.append(t)
        elif t[0] == "var":
            out.append("{%s}" % t[1])
        elif t[0] == "star":
            out.append("*")
        elif t[0] == "starstar":
            out.append("**" + t[1])
        else:
            raise ValueError(t)
    return "".join(out)


FINDING_FALSY = "C14-F14-literal-path-falsy"


def ref_path_match(pat, env, locale, fullpath, falsy=False, root=None):
    """independent reference of the documented path-pattern semantics (oracle side):
    `*` stays inside one path segment, `**/` spans any number of directories, a trailing `**`
    matches the rest, `{locale}` is the file's locale, other variables come from the environment;
    the whole path must match.
    `falsy=True` is the root-cause probe of finding F14: a pattern without any variable or wildcard
    yields an empty (falsy) dict from Matcher.match and project.py tests truthiness."""
    if falsy and all(isinstance(t, str) for t in pat):
        return False
    rx = []
    if root is not None:
        # a relative pattern of a rooted configuration is relative to the configuration's root
        t0 = pat[0]
        first = t0 if isinstance(t0, str) else ((locale if t0[1] == "locale" else env[t0[1]]) if t0[0] == "var" else None)
        if first is not None and not first.startswith("/"):
            rx.append(re.escape(root.rstrip("/") + "/"))
    for t in pat:
        if isinstance(t, str):
            rx.append(re.escape(t))
        elif t[0] == "var":
            v = locale if t[1] == "locale" else (ref_android(locale) if t[1] == "android_locale" else env[t[1]])
            rx.append(re.escape(v))
        elif t[0] == "star":
            rx.append("[^/]*")
        elif t[0] == "starstar":
            rx.append("(?:.+%s)?" % re.escape(t[1]))
    return re.fullmatch("".join(rx), fullpath, re.S) is not None


def ref_android(locale):
    """documented Android resource qualifier of a BCP 47 code (language, language-REGION, with script)"""
    parts = locale.split("-")
    parts[0] = {"he": "iw", "id": "in", "yi": "ji"}.get(parts[0], parts[0])
    if len(parts) == 1:
        return parts[0]
    if len(parts) == 2 and len(parts[1]) == 2 and parts[1].isupper():
        return "%s-r%s" % tuple(parts)
    return "b+" + "+".join(parts)


# ------------------------------------------------------------------ the oracle: reference interpreter
SEV = {None: 0, "ignore": 1, "warning": 2, "error": 3}


def as_list(x):
    return list(x) if isinstance(x, list) else [x]


def rule_paths(rule):
    return rule["path"] if rule.get("path_is_list") else [rule["path"]]


def ref_key_match(key, entity):
    if key.startswith("re:"):
        return re.match(key[3:], entity) is not None      # expression, matched at the start
    return key == entity                                  # literal


def ref_rule_applies(rule, env, file, entity, falsy=False, root=None):
    if not any(ref_path_match(p, env, file["locale"], file["fullpath"], falsy, root) for p in rule_paths(rule)):
        return False
    if "key" not in rule:
        return entity is None
    if entity is None:
        return False
    return any(ref_key_match(k, entity) for k in as_list(rule["key"]))


def ref_has_locale(spec, locale):
    if spec["locales"] is not None and locale in spec["locales"]:
        return True
    if any(locale in p.get("locales", []) for p in spec["paths"]):
        return True
    return any(ref_has_locale(c, locale) for c in spec["children"])


def ref_inner(spec, file, entity, falsy=False):
    """verdict before the locale test; None = not covered"""
    for ex in spec["excludes"]:
        if ref_verdict(ex, file, None, falsy) == "error":
            return None
    env = spec.get("env", {})
    root = spec.get("root")
    results = [ref_inner(c, file, entity, falsy) for c in spec["children"]]
    covered = any(("locales" not in p or file["locale"] in p["locales"])
                  and ref_path_match(p["l10n"], env, file["locale"], file["fullpath"], falsy, root) for p in spec["paths"])
    if covered:
        own = "error"
        for rule in spec["rules"]:          # the last applicable rule wins
            if ref_rule_applies(rule, env, file, entity, falsy, root):
                own = rule["action"]
        results.append(own)
    return max(results, key=lambda a: SEV[a], default=None)


def ref_verdict(spec, file, entity, falsy=False):
    if file["locale"] is None or not ref_has_locale(spec, file["locale"]):
        return "ignore"
    return ref_inner(spec, file, entity, falsy) or "ignore"


# ------------------------------------------------------------------ the implementation
def subst_root(obj, root):
    if isinstance(obj, str):
        return obj.replace(ROOT_PLACEHOLDER, root)
    if isinstance(obj, list):
        return [subst_root(x, root) for x in obj]
    if isinstance(obj, dict):
        return {k: subst_root(v, root) for k, v in obj.items()}
    return obj


def build(spec):
    from compare_locales.paths import ProjectConfig
    if spec.get("root"):
        # a configuration file <root>/l10n.toml with basepath "." : rooted (relative) patterns
        cfg = ProjectConfig(spec["root"] + "/l10n.toml")
        cfg.set_root(".")
    else:
        cfg = ProjectConfig(None)
    if spec.get("env"):
        cfg.add_environment(**spec["env"])
    if spec["locales"] is not None:
        cfg.set_locales(list(spec["locales"]))
    pds = []
    for p in spec["paths"]:
        d = {"l10n": pat_str(p["l10n"])}
        if "locales" in p:
            d["locales"] = list(p["locales"])
        pds.append(d)
    cfg.add_paths(*pds)
    rds = []
    for r in spec["rules"]:
        d = {"action": r["action"]}
        d["path"] = [pat_str(p) for p in r["path"]] if r.get("path_is_list") else pat_str(r["path"])
        if "key" in r:
            d["key"] = list(r["key"]) if isinstance(r["key"], list) else r["key"]
        rds.append(d)
    cfg.add_rules(*rds)
    for c in spec["children"]:
        cfg.add_child(build(c))
    for e in spec["excludes"]:
        cfg.exclude(build(e))
    return cfg


def mkfile(f):
    from compare_locales.paths import File
    return File(f["fullpath"], f.get("file", os.path.basename(f["fullpath"])), locale=f["locale"])


# ------------------------------------------------------------------ wire encoding (model side)
def enc(s):
    return "t:" + ",".join(str(ord(c)) for c in s)


def enc_ints(xs):
    return "t:" + ",".join(str(x) for x in xs)


_TRUTH_MODE = None


def truth_mode():
    """How does project.py turn the result of Matcher.match() into a boolean at its two call sites?
    A pattern without variable and wildcard matches with an EMPTY dict.  The model's abstract path
    predicate is that boolean, so it is measured on the implementation (finding F14: truthiness):
    returns (l10n-paths site accepts {}, rule-path site accepts {})."""
    global _TRUTH_MODE
    if _TRUTH_MODE is None:
        from compare_locales.paths import ProjectConfig, File
        f = File("/probe/de/x.ftl", "x.ftl", locale="de")
        a = ProjectConfig(None)
        a.set_locales(["de"])
        a.add_paths({"l10n": "/probe/de/x.ftl"})
        b = ProjectConfig(None)
        b.set_locales(["de"])
        b.add_paths({"l10n": "/probe/{locale}/**"})
        b.add_rules({"path": "/probe/de/x.ftl", "action": "ignore"})
        _TRUTH_MODE = (a.filter(f) == "error", b.filter(f) == "ignore")
    return _TRUTH_MODE


class Wire:
    def __init__(self, locales, paths):
        self.locales = list(locales)
        self.paths = list(paths)
        self.lidx = {l: i for i, l in enumerate(self.locales)}
        self.pidx = {p: i for i, p in enumerate(self.paths)}
        self._cells = {}

    def universe(self):
        return ([str(len(self.locales))] + [enc(l) for l in self.locales]
                + [str(len(self.paths))] + [enc(p) for p in self.paths])

    def cells(self, pat, env, site):
        """extension of the REAL Matcher on the universe (the model's abstract path predicate), turned
        into a boolean the way project.py does at that call site (0 = l10n paths, 1 = rule paths)"""
        from compare_locales.paths import Matcher
        accept_empty = truth_mode()[site]
        key = (pat_str(pat), tuple(sorted(env.items())), accept_empty)
        if key in self._cells:
            return self._cells[key]
        m = Matcher(pat_str(pat), env=env, root=None)
        out = []
        np_ = len(self.paths)
        for li, loc in enumerate(self.locales):
            bound = m.with_env({"locale": loc})
            for pi, fp in enumerate(self.paths):
                m_ = bound.match(fp)
                if (m_ is not None) if accept_empty else bool(m_):
                    out.append(li * np_ + pi)
        self._cells[key] = out
        return out

    def locs(self, ls):
        return "N" if ls is None else enc_ints([self.lidx[l] for l in ls])

    def rawkey(self, k):
        import translate
        if k.startswith("re:"):
            w, _, _ = translate.wire_pattern(k[3:])
        else:
            w = "E"
        return [enc(k)] + w.split()

    def cfg(self, spec):
        env = spec.get("env", {})
        out = ["C", self.locs(spec["locales"]), str(len(spec["paths"]))]
        for p in spec["paths"]:
            out += [enc_ints(self.cells(p["l10n"], env, 0)), self.locs(p.get("locales"))]
        out.append(str(len(spec["rules"])))
        for r in spec["rules"]:
            out += ["R", ACT[r["action"]]]
            if r.get("path_is_list"):
                out += ["L", str(len(r["path"]))] + [enc_ints(self.cells(p, env, 1)) for p in r["path"]]
            else:
                out += ["1", enc_ints(self.cells(r["path"], env, 1))]
            if "key" not in r:
                out.append("N")
            elif isinstance(r["key"], list):
                out += ["L", str(len(r["key"]))]
                for k in r["key"]:
                    out += self.rawkey(k)
            else:
                out += ["1"] + self.rawkey(r["key"])
        out.append(str(len(spec["children"])))
        for c in spec["children"]:
            out += self.cfg(c)
        out.append(str(len(spec["excludes"])))
        for e in spec["excludes"]:
            out += self.cfg(e)
        return out



# ------------------------------------------------------------------ wire encoding of the COMPOSED model
# (c14.filterm): pattern TEXTS, environment and root instead of match tables
def exc_letter(ex):
    """exception class of the implementation -> the letter the driver prints for the model's PyErr"""
    import re as _re
    from compare_locales.paths.matcher import MissingEnvironment
    if isinstance(ex, KeyError):
        return "K"
    if isinstance(ex, MissingEnvironment):
        return "M"
    if isinstance(ex, _re.error):
        return "R"
    if isinstance(ex, RecursionError):
        return "C"
    if isinstance(ex, TypeError):
        return "T"
    if isinstance(ex, IndexError):
        return "I"
    return "X"


def stored_root(spec):
    """`Pattern.root` as Matcher stores it for the patterns of this configuration: the os.path
    normalisation (mozpath.abspath(root) + "/") is outside the model (see Paths/Matcher.lean)"""
    if not spec.get("root"):
        return None
    from compare_locales import mozpath
    root = mozpath.abspath(mozpath.join(mozpath.dirname(spec["root"] + "/l10n.toml"), "."))
    return mozpath.abspath(root) + "/"


class WireM(Wire):
    def cfg(self, spec):
        env = spec.get("env", {})
        out = ["C", self.locs(spec["locales"]), str(len(env))]
        for k, v in env.items():
            out += [enc(k), enc(v)]
        root = stored_root(spec)
        out.append("-" if root is None else enc(root))
        out.append(str(len(spec["paths"])))
        for p in spec["paths"]:
            out += [enc(pat_str(p["l10n"])), self.locs(p.get("locales"))]
        out.append(str(len(spec["rules"])))
        for r in spec["rules"]:
            out += ["R", ACT[r["action"]]]
            if r.get("path_is_list"):
                out += ["L", str(len(r["path"]))] + [enc(pat_str(p)) for p in r["path"]]
            else:
                out += ["1", enc(pat_str(r["path"]))]
            if "key" not in r:
                out.append("N")
            elif isinstance(r["key"], list):
                out += ["L", str(len(r["key"]))]
                for k in r["key"]:
                    out += self.rawkey(k)
            else:
                out += ["1"] + self.rawkey(r["key"])
        out.append(str(len(spec["children"])))
        for c in spec["children"]:
            out += self.cfg(c)
        out.append(str(len(spec["excludes"])))
        for e in spec["excludes"]:
            out += self.cfg(e)
        return out

def all_locales_of(spec, acc):
    if spec["locales"] is not None:
        acc.update(spec["locales"])
    for p in spec["paths"]:
        acc.update(p.get("locales", []))
    for c in spec["children"] + spec["excludes"]:
        all_locales_of(c, acc)
    return acc


# ------------------------------------------------------------------ worker entry points
def filter_case(spec, files, entities, order):
    """One configuration, all (file, entity) queries.
    files: [{"fullpath", "locale"}], entities: [None | str], order: permutation of query indices
    (query q = file q // len(entities), entity q % len(entities)); the implementation answers the
    queries on ONE config object in that order (exercises the per-locale cache).
    returns {"impl": verdict letters in canonical query order, "line": driver line,
             "oracle": [[query index, expected, got]]}"""
    cfg = build(spec)
    fobjs = [mkfile(f) for f in files]
    ne = len(entities)
    nq = len(files) * ne
    res = [None] * nq
    resm = [None] * nq         # the same, an exception shown as the letter of its class (composed stream)
    for q in order:
        f, e = fobjs[q // ne], entities[q % ne]
        try:
            rv = cfg.filter(f) if e is None else cfg.filter(f, e)
            res[q] = resm[q] = ACT.get(rv, "?")
        except Exception as ex:   # noqa
            res[q] = "X"
            resm[q] = exc_letter(ex)
            last_exc = "%s: %s" % (type(ex).__name__, ex)
    # a second, fresh object answering in canonical order must agree (verdicts do not depend on history)
    cfg2 = build(spec)
    hist = []
    for q in range(nq):
        f, e = fobjs[q // ne], entities[q % ne]
        try:
            rv = ACT.get(cfg2.filter(f, e), "?")
        except Exception:   # noqa
            rv = "X"
        if rv != res[q]:
            hist.append(q)
    locales = sorted(all_locales_of(spec, {f["locale"] for f in files if f["locale"] is not None}))
    paths = sorted({f["fullpath"] for f in files})
    w = Wire(locales, paths)
    toks = ["c14.filter"] + w.universe() + w.cfg(spec)
    # files with locale None are not part of the model (File.locale is a text there)
    mq = [q for q in range(nq) if files[q // ne]["locale"] is not None]
    toks.append(str(len(mq)))
    qtoks = []
    for q in mq:
        f, e = files[q // ne], entities[q % ne]
        qtoks += [str(w.lidx[f["locale"]]), str(w.pidx[f["fullpath"]]), "-" if e is None else enc(e)]
    toks += qtoks
    # the composed model gets the pattern TEXTS (no table computed by the real Matcher)
    wm = WireM(locales, paths)
    toksm = ["c14.filterm"] + wm.universe() + wm.cfg(spec) + [str(len(mq))] + qtoks
    oracle = []
    for q in range(nq):
        f, e = files[q // ne], entities[q % ne]
        if e is not None and "\n" in e:
            continue        # excluded point of the literal-key rule (`$` also matches before a final newline)
        exp = ACT[ref_verdict(spec, f, e)]
        if exp != res[q]:
            # root cause probe: does "a pattern without variable/wildcard never matches" explain the answer?
            fnd = FINDING_FALSY if ACT[ref_verdict(spec, f, e, True)] == res[q] else None
            oracle.append([q, exp, res[q], fnd])
    return {"impl": "".join(res), "implm": "".join(resm), "model_queries": mq, "line": " ".join(toks),
            "line_m": " ".join(toksm), "oracle": oracle, "history": hist}


def filterm_case(spec, files, entities, judge):
    """A case of the composed stream only (rooted configurations, patterns whose matcher raises):
    the real ProjectConfig answers every query on a fresh-built object; exceptions are reported by
    class.  `judge`: the reference interpreter defines the answers (no raising pattern by construction)."""
    ne = len(entities)
    nq = len(files) * ne
    locales = sorted(all_locales_of(spec, {f["locale"] for f in files if f["locale"] is not None}))
    paths = sorted({f["fullpath"] for f in files})
    wm = WireM(locales, paths)
    toks = ["c14.filterm"] + wm.universe() + wm.cfg(spec) + [str(nq)]
    for q in range(nq):
        f, e = files[q // ne], entities[q % ne]
        toks += [str(wm.lidx[f["locale"]]), str(wm.pidx[f["fullpath"]]), "-" if e is None else enc(e)]
    try:
        cfg = build(spec)
    except Exception as ex:   # noqa
        return {"implm": "B" + exc_letter(ex), "line_m": " ".join(toks), "oracle": [], "history": []}
    fobjs = [mkfile(f) for f in files]
    res = []
    for q in range(nq):
        f, e = fobjs[q // ne], entities[q % ne]
        try:
            res.append(ACT.get(cfg.filter(f, e), "?"))
        except Exception as ex:   # noqa
            res.append(exc_letter(ex))
    # the answers must not depend on the query history, exceptions included
    cfg2 = build(spec)
    hist = []
    for q in reversed(range(nq)):
        f, e = fobjs[q // ne], entities[q % ne]
        try:
            rv = ACT.get(cfg2.filter(f, e), "?")
        except Exception as ex:   # noqa
            rv = exc_letter(ex)
        if rv != res[q]:
            hist.append(q)
    oracle = []
    if judge:
        for q in range(nq):
            f, e = files[q // ne], entities[q % ne]
            exp = ACT[ref_verdict(spec, f, e)]
            if exp != res[q]:
                oracle.append([q, exp, res[q], None])
    return {"implm": "".join(res), "line_m": " ".join(toks), "oracle": oracle, "history": hist}


def filter_verdicts(spec, files, entities):
    """replay helper: verdict letters (implementation, reference)"""
    cfg = build(spec)
    out = []
    for f in files:
        for e in entities:
            out.append((ACT.get(cfg.filter(mkfile(f), e), "?"), ACT[ref_verdict(spec, f, e)]))
    return out


FORMATS = {
    "properties": lambda kv: "".join("%s = %s\n" % (k, v) for k, v in kv),
    "ftl": lambda kv: "".join("%s = %s\n" % (k, v) for k, v in kv),
    "dtd": lambda kv: "".join('<!ENTITY %s "%s">\n' % (k, v) for k, v in kv),
    "ini": lambda kv: "[Strings]\n" + "".join("%s=%s\n" % (k, v) for k, v in kv),
}
CAN_MERGE_FORMATS = ("properties", "dtd", "ini")


def compare_case(specs, locale, rel, ref_keys, l10n_keys, fmt):
    """filter -> Observer -> ContentComparer on real files.
    specs: list of config specs (None = Observer(filter=None)), patterns rooted at ROOT_PLACEHOLDER.
    returns {"impl": canonical result, "line": driver line, "oracle": [messages], ...}"""
    from compare_locales.compare.content import ContentComparer
    from compare_locales.compare.observer import Observer
    from compare_locales.paths import File
    from compare_locales import parser as P
    import io
    import contextlib
    root = tempfile.mkdtemp(prefix="c14-")
    try:
        specs = [subst_root(s, root) for s in specs]
        refpath = "%s/en-US/%s" % (root, rel)
        l10npath = "%s/%s/%s" % (root, locale, rel)
        mergepath = "%s/merge/%s/%s" % (root, locale, rel)
        for pth, keys in ((refpath, ref_keys), (l10npath, l10n_keys)):
            os.makedirs(os.path.dirname(pth), exist_ok=True)
            with open(pth, "w", encoding="utf-8") as f:
                f.write(FORMATS[fmt]([(k, "value %s" % k) for k in keys]))
        ref = File(refpath, rel, locale=None)
        l10n = File(l10npath, rel, locale=locale)
        cc = ContentComparer()
        observers = []
        for s in specs:
            o = Observer(filter=build(s).filter) if s is not None else Observer()
            observers.append(o)
            cc.observers.append(o)
        with contextlib.redirect_stdout(io.StringIO()):
            cc.compare(ref, l10n, mergepath)
        missing_keys = [k for k in ref_keys if k not in l10n_keys]
        own = cc.observers.summary.get(locale)
        m = own["missing"] if own else 0
        r = own["report"] if own else 0
        shown = [d["missingEntity"] for d in cc.observers.details[l10n] if "missingEntity" in d]
        obs_shown = []
        for o in observers:
            obs_shown.append([d["missingEntity"] for d in o.details[l10n] if "missingEntity" in d])
        merged = None
        if os.path.exists(mergepath):
            p = P.getParser(rel)
            p.readFile(mergepath)
            mkeys = [e.key for e in p.parse()]
            merged = [k for k in mkeys if k not in l10n_keys]
            merged_all = mkeys
        sums = []
        for o in observers:
            s = o.summary.get(locale)
            sums.append("-" if s is None else "%d:%d" % (s["missing"], s["report"]))
        idx = {k: i for i, k in enumerate(missing_keys)}
        ix = lambda ks: ",".join(str(idx.get(k, "?")) for k in ks)
        can_merge = fmt in CAN_MERGE_FORMATS
        canon = "ok m=%d r=%d M=%s S=%s U=%s" % (m, r, ix(merged or []) if can_merge else "n/a", ix(shown), "|".join(sums))
        # ---- driver line
        locales = sorted(set().union(*[all_locales_of(s, set()) for s in specs if s is not None], {locale}))
        w = Wire(locales, [l10npath])
        toks = ["c14.compare"] + w.universe() + [str(len(specs))]
        for s in specs:
            toks += ["F"] if s is None else w.cfg(s)
        toks += [str(w.lidx[locale]), "0", str(len(missing_keys))] + [enc(k) for k in missing_keys]
        # ---- oracle (property text only), verdicts from the reference interpreter
        fdesc = {"fullpath": l10npath, "locale": locale}

        def judge(falsy):
            msgs = []
            per_obs = [[("error" if s is None else ref_verdict(s, fdesc, k, falsy)) for k in missing_keys] for s in specs]
            all_ignored = [k for i, k in enumerate(missing_keys) if all(v[i] == "ignore" for v in per_obs)]
            for k in all_ignored:
                if k in shown or any(k in os_ for os_ in obs_shown):
                    msgs.append("ignored missing key %r is shown" % k)
                if merged is not None and k in merged:
                    msgs.append("ignored missing key %r is merged" % k)
            if merged is not None and merged_all[:len(l10n_keys)] != list(l10n_keys):
                msgs.append("merged file does not start with the localized entries")
            if len(specs) == 1 and specs[0] is not None:
                v = per_obs[0]
                n_err = sum(1 for a in v if a == "error")
                n_warn = sum(1 for a in v if a == "warning")
                for i, k in enumerate(missing_keys):
                    if v[i] == "warning" and merged is not None and k in merged:
                        msgs.append("warning-level missing key %r is merged" % k)
                s = observers[0].summary.get(locale)
                if s is not None:
                    if s["missing"] + s["report"] > n_err + n_warn:
                        msgs.append("ignored missing keys are counted: missing=%d report=%d, non-ignored=%d" % (
                            s["missing"], s["report"], n_err + n_warn))
                    if s["report"] != n_warn or s["missing"] != n_err:
                        msgs.append("counts: missing=%d report=%d, expected missing=%d (error keys) report=%d (warning keys)" % (
                            s["missing"], s["report"], n_err, n_warn))
                elif ref_verdict(specs[0], fdesc, "", falsy) != "ignore":
                    msgs.append("no summary recorded although the file is not ignored")
            return msgs, per_obs

        msgs, per_obs = judge(False)
        finding = None
        if msgs and not judge(True)[0]:
            finding = FINDING_FALSY
        nontrivial = len({a for v in per_obs for a in v})
        return {"impl": canon, "can_merge": can_merge, "line": " ".join(toks), "oracle": msgs, "finding": finding,
                "classes": nontrivial, "verdicts": ["".join(ACT[a] for a in v) for v in per_obs]}
    finally:
        shutil.rmtree(root, ignore_errors=True)

"""C14 adapters: build real ProjectConfig objects from JSON-able specs, run the implementation,
encode the case for the Lean driver, and the independent reference interpreter (oracle).

A configuration spec is a dict
  {"locales": None | [str], "env": {name: value}, "paths": [{"l10n": PAT, "locales": [str]?}],
   "rules": [{"path": PAT | [PAT], "key": str | [str] (optional), "action": "error"|"warning"|"ignore"}],
   "children": [spec], "excludes": [spec]}
A PAT is a list of tokens: "literal text" | ["var", name] | ["star"] | ["starstar", "/" | ""].
"""
import os
import re
import shutil
import tempfile

ACT = {"error": "e", "warning": "w", "ignore": "i"}
ROOT_PLACEHOLDER = "@ROOT@"


# ------------------------------------------------------------------ patterns
def pat_str(pat):
    out = []
    for t in pat:
        if isinstance(t, str):
            out.append(t)
        elif t[0] == "var":
            out.append("{%s}" % t[1])
        elif t[0] == "star":
            out.append("*")
        elif t[0] == "starstar":
            out.append("**" + t[1])
        else:
            raise ValueError(t)
    return "".join(out)


FINDING_FALSY = "C14-F14-literal-path-falsy"


def ref_path_match(pat, env, locale, fullpath, falsy=False, root=None):
    """independent reference of the documented path-pattern semantics (oracle side):
    `*` stays inside one path segment, `**/` spans any number of directories, a trailing `**`
    matches the rest, `{locale}` is the file's locale, other variables come from the environment;
    the whole path must match.
    `falsy=True` is the root-cause probe of finding F14: a pattern without any variable or wildcard
    yields an empty (falsy) dict from Matcher.match and project.py tests truthiness."""
    if falsy and all(isinstance(t, str) for t in pat):
        return False
    rx = []
    if root is not None:
        # a relative pattern of a rooted configuration is relative to the configuration's root
        t0 = pat[0]
        first = t0 if isinstance(t0, str) else ((locale if t0[1] == "locale" else env[t0[1]]) if t0[0] == "var" else None)
        if first is not None and not first.startswith("/"):
            rx.append(re.escape(root.rstrip("/") + "/"))
    for t in pat:
        if isinstance(t, str):
            rx.append(re.escape(t))
        elif t[0] == "var":
            v = locale if t[1] == "locale" else (ref_android(locale) if t[1] == "android_locale" else env[t[1]])
            rx.append(re.escape(v))
        elif t[0] == "star":
            rx.append("[^/]*")
        elif t[0] == "starstar":
            rx.append("(?:.+%s)?" % re.escape(t[1]))
    return re.fullmatch("".join(rx), fullpath, re.S) is not None


def ref_android(locale):
    """documented Android resource qualifier of a BCP 47 code (language, language-REGION, with script)"""
    parts = locale.split("-")
    parts[0] = {"he": "iw", "id": "in", "yi": "ji"}.get(parts[0], parts[0])
    if len(parts) == 1:
        return parts[0]
    if len(parts) == 2 and len(parts[1]) == 2 and parts[1].isupper():
        return "%s-r%s" % tuple(parts)
    return "b+" + "+".join(parts)


# ------------------------------------------------------------------ the oracle: reference interpreter
SEV = {None: 0, "ignore": 1, "warning": 2, "error": 3}


def as_list(x):
    return list(x) if isinstance(x, list) else [x]


def rule_paths(rule):
    return rule["path"] if rule.get("path_is_list") else [rule["path"]]


def ref_key_match(key, entity):
    if key.startswith("re:"):
        return re.match(key[3:], entity) is not None      # expression, matched at the start
    return key == entity                                  # literal


def ref_rule_applies(rule, env, file, entity, falsy=False, root=None):
    if not any(ref_path_match(p, env, file["locale"], file["fullpath"], falsy, root) for p in rule_paths(rule)):
        return False
    if "key" not in rule:
        return entity is None
    if entity is None:
        return False
    return any(ref_key_match(k, entity) for k in as_list(rule["key"]))


def ref_has_locale(spec, locale):
    if spec["locales"] is not None and locale in spec["locales"]:
        return True
    if any(locale in p.get("locales", []) for p in spec["paths"]):
        return True
    return any(ref_has_locale(c, locale) for c in spec["children"])


def ref_inner(spec, file, entity, falsy=False):
    """verdict before the locale test; None = not covered"""
    for ex in spec["excludes"]:
        if ref_verdict(ex, file, None, falsy) == "error":
            return None
    env = spec.get("env", {})
    root = spec.get("root")
    results = [ref_inner(c, file, entity, falsy) for c in spec["children"]]
    covered = any(("locales" not in p or file["locale"] in p["locales"])
                  and ref_path_match(p["l10n"], env, file["locale"], file["fullpath"], falsy, root) for p in spec["paths"])
    if covered:
        own = "error"
        for rule in spec["rules"]:          # the last applicable rule wins
            if ref_rule_applies(rule, env, file, entity, falsy, root):
                own = rule["action"]
        results.append(own)
    return max(results, key=lambda a: SEV[a], default=None)


def ref_verdict(spec, file, entity, falsy=False):
    if file["locale"] is None or not ref_has_locale(spec, file["locale"]):
        return "ignore"
    return ref_inner(spec, file, entity, falsy) or "ignore"


# ------------------------------------------------------------------ the implementation
def subst_root(obj, root):
    if isinstance(obj, str):
        return obj.replace(ROOT_PLACEHOLDER, root)
    if isinstance(obj, list):
        return [subst_root(x, root) for x in obj]
    if isinstance(obj, dict):
        return {k: subst_root(v, root) for k, v in obj.items()}
    return obj


def build(spec):
    from compare_locales.paths import ProjectConfig
    if spec.get("root"):
        # a configuration file <root>/l10n.toml with basepath "." : rooted (relative) patterns
        cfg = ProjectConfig(spec["root"] + "/l10n.toml")
        cfg.set_root(".")
    else:
        cfg = ProjectConfig(None)
    if spec.get("env"):
        cfg.add_environment(**spec["env"])
    if spec["locales"] is not None:
        cfg.set_locales(list(spec["locales"]))
    pds = []
    for p in spec["paths"]:
        d = {"l10n": pat_str(p["l10n"])}
        if "locales" in p:
            d["locales"] = list(p["locales"])
        pds.append(d)
    cfg.add_paths(*pds)
    rds = []
    for r in spec["rules"]:
        d = {"action": r["action"]}
        d["path"] = [pat_str(p) for p in r["path"]] if r.get("path_is_list") else pat_str(r["path"])
        if "key" in r:
            d["key"] = list(r["key"]) if isinstance(r["key"], list) else r["key"]
        rds.append(d)
    cfg.add_rules(*rds)
    for c in spec["children"]:
        cfg.add_child(build(c))
    for e in spec["excludes"]:
        cfg.exclude(build(e))
    return cfg


def mkfile(f):
    from compare_locales.paths import File
    return File(f["fullpath"], f.get("file", os.path.basename(f["fullpath"])), locale=f["locale"])


# ------------------------------------------------------------------ wire encoding (model side)
def enc(s):
    return "t:" + ",".join(str(ord(c)) for c in s)


def enc_ints(xs):
    return "t:" + ",".join(str(x) for x in xs)


_TRUTH_MODE = None


def truth_mode():
    """How does project.py turn the result of Matcher.match() into a boolean at its two call sites?
    A pattern without variable and wildcard matches with an EMPTY dict.  The model's abstract path
    predicate is that boolean, so it is measured on the implementation (finding F14: truthiness):
    returns (l10n-paths site accepts {}, rule-path site accepts {})."""
    global _TRUTH_MODE
    if _TRUTH_MODE is None:
        from compare_locales.paths import ProjectConfig, File
        f = File("/probe/de/x.ftl", "x.ftl", locale="de")
        a = ProjectConfig(None)
        a.set_locales(["de"])
        a.add_paths({"l10n": "/probe/de/x.ftl"})
        b = ProjectConfig(None)
        b.set_locales(["de"])
        b.add_paths({"l10n": "/probe/{locale}/**"})
        b.add_rules({"path": "/probe/de/x.ftl", "action": "ignore"})
        _TRUTH_MODE = (a.filter(f) == "error", b.filter(f) == "ignore")
    return _TRUTH_MODE


class Wire:
    def __init__(self, locales, paths):
        self.locales = list(locales)
        self.paths = list(paths)
        self.lidx = {l: i for i, l in enumerate(self.locales)}
        self.pidx = {p: i for i, p in enumerate(self.paths)}
        self._cells = {}

    def universe(self):
        return ([str(len(self.locales))] + [enc(l) for l in self.locales]
                + [str(len(self.paths))] + [enc(p) for p in self.paths])

    def cells(self, pat, env, site):
        """extension of the REAL Matcher on the universe (the model's abstract path predicate), turned
        into a boolean the way project.py does at that call site (0 = l10n paths, 1 = rule paths)"""
        from compare_locales.paths import Matcher
        accept_empty = truth_mode()[site]
        key = (pat_str(pat), tuple(sorted(env.items())), accept_empty)
        if key in self._cells:
            return self._cells[key]
        m = Matcher(pat_str(pat), env=env, root=None)
        out = []
        np_ = len(self.paths)
        for li, loc in enumerate(self.locales):
            bound = m.with_env({"locale": loc})
            for pi, fp in enumerate(self.paths):
                m_ = bound.match(fp)
                if (m_ is not None) if accept_empty else bool(m_):
                    out.append(li * np_ + pi)
        self._cells[key] = out
        return out

    def locs(self, ls):
        return "N" if ls is None else enc_ints([self.lidx[l] for l in ls])

    def rawkey(self, k):
        import translate
        if k.startswith("re:"):
            w, _, _ = translate.wire_pattern(k[3:])
        else:
            w = "E"
        return [enc(k)] + w.split()

    def cfg(self, spec):
        env = spec.get("env", {})
        out = ["C", self.locs(spec["locales"]), str(len(spec["paths"]))]
        for p in spec["paths"]:
            out += [enc_ints(self.cells(p["l10n"], env, 0)), self.locs(p.get("locales"))]
        out.append(str(len(spec["rules"])))
        for r in spec["rules"]:
            out += ["R", ACT[r["action"]]]
            if r.get("path_is_list"):
                out += ["L", str(len(r["path"]))] + [enc_ints(self.cells(p, env, 1)) for p in r["path"]]
            else:
                out += ["1", enc_ints(self.cells(r["path"], env, 1))]
            if "key" not in r:
                out.append("N")
            elif isinstance(r["key"], list):
                out += ["L", str(len(r["key"]))]
                for k in r["key"]:
                    out += self.rawkey(k)
            else:
                out += ["1"] + self.rawkey(r["key"])
        out.append(str(len(spec["children"])))
        for c in spec["children"]:
            out += self.cfg(c)
        out.append(str(len(spec["excludes"])))
        for e in spec["excludes"]:
            out += self.cfg(e)
        return out



# ------------------------------------------------------------------ wire encoding of the COMPOSED model
# (c14.filterm): pattern TEXTS, environment and root instead of match tables
def exc_letter(ex):
    """exception class of the implementation -> the letter the driver prints for the model's PyErr"""
    import re as _re
    from compare_locales.paths.matcher import MissingEnvironment
    if isinstance(ex, KeyError):
        return "K"
    if isinstance(ex, MissingEnvironment):
        return "M"
    if isinstance(ex, _re.error):
        return "R"
    if isinstance(ex, RecursionError):
        return "C"
    if isinstance(ex, TypeError):
        return "T"
    if isinstance(ex, IndexError):
        return "I"
    return "X"


def stored_root(spec):
    """`Pattern.root` as Matcher stores it for the patterns of this configuration: the os.path
    normalisation (mozpath.abspath(root) + "/") is outside the model (see Paths/Matcher.lean)"""
    if not spec.get("root"):
        return None
    from compare_locales import mozpath
    root = mozpath.abspath(mozpath.join(mozpath.dirname(spec["root"] + "/l10n.toml"), "."))
    return mozpath.abspath(root) + "/"


class WireM(Wire):
    def cfg(self, spec):
        env = spec.get("env", {})
        out = ["C", self.locs(spec["locales"]), str(len(env))]
        for k, v in env.items():
            out += [enc(k), enc(v)]
        root = stored_root(spec)
        out.append("-" if root is None else enc(root))
        out.append(str(len(spec["paths"])))
        for p in spec["paths"]:
            out += [enc(pat_str(p["l10n"])), self.locs(p.get("locales"))]
        out.append(str(len(spec["rules"])))
        for r in spec["rules"]:
            out += ["R", ACT[r["action"]]]
            if r.get("path_is_list"):
                out += ["L", str(len(r["path"]))] + [enc(pat_str(p)) for p in r["path"]]
            else:
                out += ["1", enc(pat_str(r["path"]))]
            if "key" not in r:
                out.append("N")
            elif isinstance(r["key"], list):
                out += ["L", str(len(r["key"]))]
                for k in r["key"]:
                    out += self.rawkey(k)
            else:
                out += ["1"] + self.rawkey(r["key"])
        out.append(str(len(spec["children"])))
        for c in spec["children"]:
            out += self.cfg(c)
        out.append(str(len(spec["excludes"])))
        for e in spec["excludes"]:
            out += self.cfg(e)
        return out

def all_locales_of(spec, acc):
    if spec["locales"] is not None:
        acc.update(spec["locales"])
    for p in spec["paths"]:
        acc.update(p.get("locales", []))
    for c in spec["children"] + spec["excludes"]:
        all_locales_of(c, acc)
    return acc


# ------------------------------------------------------------------ worker entry points
def filter_case(spec, files, entities, order):
    """One configuration, all (file, entity) queries.
    files: [{"fullpath", "locale"}], entities: [None | str], order: permutation of query indices
    (query q = file q // len(entities), entity q % len(entities)); the implementation answers the
    queries on ONE config object in that order (exercises the per-locale cache).
    returns {"impl": verdict letters in canonical query order, "line": driver line,
             "oracle": [[query index, expected, got]]}"""
    cfg = build(spec)
    fobjs = [mkfile(f) for f in files]
    ne = len(entities)
    nq = len(files) * ne
    res = [None] * nq
    resm = [None] * nq         # the same, an exception shown as the letter of its class (composed stream)
    for q in order:
        f, e = fobjs[q // ne], entities[q % ne]
        try:
            rv = cfg.filter(f) if e is None else cfg.filter(f, e)
            res[q] = resm[q] = ACT.get(rv, "?")
        except Exception as ex:   # noqa
            res[q] = "X"
            resm[q] = exc_letter(ex)
            last_exc = "%s: %s" % (type(ex).__name__, ex)
    # a second, fresh object answering in canonical order must agree (verdicts do not depend on history)
    cfg2 = build(spec)
    hist = []
    for q in range(nq):
        f, e = fobjs[q // ne], entities[q % ne]
        try:
            rv = ACT.get(cfg2.filter(f, e), "?")
        except Exception:   # noqa
            rv = "X"
        if rv != res[q]:
            hist.append(q)
    locales = sorted(all_locales_of(spec, {f["locale"] for f in files if f["locale"] is not None}))
    paths = sorted({f["fullpath"] for f in files})
    w = Wire(locales, paths)
    toks = ["c14.filter"] + w.universe() + w.cfg(spec)
    # files with locale None are not part of the model (File.locale is a text there)
    mq = [q for q in range(nq) if files[q // ne]["locale"] is not None]
    toks.append(str(len(mq)))
    qtoks = []
    for q in mq:
        f, e = files[q // ne], entities[q % ne]
        qtoks += [str(w.lidx[f["locale"]]), str(w.pidx[f["fullpath"]]), "-" if e is None else enc(e)]
    toks += qtoks
    # the composed model gets the pattern TEXTS (no table computed by the real Matcher)
    wm = WireM(locales, paths)
    toksm = ["c14.filterm"] + wm.universe() + wm.cfg(spec) + [str(len(mq))] + qtoks
    oracle = []
    for q in range(nq):
        f, e = files[q // ne], entities[q % ne]
        if e is not None and "\n" in e:
            continue        # excluded point of the literal-key rule (`$` also matches before a final newline)
        exp = ACT[ref_verdict(spec, f, e)]
        if exp != res[q]:
            # root cause probe: does "a pattern without variable/wildcard never matches" explain the answer?
            fnd = FINDING_FALSY if ACT[ref_verdict(spec, f, e, True)] == res[q] else None
            oracle.append([q, exp, res[q], fnd])
    return {"impl": "".join(res), "implm": "".join(resm), "model_queries": mq, "line": " ".join(toks),
            "line_m": " ".join(toksm), "oracle": oracle, "history": hist}


def filterm_case(spec, files, entities, judge):
    """A case of the composed stream only (rooted configurations, patterns whose matcher raises):
    the real ProjectConfig answers every query on a fresh-built object; exceptions are reported by
    class.  `judge`: the reference interpreter defines the answers (no raising pattern by construction)."""
    ne = len(entities)
    nq = len(files) * ne
    locales = sorted(all_locales_of(spec, {f["locale"] for f in files if f["locale"] is not None}))
    paths = sorted({f["fullpath"] for f in files})
    wm = WireM(locales, paths)
    toks = ["c14.filterm"] + wm.universe() + wm.cfg(spec) + [str(nq)]
    for q in range(nq):
        f, e = files[q // ne], entities[q % ne]
        toks += [str(wm.lidx[f["locale"]]), str(wm.pidx[f["fullpath"]]), "-" if e is None else enc(e)]
    try:
        cfg = build(spec)
    except Exception as ex:   # noqa
        return {"implm": "B" + exc_letter(ex), "line_m": " ".join(toks), "oracle": [], "history": []}
    fobjs = [mkfile(f) for f in files]
    res = []
    for q in range(nq):
        f, e = fobjs[q // ne], entities[q % ne]
        try:
            res.append(ACT.get(cfg.filter(f, e), "?"))
        except Exception as ex:   # noqa
            res.append(exc_letter(ex))
    # the answers must not depend on the query history, exceptions included
    cfg2 = build(spec)
    hist = []
    for q in reversed(range(nq)):
        f, e = fobjs[q // ne], entities[q % ne]
        try:
            rv = ACT.get(cfg2.filter(f, e), "?")
        except Exception as ex:   # noqa
            rv = exc_letter(ex)
        if rv != res[q]:
            hist.append(q)
    oracle = []
    if judge:
        for q in range(nq):
            f, e = files[q // ne], entities[q % ne]
            exp = ACT[ref_verdict(spec, f, e)]
            if exp != res[q]:
                oracle.append([q, exp, res[q], None])
    return {"implm": "".join(res), "line_m": " ".join(toks), "oracle": oracle, "history": hist}


def filter_verdicts(spec, files, entities):
    """replay helper: verdict letters (implementation, reference)"""
    cfg = build(spec)
    out = []
    for f in files:
        for e in entities:
            out.append((ACT.get(cfg.filter(mkfile(f), e), "?"), ACT[ref_verdict(spec, f, e)]))
    return out


FORMATS = {
    "properties": lambda kv: "".join("%s = %s\n" % (k, v) for k, v in kv),
    "ftl": lambda kv: "".join("%s = %s\n" % (k, v) for k, v in kv),
    "dtd": lambda kv: "".join('<!ENTITY %s "%s">\n' % (k, v) for k, v in kv),
    "ini": lambda kv: "[Strings]\n" + "".join("%s=%s\n" % (k, v) for k, v in kv),
}
CAN_MERGE_FORMATS = ("properties", "dtd", "ini")


def compare_case(specs, locale, rel, ref_keys, l10n_keys, fmt):
    """filter -> Observer -> ContentComparer on real files.
    specs: list of config specs (None = Observer(filter=None)), patterns rooted at ROOT_PLACEHOLDER.
    returns {"impl": canonical result, "line": driver line, "oracle": [messages], ...}"""
    from compare_locales.compare.content import ContentComparer
    from compare_locales.compare.observer import Observer
    from compare_locales.paths import File
    from compare_locales import parser as P
    import io
    import contextlib
    root = tempfile.mkdtemp(prefix="c14-")
    try:
        specs = [subst_root(s, root) for s in specs]
        refpath = "%s/en-US/%s" % (root, rel)
        l10npath = "%s/%s/%s" % (root, locale, rel)
        mergepath = "%s/merge/%s/%s" % (root, locale, rel)
        for pth, keys in ((refpath, ref_keys), (l10npath, l10n_keys)):
            os.makedirs(os.path.dirname(pth), exist_ok=True)
            with open(pth, "w", encoding="utf-8") as f:
                f.write(FORMATS[fmt]([(k, "value %s" % k) for k in keys]))
        ref = File(refpath, rel, locale=None)
        l10n = File(l10npath, rel, locale=locale)
        cc = ContentComparer()
        observers = []
        for s in specs:
            o = Observer(filter=build(s).filter) if s is not None else Observer()
            observers.append(o)
            cc.observers.append(o)
        with contextlib.redirect_stdout(io.StringIO()):
            cc.compare(ref, l10n, mergepath)
        missing_keys = [k for k in ref_keys if k not in l10n_keys]
        own = cc.observers.summary.get(locale)
        m = own["missing"] if own else 0
        r = own["report"] if own else 0
        shown = [d["missingEntity"] for d in cc.observers.details[l10n] if "missingEntity" in d]
        obs_shown = []
        for o in observers:
            obs_shown.append([d["missingEntity"] for d in o.details[l10n] if "missingEntity" in d])
        merged = None
        if os.path.exists(mergepath):
            p = P.getParser(rel)
            p.readFile(mergepath)
            mkeys = [e.key for e in p.parse()]
            merged = [k for k in mkeys if k not in l10n_keys]
            merged_all = mkeys
        sums = []
        for o in observers:
            s = o.summary.get(locale)
            sums.append("-" if s is None else "%d:%d" % (s["missing"], s["report"]))
        idx = {k: i for i, k in enumerate(missing_keys)}
        ix = lambda ks: ",".join(str(idx.get(k, "?")) for k in ks)
        can_merge = fmt in CAN_MERGE_FORMATS
        canon = "ok m=%d r=%d M=%s S=%s U=%s" % (m, r, ix(merged or []) if can_merge else "n/a", ix(shown), "|".join(sums))
        # ---- driver line
        locales = sorted(set().union(*[all_locales_of(s, set()) for s in specs if s is not None], {locale}))
        w = Wire(locales, [l10npath])
        toks = ["c14.compare"] + w.universe() + [str(len(specs))]
        for s in specs:
            toks += ["F"] if s is None else w.cfg(s)
        toks += [str(w.lidx[locale]), "0", str(len(missing_keys))] + [enc(k) for k in missing_keys]
        # ---- oracle (property text only), verdicts from the reference interpreter
        fdesc = {"fullpath": l10npath, "locale": locale}

        def judge(falsy):
            msgs = []
            per_obs = [[("error" if s is None else ref_verdict(s, fdesc, k, falsy)) for k in missing_keys] for s in specs]
            all_ignored = [k for i, k in enumerate(missing_keys) if all(v[i] == "ignore" for v in per_obs)]
            for k in all_ignored:
                if k in shown or any(k in os_ for os_ in obs_shown):
                    msgs.append("ignored missing key %r is shown" % k)
                if merged is not None and k in merged:
                    msgs.append("ignored missing key %r is merged" % k)
            if merged is not None and merged_all[:len(l10n_keys)] != list(l10n_keys):
                msgs.append("merged file does not start with the localized entries")
            if len(specs) == 1 and specs[0] is not None:
                v = per_obs[0]
                n_err = sum(1 for a in v if a == "error")
                n_warn = sum(1 for a in v if a == "warning")
                for i, k in enumerate(missing_keys):
                    if v[i] == "warning" and merged is not None and k in merged:
                        msgs.append("warning-level missing key %r is merged" % k)
                s = observers[0].summary.get(locale)
                if s is not None:
                    if s["missing"] + s["report"] > n_err + n_warn:
                        msgs.append("ignored missing keys are counted: missing=%d report=%d, non-ignored=%d" % (
                            s["missing"], s["report"], n_err + n_warn))
                    if s["report"] != n_warn or s["missing"] != n_err:
                        msgs.append("counts: missing=%d report=%d, expected missing=%d (error keys) report=%d (warning keys)" % (
                            s["missing"], s["report"], n_err, n_warn))
                elif ref_verdict(specs[0], fdesc, "", falsy) != "ignore":
                    msgs.append("no summary recorded although the file is not ignored")
            return msgs, per_obs

        msgs, per_obs = judge(False)
        finding = None
        if msgs and not judge(True)[0]:
            finding = FINDING_FALSY
        nontrivial = len({a for v in per_obs for a in v})
        return {"impl": canon, "can_merge": can_merge, "line": " ".join(toks), "oracle": msgs, "finding": finding,
                "classes": nontrivial, "verdicts": ["".join(ACT[a] for a in v) for v in per_obs]}
    finally:
        shutil.rmtree(root, ignore_errors=True)


# ------------------------------------------------------------------ round 4: the quiet level as a dimension
# filter -> Observer(quiet) -> ContentComparer(quiet) on real files, quiet 0..4, with and without merge
JUNK_LINE = {"properties": "junk line\n", "ftl": "junk line\n", "dtd": "<!ENTITY broken>\n", "ini": "junk\n"}
CAT_CODE = {"error": "e", "warning": "w", "missingEntity": "me", "obsoleteEntity": "oe", "missingFile": "mf", "obsoleteFile": "of"}
STAT_KEYS = ("errors", "warnings", "missing", "missing_w", "report", "obsolete", "changed", "changed_w", "unchanged",
             "unchanged_w", "keys")
SHOWS = {"missingEntity": 2, "obsoleteEntity": 1, "error": 4, "warning": 3}     # listed iff quiet < this


def items_text(fmt, items):
    out = ["[Strings]\n"] if fmt == "ini" else []
    for it in items:
        if it[0] == "junk":
            out.append(JUNK_LINE[fmt])
        elif fmt == "dtd":
            out.append('<!ENTITY %s "%s">\n' % (it[1], it[2]))
        elif fmt == "ini":
            out.append("%s=%s\n" % (it[1], it[2]))
        else:
            out.append("%s = %s\n" % (it[1], it[2]))
    return "".join(out)


def addremove_order(left, right):
    """the documented order of AddRemove (C20): the reference order, every item that is only in the localization
    right after the last common item that precedes it there; -> [(action, key)]"""
    pos = {k: (i, -1) for i, k in enumerate(left)}
    off = -1
    rset = set()
    for i, k in enumerate(right):
        rset.add(k)
        if k in pos and pos[k][1] == -1:
            off = pos[k][0]
        else:
            pos.setdefault(k, (off, i))
    lset = set(left)
    out = []
    for k in sorted(pos, key=lambda k: pos[k]):
        out.append(("both" if k in lset and k in rset else ("delete" if k in lset else "add"), k))
    return out


def tcode(s):
    return "t" + ".".join(str(ord(c)) for c in s)


def obs_str(o, l10n, locale):
    s = o.summary.get(locale)
    sm = "-" if s is None else ":".join(str(s[k]) for k in STAT_KEYS)
    dets = []
    for d in o.details[l10n]:
        (cat, data), = d.items()
        dets.append("%s:d%s" % (CAT_CODE[cat], tcode(data)))
    return sm + ("!E" if o.error else "") + "[" + ",".join(dets) + "]"


def compareq_case(specs, locale, rel, ref_items, l10n_items, fmt):
    """returns {"runs": {quiet: canonical}, "lines": {quiet: driver line}, "oracle": [...], ...}"""
    from compare_locales.compare.content import ContentComparer
    from compare_locales.compare.observer import Observer
    from compare_locales.paths import File
    from compare_locales import parser as P
    import io
    import contextlib
    root = tempfile.mkdtemp(prefix="c14q-")
    try:
        specs = [subst_root(s, root) for s in specs]
        refpath = "%s/en-US/%s" % (root, rel)
        l10npath = "%s/%s/%s" % (root, locale, rel)
        mergepath = "%s/merge/%s/%s" % (root, locale, rel)
        for pth, items in ((refpath, ref_items), (l10npath, l10n_items)):
            os.makedirs(os.path.dirname(pth), exist_ok=True)
            with open(pth, "w", encoding="utf-8") as f:
                f.write(items_text(fmt, items))
        # the entity lists (input of the model: what the parsers yield), independent of compare()
        seqs = []
        for pth in (refpath, l10npath):
            p = P.getParser(rel)
            p.readFile(pth)
            seqs.append([(e.key, isinstance(e, P.Junk), 0 if isinstance(e, P.Junk) else e.count_words()) for e in p.parse()])
        refs, l10ns = seqs
        refinfo = {k: (j, w) for k, j, w in refs}
        l10ninfo = {k: j for k, j, w in l10ns}
        plan = addremove_order([k for k, _, _ in refs], [k for k, _, _ in l10ns])
        can_merge = fmt in CAN_MERGE_FORMATS
        results = {}
        for quiet in range(5):
            for merge in (True, False):
                if os.path.exists(os.path.dirname(mergepath)):
                    shutil.rmtree(os.path.dirname(mergepath), ignore_errors=True)
                ref = File(refpath, rel, locale=None)
                l10n = File(l10npath, rel, locale=locale)
                cc = ContentComparer(quiet=quiet)
                observers = []
                for s in specs:
                    o = Observer(quiet=quiet, filter=build(s).filter) if s is not None else Observer(quiet=quiet)
                    observers.append(o)
                    cc.observers.append(o)
                log, stats, merged_arg = [], [], []
                orig_notify, orig_stats, orig_merge = cc.observers.notify, cc.observers.updateStats, cc.merge

                def notify(cat, file, data, _o=orig_notify):
                    rv = _o(cat, file, data)
                    log.append((cat, data, rv))
                    return rv

                def update(file, st, _o=orig_stats):
                    stats.append(dict(st))
                    return _o(file, st)

                def mrg(ref_entities, ref_file, l10n_file, merge_file, missing, *a, _o=orig_merge):
                    merged_arg.append(list(missing))
                    return _o(ref_entities, ref_file, l10n_file, merge_file, missing, *a)

                cc.observers.notify, cc.observers.updateStats, cc.merge = notify, update, mrg
                with contextlib.redirect_stdout(io.StringIO()):
                    cc.compare(ref, l10n, mergepath if merge else None)
                merged_file = None
                if merge and os.path.exists(mergepath):
                    p = P.getParser(rel)
                    p.readFile(mergepath)
                    merged_file = [e.key for e in p.parse()]
                results[(quiet, merge)] = {"log": log, "stats": stats[0] if len(stats) == 1 else None,
                                           "missings": merged_arg[0] if merged_arg else None, "merged_file": merged_file,
                                           "own": obs_str(cc.observers, l10n, locale),
                                           "obs": [obs_str(o, l10n, locale) for o in observers],
                                           "sums": [o.summary.get(locale) for o in observers],
                                           "details": [[d for d in o.details[l10n]] for o in [cc.observers] + observers]}
        base = results[(0, True)]
        msgs = []
        # ---- events: structure from the plan (independent), message texts / checker notes from the notifications
        evs, li = [], 0
        blog = base["log"]
        ok_struct = True
        for action, k in plan:
            if action == "both":
                while li < len(blog) and blog[li][0] in ("error", "warning") and isinstance(blog[li][1], str) \
                        and blog[li][1].endswith(" for %s" % k):
                    evs.append(("n", CAT_CODE[blog[li][0]], blog[li][1]))
                    li += 1
                continue
            if li >= len(blog):
                ok_struct = False
                break
            cat, data, _ = blog[li]
            if action == "delete":
                junk, words = refinfo[k]
                want = ("warning", None) if junk else ("missingEntity", k)
                evs.append(("j", data) if junk else ("m", k, words))
            else:
                junk = l10ninfo[k]
                want = ("error", None) if junk else ("obsoleteEntity", k)
                evs.append(("J", data) if junk else ("o", k))
            if cat != want[0] or (want[1] is not None and data != want[1]):
                ok_struct = False
                break
            li += 1
        if not ok_struct or li != len(blog):
            msgs.append("notifications do not follow the key order: %r" % ([(c, d) for c, d, _ in blog],))
        # ---- oracle 1 (by construction): nothing but the listed details depends on quiet / merge
        for (quiet, merge), r in sorted(results.items()):
            tag = "quiet=%d merge=%s" % (quiet, merge)
            if [x[2] for x in r["log"]] != [x[2] for x in blog] or [x[:2] for x in r["log"]] != [x[:2] for x in blog]:
                msgs.append("%s: verdicts returned by notify differ from quiet=0: %r vs %r" % (
                    tag, [x[2] for x in r["log"]], [x[2] for x in blog]))
            if r["stats"] != base["stats"]:
                msgs.append("%s: counts differ from quiet=0: %r vs %r" % (tag, r["stats"], base["stats"]))
            if r["sums"] != base["sums"] or r["own"].split("[")[0] != base["own"].split("[")[0]:
                msgs.append("%s: summaries differ from quiet=0: %r vs %r" % (tag, r["sums"], base["sums"]))
            if merge and (r["missings"] != base["missings"] or r["merged_file"] != base["merged_file"]):
                msgs.append("%s: merged keys differ from quiet=0: %r vs %r" % (tag, r["missings"], base["missings"]))
            for d0, dq in zip(base["details"], r["details"]):
                it = iter(d0)
                if not all(any(x == y for y in it) for x in dq):
                    msgs.append("%s: details are not a sub-sequence of the details at quiet=0" % tag)
            if quiet > 0 and merge:
                prev = results[(quiet - 1, True)]["details"]
                if any(len(a) < len(b) for a, b in zip(prev, r["details"])):
                    msgs.append("%s: more details than at quiet=%d" % (tag, quiet - 1))
        # ---- oracle 2: counts against the reference interpreter, at every quiet level
        fdesc = {"fullpath": l10npath, "locale": locale}
        per_obs = None
        if len(specs) == 1 and specs[0] is not None:
            mk = [e[1] for e in evs if e[0] == "m"]
            ok_ = [e[1] for e in evs if e[0] == "o"]
            vm = [ref_verdict(specs[0], fdesc, k) for k in mk]
            vo = [ref_verdict(specs[0], fdesc, k) for k in ok_]
            per_obs = vm + vo
            n_err, n_warn = vm.count("error"), vm.count("warning")
            n_obs = sum(1 for a in vo if a != "ignore")
            for (quiet, merge), r in sorted(results.items()):
                tag = "quiet=%d merge=%s" % (quiet, merge)
                st = r["stats"]
                if st is None:
                    msgs.append("%s: updateStats not called exactly once" % tag)
                    continue
                if (st["missing"], st["report"], st["obsolete"]) != (n_err, n_warn, n_obs):
                    msgs.append("%s: counts missing=%d report=%d obsolete=%d, expected %d (error keys) %d (warning keys) %d (non-ignored obsolete keys)" % (
                        tag, st["missing"], st["report"], st["obsolete"], n_err, n_warn, n_obs))
                if merge and r["missings"] is not None and r["missings"] != [k for k, a in zip(mk, vm) if a == "error"]:
                    msgs.append("%s: keys handed to the merge %r, expected the error keys %r" % (
                        tag, r["missings"], [k for k, a in zip(mk, vm) if a == "error"]))
                if merge and can_merge and r["merged_file"] is not None:
                    for k, a in zip(mk, vm):
                        if a != "error" and k in r["merged_file"]:
                            msgs.append("%s: %s-level missing key %r is merged" % (tag, a, k))
                        if a == "error" and k not in r["merged_file"]:
                            msgs.append("%s: error-level missing key %r is not merged" % (tag, k))
                shown = [list(d.values())[0] for d in r["details"][1] if "missingEntity" in d]
                exp_shown = [k for k, a in zip(mk, vm) if a != "ignore"] if quiet < SHOWS["missingEntity"] else []
                if quiet == 0 and shown != exp_shown:
                    msgs.append("%s: listed missing keys %r, expected the non-ignored ones %r" % (tag, shown, exp_shown))
        # ---- canonical strings / driver lines, one per quiet level (merge run; the no-merge run must print the same but M)
        locales = sorted(set().union(*[all_locales_of(s, set()) for s in specs if s is not None], {locale}))
        w = Wire(locales, [l10npath])
        head = w.universe()
        cfgt = [str(len(specs))]
        for s in specs:
            cfgt += ["F"] if s is None else w.cfg(s)
        evt = [str(len(evs))]
        for e in evs:
            if e[0] == "m":
                evt += ["m", enc(e[1]), str(e[2])]
            elif e[0] == "n":
                evt += ["n", e[1], enc(e[2])]
            else:
                evt += [e[0], enc(e[1])]
        st0 = base["stats"] or {}
        both = [str(st0.get(k, 0)) for k in ("changed", "changed_w", "unchanged", "unchanged_w", "keys")]
        mkeys = [e[1] for e in evs if e[0] == "m"]
        idx = {k: i for i, k in enumerate(mkeys)}
        lines, canon = {}, {}
        for quiet in range(5):
            lines[quiet] = " ".join(["c14.compareq"] + head + [str(quiet)] + cfgt + [str(w.lidx[locale]), "0", enc(rel)] + evt + both)
            for merge in (True, False):
                r = results[(quiet, merge)]
                st = r["stats"] or {}
                canon[(quiet, merge)] = "ok m=%s mw=%s r=%s o=%s M=%s V=%s own=%s obs=%s" % (
                    st.get("missing"), st.get("missing_w"), st.get("report"), st.get("obsolete"),
                    ",".join(str(idx.get(k, "?")) for k in r["missings"]) if r["missings"] is not None else "n/a",
                    "".join(ACT.get(x[2], "?") for x in r["log"]), r["own"], "|".join(r["obs"]))
        # ---- whole files: ContentComparer.add (missing file) / .remove (obsolete file) at every quiet level
        n_ents = sum(1 for k, j, w_ in refs if not j)
        n_words = sum(w_ for k, j, w_ in refs if not j)
        fcanon, flines, fres = {}, {}, {}
        for quiet in range(5):
            parts = []
            for what in ("add", "remove"):
                ref = File(refpath, rel, locale=None)
                l10n = File(l10npath, rel, locale=locale)
                cc = ContentComparer(quiet=quiet)
                observers = []
                for s in specs:
                    o = Observer(quiet=quiet, filter=build(s).filter) if s is not None else Observer(quiet=quiet)
                    observers.append(o)
                    cc.observers.append(o)
                flog = []
                orig_notify = cc.observers.notify

                def fnotify(cat, file, data, _o=orig_notify, _l=flog):
                    rv = _o(cat, file, data)
                    _l.append((cat, data, rv))
                    return rv
                cc.observers.notify = fnotify
                with contextlib.redirect_stdout(io.StringIO()):
                    if what == "add":
                        cc.add(ref, l10n, mergepath)
                    else:
                        cc.remove(ref, l10n, mergepath)
                want = "missingFile" if what == "add" else "obsoleteFile"
                if [x[:2] for x in flog] != [(want, None)]:
                    msgs.append("%s: notifications %r" % (what, flog))
                rvl = ACT.get(flog[0][2], "?") if flog else "?"
                dets = []
                for o in [cc.observers] + observers:
                    dets.append(["%s:r%s" % (CAT_CODE[list(d.keys())[0]], ACT.get(list(d.values())[0], "?")) for d in o.details[l10n]])

                def fobs(o, dl):
                    s_ = o.summary.get(locale)
                    sm = "-" if s_ is None else ":".join(str(s_[k]) for k in STAT_KEYS)
                    return sm + ("!E" if o.error else "") + "[" + ",".join(dl) + "]"
                parts.append("%s %s own=%s obs=%s" % (what, rvl, fobs(cc.observers, dets[0]),
                                                      "|".join(fobs(o, d) for o, d in zip(observers, dets[1:]))))
                fres[(quiet, what)] = (rvl, [o.summary.get(locale) for o in [cc.observers] + observers], dets)
            fcanon[str(quiet)] = " ".join(parts)
            flines[str(quiet)] = " ".join(["c14.filesq"] + head + [str(quiet)] + cfgt + [str(w.lidx[locale]), "0", enc(rel),
                                                                                     str(n_ents), str(n_words)])
        for quiet in range(1, 5):
            for what in ("add", "remove"):
                a, b = fres[(0, what)], fres[(quiet, what)]
                if a[0] != b[0] or a[1] != b[1]:
                    msgs.append("%s file at quiet=%d: verdict / summaries differ from quiet=0: %r %r vs %r %r" % (what, quiet, b[0], b[1], a[0], a[1]))
                if any(len(x) > len(y) for x, y in zip(b[2], a[2])):
                    msgs.append("%s file at quiet=%d: more details than at quiet=0" % (what, quiet))
        if len(specs) == 1 and specs[0] is not None:
            fv = ACT[ref_verdict(specs[0], fdesc, None)]
            for quiet in range(5):
                for what in ("add", "remove"):
                    if fres[(quiet, what)][0] != fv:
                        msgs.append("%s file at quiet=%d: verdict %s, the configuration's file verdict is %s" % (what, quiet, fres[(quiet, what)][0], fv))
                sm = fres[(quiet, "add")][1][1]
                counted = 0 if sm is None else sm["missing"]
                exp_counted = n_ents if (fv != "i" and ref_verdict(specs[0], fdesc, "") != "ignore") else 0
                if fv == "i" and counted:
                    msgs.append("add file at quiet=%d: an ignored missing file is counted (%d strings)" % (quiet, counted))
                elif counted != exp_counted:
                    msgs.append("add file at quiet=%d: %d missing strings counted, expected %d" % (quiet, counted, exp_counted))
        verdict_classes = len(set(per_obs)) if per_obs else len({x[2] for x in blog})
        return {"fcanon": fcanon, "flines": flines,
                "canon": {"%d%s" % (q, "m" if m else "n"): v for (q, m), v in canon.items()},
                "lines": {str(q): l for q, l in lines.items()}, "oracle": msgs, "classes": verdict_classes,
                "events": "".join(e[0] for e in evs), "verdicts": "".join(ACT.get(x[2], "?") for x in blog),
                "impl": canon[(0, True)]}
    finally:
        shutil.rmtree(root, ignore_errors=True)


# ------------------------------------------------------------------ round 4: real [[filters]] tables through TOMLParser
def toml_str(s):
    import json
    return json.dumps(s)          # a JSON string is a valid TOML basic string (ASCII, \\ \" \n \t \uXXXX escapes)


def toml_list(xs):
    return "[" + ", ".join(toml_str(x) for x in xs) + "]"


def toml_text(spec):
    """the configuration node as a TOML file: locales, [env], [[paths]], [[filters]] (path as string or list,
    key as string / list / re: forms, all actions), [[includes]], [[excludes]]"""
    out = ['basepath = "."']
    if spec["locales"] is not None:
        out.append("locales = " + toml_list(spec["locales"]))
    if spec.get("file_env"):
        out.append("[env]")
        for k, v in spec["file_env"].items():
            out.append("    %s = %s" % (k, toml_str(v)))
    for p in spec["paths"]:
        out.append("[[paths]]")
        out.append("    l10n = " + toml_str(pat_str(p["l10n"])))
        if "locales" in p:
            out.append("    locales = " + toml_list(p["locales"]))
        if "reference" in p:        # plays no role in filter(); must not change a verdict
            out.append("    reference = " + toml_str(p["reference"]))
        if "test" in p:
            out.append("    test = " + toml_list(p["test"]))
    for r in spec["rules"]:
        out.append("[[filters]]")
        if r.get("path_is_list"):
            out.append("    path = " + toml_list([pat_str(x) for x in r["path"]]))
        else:
            out.append("    path = " + toml_str(pat_str(r["path"])))
        if "key" in r:
            out.append("    key = " + (toml_list(r["key"]) if isinstance(r["key"], list) else toml_str(r["key"])))
        out.append("    action = " + toml_str(r["action"]))
    for field, lst in (("includes", spec["children"]), ("excludes", spec["excludes"])):
        for c in lst:
            out.append("[[%s]]" % field)
            out.append("    path = " + toml_str(c["toml_rel"]))
    return "\n".join(out) + "\n"


def write_toml_tree(spec, path):
    os.makedirs(os.path.dirname(path), exist_ok=True)
    with open(path, "w", encoding="utf-8") as f:
        f.write(toml_text(spec))
    for c in spec["children"] + spec["excludes"]:
        write_toml_tree(c, os.path.normpath(os.path.join(os.path.dirname(path), c["toml_rel"])))


def toml_fix(spec, path, parser_env):
    """root and effective environment of every node as TOMLParser sets them (set_root(basepath '.'),
    processEnv: file [env], then the parser's env on top)"""
    spec["root"] = os.path.dirname(path)
    spec["env"] = dict(spec.get("file_env") or {}, **parser_env)
    for c in spec["children"] + spec["excludes"]:
        toml_fix(c, os.path.normpath(os.path.join(os.path.dirname(path), c["toml_rel"])), parser_env)


def toml_case(spec, files, entities, parser_env):
    """the configuration tree written as TOML files, parsed by the real TOMLParser; every (file, entity) query
    answered by the parsed ProjectConfig; model: c14.filtert from the same dictionaries; oracle: reference
    interpreter"""
    from compare_locales.paths import TOMLParser
    root = tempfile.mkdtemp(prefix="c14t-")
    try:
        spec = subst_root(spec, root)
        files = subst_root(files, root)
        top = root + "/l10n.toml"
        toml_fix(spec, top, parser_env)
        write_toml_tree(spec, top)
        ne = len(entities)
        nq = len(files) * ne
        locales = sorted(all_locales_of(spec, {f["locale"] for f in files}))
        paths = sorted({f["fullpath"] for f in files})
        wm = WireM(locales, paths)
        toks = ["c14.filtert"] + wm.universe() + wm.cfg(spec) + [str(nq)]
        for q in range(nq):
            f, e = files[q // ne], entities[q % ne]
            toks += [str(wm.lidx[f["locale"]]), str(wm.pidx[f["fullpath"]]), "-" if e is None else enc(e)]
        try:
            cfg = TOMLParser().parse(top, env=dict(parser_env) if parser_env else None)
        except Exception as ex:   # noqa
            return {"implm": "B" + exc_letter(ex), "line_m": " ".join(toks), "oracle": [], "msg": "%s: %s" % (type(ex).__name__, ex)}
        fobjs = [mkfile(f) for f in files]
        res = []
        for q in range(nq):
            f, e = fobjs[q // ne], entities[q % ne]
            try:
                res.append(ACT.get(cfg.filter(f, e), "?"))
            except Exception as ex:   # noqa
                res.append(exc_letter(ex))
        oracle = []
        for q in range(nq):
            f, e = files[q // ne], entities[q % ne]
            if e is not None and "\n" in e:
                continue
            exp = ACT[ref_verdict(spec, f, e)]
            if exp != res[q]:
                oracle.append([q, exp, res[q], None])
        nrules = sum(len(n["rules"]) for n in _nodes(spec))
        return {"implm": "".join(res), "line_m": " ".join(toks), "oracle": oracle, "nrules": nrules,
                "compiled": sum(len(n.rules) for n in cfg.configs)}
    finally:
        shutil.rmtree(root, ignore_errors=True)


def _nodes(spec):
    yield spec
    for c in spec["children"] + spec["excludes"]:
        yield from _nodes(c)


# ------------------------------------------------------------------ round 4: the key text `_compile_rule` compiles
def keytext_case(key, entities):
    """the real `_compile_rule` on a rule with this key: the pattern text it compiled, and the answers of
    `rule["key"].match(entity)`; the driver line carries the key as written and the TRANSLATION of the real pattern"""
    import translate
    from compare_locales.paths import ProjectConfig
    rules = list(ProjectConfig(None)._compile_rule({"path": "/x/{locale}/**", "key": key, "action": "ignore"}))
    assert len(rules) == 1
    rx = rules[0]["key"]
    answers = "".join("1" if rx.match(e) else "0" for e in entities)
    w, _, _ = translate.wire_pattern(rx.pattern)
    line = " ".join(["c14.keytext", enc(key)] + w.split() + [str(len(entities))] + [enc(e) for e in entities])
    is_re = key.startswith("re:")
    canon = "%s %s %s" % (enc(rx.pattern), "re" if is_re else "lit=1", answers)
    # oracle: the documented meaning, written independently
    exp = []
    for e in entities:
        if is_re:
            exp.append("1" if re.match(key[3:], e) else "0")
        else:
            exp.append("1" if e == key else ("?" if e == key + "\n" else "0"))
    bad = [i for i, (a, b) in enumerate(zip(answers, exp)) if b != "?" and a != b]
    return {"line": line, "canon": canon, "pattern": rx.pattern, "oracle": bad, "answers": answers}


# ------------------------------------------------------------------ round 4: legacy filter.py, graph guards, set_locales(deep)
PY_WIRE = {"T": "T", "1": "T", "1.0": "T", "F": "F", "0": "F", "N": "N", "R0": "R", "R1": "R", "R2": "R",
           "U": "U", "U2": "U", "O": "O", "O2": "O"}


def py_outcome(code):
    if code.startswith("s:"):
        return code[2:]
    if code == "R0":
        raise ValueError("filter.py failed")
    if code == "R1":
        raise KeyboardInterrupt()
    if code == "R2":
        raise SystemExit(3)
    return {"T": True, "F": False, "1": 1, "0": 0, "1.0": 1.0, "N": None, "U": [], "U2": {}, "O": 2, "O2": ("error",)}[code]


def py_clause_holds(c, mod, path, entity):
    if c["module"] != "*" and mod != (None if c["module"] == "-" else c["module"]):
        return False
    if c["path"] not in path:
        return False
    e = c["entity"]
    if e == "*":
        return True
    if e == "+":
        return entity is not None
    if e == "-":
        return entity is None
    return entity == e[1:]            # "=key"


def make_py(pyspec):
    """a small generated legacy filter.py `test` function: the first clause that holds decides"""
    def test(mod, path, entity=None):
        for c in pyspec["clauses"]:
            if py_clause_holds(c, mod, path, entity):
                return py_outcome(c["out"])
        return py_outcome(pyspec["default"])
    return test


def py_wire(code):
    return ["s", enc(code[2:])] if code.startswith("s:") else [PY_WIRE[code]]


def build_p(spec):
    from compare_locales.paths import ProjectConfig
    cfg = ProjectConfig(None)
    cfg.set_root(".")            # a configuration without a file has no root, whatever the base path says
    assert cfg.root is None
    if spec.get("env"):
        cfg.add_environment(**spec["env"])
    if spec["locales"] is not None:
        cfg.set_locales(list(spec["locales"]))
    pds = []
    for p in spec["paths"]:
        d = {"l10n": pat_str(p["l10n"])}
        if "locales" in p:
            d["locales"] = list(p["locales"])
        pds.append(d)
    cfg.add_paths(*pds)
    for step in spec["order"]:
        if step == "r":
            rds = []
            for r in spec["rules"]:
                d = {"action": r["action"]}
                d["path"] = [pat_str(p) for p in r["path"]] if r.get("path_is_list") else pat_str(r["path"])
                if "key" in r:
                    d["key"] = list(r["key"]) if isinstance(r["key"], list) else r["key"]
                rds.append(d)
            cfg.add_rules(*rds)
        elif spec.get("py") is not None:
            cfg.set_filter_py(make_py(spec["py"]))
    for c in spec["children"]:
        cfg.add_child(build_p(c))
    for e in spec["excludes"]:
        cfg.exclude(build_p(e))
    return cfg


class WireP(Wire):
    def cfg(self, spec):
        env = spec.get("env", {})
        out = ["P", self.locs(spec["locales"]), str(len(spec["paths"]))]
        for p in spec["paths"]:
            out += [enc_ints(self.cells(p["l10n"], env, 0)), self.locs(p.get("locales"))]
        out.append(spec["order"] or ".")
        out.append(str(len(spec["rules"])))
        for r in spec["rules"]:
            out += ["R", ACT[r["action"]]]
            if r.get("path_is_list"):
                out += ["L", str(len(r["path"]))] + [enc_ints(self.cells(p, env, 1)) for p in r["path"]]
            else:
                out += ["1", enc_ints(self.cells(r["path"], env, 1))]
            if "key" not in r:
                out.append("N")
            elif isinstance(r["key"], list):
                out += ["L", str(len(r["key"]))]
                for k in r["key"]:
                    out += self.rawkey(k)
            else:
                out += ["1"] + self.rawkey(r["key"])
        py = spec.get("py")
        if py is None:
            out.append("-")
        else:
            out += ["Y"] + py_wire(py["default"]) + [str(len(py["clauses"]))]
            for c in py["clauses"]:
                e = c["entity"]
                out += ["*" if c["module"] == "*" else ("-" if c["module"] == "-" else enc(c["module"])), enc(c["path"]),
                        e if e in ("*", "+", "-") else enc(e[1:])] + py_wire(c["out"])
        out.append(str(len(spec["children"])))
        for c in spec["children"]:
            out += self.cfg(c)
        out.append(str(len(spec["excludes"])))
        for e in spec["excludes"]:
            out += self.cfg(e)
        return out


class _Raise(Exception):
    def __init__(self, letter):
        self.letter = letter


def ref_py(pyspec, mod, path, entity):
    """documented behaviour of a legacy filter.py result: True/"error" -> error, False/"ignore" -> ignore,
    "report"/"warning" -> warning, None -> None; a callable that raises counts as error; anything else is rejected
    (AssertionError; TypeError for an unhashable value)"""
    code = pyspec["default"]
    for c in pyspec["clauses"]:
        if py_clause_holds(c, mod, path, entity):
            code = c["out"]
            break
    if code.startswith("s:"):
        t = code[2:]
        if t in ("error", "ignore", "warning"):
            return t
        if t == "report":
            return "warning"
        raise _Raise("A")
    kind = PY_WIRE[code]
    if kind in ("T", "R"):
        return "error"
    if kind == "F":
        return "ignore"
    if kind == "N":
        return None
    raise _Raise("T" if kind == "U" else "A")


def ref_public_p(spec, file, entity):
    """the public filter of a configuration that may carry a legacy callable: locale test, then the callable if there
    is one (rules, included and excluded configurations are then not consulted), else the rule semantics"""
    if file["locale"] is None or not ref_has_locale(spec, file["locale"]):
        return "ignore"
    if spec.get("py") is not None and "p" in spec["order"]:
        return ref_py(spec["py"], file.get("module"), file["file"], entity)
    return ref_inner_p(spec, file, entity) or "ignore"


def ref_inner_p(spec, file, entity):
    for ex in spec["excludes"]:
        if ref_public_p(ex, file, None) == "error":
            return None
    env = spec.get("env", {})
    results = [ref_inner_p(c, file, entity) for c in spec["children"]]      # an included configuration's callable is dead
    covered = any(("locales" not in p or file["locale"] in p["locales"])
                  and ref_path_match(p["l10n"], env, file["locale"], file["fullpath"]) for p in spec["paths"])
    if covered:
        own = "error"
        for rule in (spec["rules"] if "r" in spec["order"] else []):
            if ref_rule_applies(rule, env, file, entity):
                own = rule["action"]
        results.append(own)
    return max(results, key=lambda a: SEV[a], default=None)


def apply_posts(spec, posts):
    import copy
    spec = copy.deepcopy(spec)

    def deep(s, ls):
        s["locales"] = None if ls is None else list(ls)
        for c in s["children"]:
            deep(c, ls)
    for kind, ls in posts:
        if kind == "D":
            deep(spec, ls)
        else:
            spec["locales"] = None if ls is None else list(ls)
    return spec


def must_fail_build(spec):
    """does the documented contract forbid this object graph?  rules and a legacy callable on one configuration;
    an included configuration that declares excludes; an excluded configuration that (or an included one of which)
    declares excludes"""
    def any_excl(s):
        return bool(s["excludes"]) or any(any_excl(c) for c in s["children"])
    if spec.get("py") is not None and "p" in spec["order"] and "r" in spec["order"] and (
            spec["rules"] or spec["order"].index("p") < spec["order"].index("r")):
        return True
    if any(c["excludes"] for c in spec["children"]) or any(any_excl(e) for e in spec["excludes"]):
        return True
    return any(must_fail_build(c) for c in spec["children"] + spec["excludes"])


def filterp_case(spec, files, entities, posts):
    ne = len(entities)
    nq = len(files) * ne
    locales = sorted(all_locales_of(spec, {f["locale"] for f in files if f["locale"] is not None}
                                    | {l for _, ls in posts for l in (ls or [])}))
    paths = sorted({f["fullpath"] for f in files})
    w = WireP(locales, paths)
    toks = ["c14.filterp"] + w.universe() + w.cfg(spec) + [str(len(posts))]
    for kind, ls in posts:
        toks += [kind, w.locs(ls)]
    toks.append(str(nq))
    for q in range(nq):
        f, e = files[q // ne], entities[q % ne]
        toks += [str(w.lidx[f["locale"]]), str(w.pidx[f["fullpath"]]), "-" if f.get("module") is None else enc(f["module"]),
                 enc(f["file"]), "-" if e is None else enc(e)]
    line = " ".join(toks)
    oracle = []
    try:
        cfg = build_p(spec)
    except Exception as ex:   # noqa
        letter = {"AssertionError": "A", "ExcludeError": "E"}.get(type(ex).__name__, "X")
        if not must_fail_build(spec):
            oracle.append([-1, "built", "B" + letter])
        return {"impl": "B" + letter, "line": line, "oracle": oracle, "same": []}
    if must_fail_build(spec):
        oracle.append([-1, "ExcludeError/AssertionError", "built"])
    for kind, ls in posts:
        cfg.set_locales(None if ls is None else list(ls), deep=(kind == "D"))
    eff = apply_posts(spec, posts)
    from compare_locales.paths import File
    res = []
    for q in range(nq):
        f, e = files[q // ne], entities[q % ne]
        fo = File(f["fullpath"], f["file"], module=f.get("module"), locale=f["locale"])
        try:
            rv = cfg.filter(fo, e)
            got = "N" if rv is None else ACT.get(rv, "?")
        except AssertionError:
            got = "A"
        except TypeError:
            got = "T"
        except BaseException as ex:   # noqa  (a KeyboardInterrupt / SystemExit of the generated callable that escaped filter_)
            got = "X"
        res.append(got)
        try:
            ev = ref_public_p(eff, f, e)
            exp = "N" if ev is None else ACT[ev]
        except _Raise as r_:
            exp = r_.letter
        if exp != got and not (e is not None and "\n" in e):
            oracle.append([q, exp, got])
    # ProjectConfig.same: "equality test, ignoring locales" — a rebuilt identical configuration is the same, also
    # after a set_locales; a configuration with one more rule / path is not
    same = []
    try:
        twin = build_p(spec)
        if not (cfg.same(twin) and twin.same(cfg)):
            same.append("same() is False for a configuration built from the same specification (locales changed: %r)" % (posts,))
        if cfg.same(object()) is not False:
            same.append("same() accepts an object of another class")
        import copy
        if "r" in spec["order"] and "p" not in spec["order"]:
            other = copy.deepcopy(spec)
            other["rules"] = other["rules"] + [{"path": ["/nowhere/", ["var", "locale"], "/x"], "action": "ignore"}]
            if cfg.same(build_p(other)):
                same.append("same() is True although the other configuration has one more rule")
        other = copy.deepcopy(spec)
        other["paths"] = other["paths"] + [{"l10n": ["/nowhere/", ["var", "locale"], "/", ["starstar", ""]]}]
        if cfg.same(build_p(other)):
            same.append("same() is True although the other configuration has one more path")
        if spec["children"]:
            other = copy.deepcopy(spec)
            other["children"] = other["children"][:-1]
            if cfg.same(build_p(other)):
                same.append("same() is True although the other configuration includes one configuration less")
            other = copy.deepcopy(spec)
            other["children"][-1]["paths"] = other["children"][-1]["paths"] + [{"l10n": ["/nowhere/x"]}]
            if cfg.same(build_p(other)):
                same.append("same() is True although an included configuration differs")
    except Exception as ex:   # noqa
        same.append("same() probe raised %s: %s" % (type(ex).__name__, ex))
    return {"impl": "".join(res), "line": line, "oracle": oracle, "same": same}

"""Adapter: real ContentComparer.compare / add with a merge path, in a temp dir, observed from outside.

Everything the C04/C05 oracles need is collected here from the real objects:
first report, the arguments the code handed to `merge`, the staged file, a second comparison of
the staged file against the reference, an independent parse of inputs and output, file system
events (audit hook), hashes of the inputs."""
import hashlib
import json
import os
import re
import shutil
import sys
import tempfile
import warnings

warnings.filterwarnings("ignore")

from compare_locales import parser
from compare_locales.checks import getChecker
from compare_locales.compare.content import ContentComparer
from compare_locales.compare.observer import Observer
from compare_locales.paths import File

FNAME = {"properties": "a.properties", "dtd": "a.dtd", "ini": "a.ini", "inc": "a.inc", "ftl": "a.ftl",
         "po": "a.po", "android": "strings.xml", "unknown": "a.txt"}

_events = []
_armed = [False]
_hook_installed = [False]


def _hook(event, args):
    if not _armed[0]:
        return
    try:
        if event == "open":
            path, mode, flags = args
            if isinstance(mode, str) and any(c in mode for c in "wax+"):
                _events.append(["open-write", str(path)])
            elif mode is None and isinstance(flags, int) and flags & (os.O_WRONLY | os.O_RDWR | os.O_CREAT):
                _events.append(["open-write", str(path)])
        elif event in ("os.mkdir", "os.remove", "os.rename", "os.rmdir", "shutil.copyfile", "shutil.move",
                       "shutil.rmtree", "os.truncate", "os.link", "os.symlink", "os.chmod", "shutil.copymode"):
            _events.append([event] + [str(a) for a in args if isinstance(a, (str, bytes, os.PathLike))])
    except Exception:
        pass


def install_hook():
    if not _hook_installed[0]:
        sys.addaudithook(_hook)
        _hook_installed[0] = True


def make_filter(table, file_verdict="error"):
    """a project filter: verdict per entity key from `table` (default "error"), `file_verdict` for the file itself;
    the dummy key "" of Observer.updateStats is never ignored"""
    def flt(file, entity=None):
        if entity is None:
            return file_verdict
        if entity == "":
            return "error"
        k = entity if isinstance(entity, str) else json.dumps(list(entity), ensure_ascii=False)
        return table.get(k, "error")
    return flt


class Recording(ContentComparer):
    def __init__(self, quiet=0, filters=None):
        """filters: None = one Observer() as in a plain run; else one Observer(quiet, filter) per entry (entry None = no filter)"""
        super().__init__(quiet)
        if filters is None:
            self.observers.append(Observer(quiet=quiet))
        else:
            for f in filters:
                self.observers.append(Observer(quiet=quiet, filter=f))
        self.merge_calls = []

    def merge(self, ref_entities, ref_file, l10n_file, merge_file, missing, skips, ctx, capabilities, encoding):
        rec = {"merge_file": merge_file is not None, "caps": capabilities, "missing": [], "skips": [],
               "contents": None if ctx is None else ctx.contents}
        try:
            for key in missing:
                try:
                    rec["missing"].append(ref_entities[key].all)
                except Exception:
                    rec["missing"].append(None)
            for s in skips:
                isj = isinstance(s, parser.Junk)
                ra = ""
                if not isj:
                    try:
                        ra = ref_entities[s.key].all
                    except Exception:
                        ra = None
                rec["skips"].append([s.span[0], s.span[1], isj, ra])
        except Exception as e:
            rec["record_error"] = repr(e)
        self.merge_calls.append(rec)
        return super().merge(ref_entities, ref_file, l10n_file, merge_file, missing, skips, ctx, capabilities, encoding)


def _flat(d):
    out = []
    if isinstance(d, list):
        out.extend(x for x in d if isinstance(x, dict))
    elif isinstance(d, dict):
        for v in d.values():
            out.extend(_flat(v))
    return out


def sha(path):
    with open(path, "rb") as f:
        return hashlib.sha256(f.read()).hexdigest()


def listing(root):
    out = []
    for d, ds, fs in os.walk(root):
        for f in fs:
            out.append(os.path.relpath(os.path.join(d, f), root))
        for x in ds:
            out.append(os.path.relpath(os.path.join(d, x), root) + "/")
    return sorted(out)


def decode_like_readfile(data):
    """what Parser.readFile hands to the parser, computed WITHOUT it: UTF-8 with U+FFFD, universal newlines"""
    return re.sub("\r\n?", "\n", data.decode("utf-8", "replace"))


def parse_entities(fmt_file, data):
    """independent parse with a fresh parser object: entities (key, raw_val) and junk texts"""
    try:
        p = type(parser.getParser(fmt_file))()
    except UserWarning:
        return None
    p.readUnicode(decode_like_readfile(data))
    ents, junk = [], []
    for e in p:
        if isinstance(e, parser.Junk):
            junk.append(e.all)
        else:
            k = e.key
            sp = getattr(e, "span", None)
            sp = [sp[0], sp[1]] if sp and isinstance(sp[0], int) and isinstance(sp[1], int) else None
            ents.append([list(k) if isinstance(k, tuple) else k, e.raw_val, e.all, sp])
    return {"entities": ents, "junk": junk}


def check_errors(fname, ref_data, l10n_data):
    """keys of localized entities (shared with the reference) that have error-level check results"""
    try:
        p = type(parser.getParser(fname))()
    except UserWarning:
        return []
    p.readUnicode(decode_like_readfile(ref_data))
    ref = p.parse()
    p2 = type(parser.getParser(fname))()
    p2.readUnicode(decode_like_readfile(l10n_data))
    l10n = p2.parse()
    f = File(fname, fname, locale="xx")
    checker = getChecker(f, extra_tests=None)
    if checker and checker.needs_reference:
        checker.set_reference(ref)
    bad = []
    for e in l10n:
        if isinstance(e, parser.Junk):
            continue
        k = e.key
        if k in ref and not isinstance(ref[k], parser.Junk):
            try:
                if any(tp == "error" for tp, pos, msg, cat in checker.check(ref[k], e)):
                    bad.append(list(k) if isinstance(k, tuple) else k)
            except Exception:
                bad.append(list(k) if isinstance(k, tuple) else k)
    return bad


def to_bytes(x, latin=False):
    if x is None:
        return None
    if latin:
        return x.encode("latin-1")
    return x.encode("utf-8", "surrogatepass")


def impl_compare_merge(fmt, ref_text, l10n_text, mode="compare", latin=False, with_merge=True, opts=None):
    """mode: compare | add (l10n missing) | remove (reference missing)
    latin=True: the texts are BYTES transported as latin-1 strings.
    opts: quiet (0-4), verdicts (list, one per project observer: {key: verdict} or None = no filter), file_verdict,
          ref_is_dir / l10n_is_dir (the path is a directory: read error), baseline (also run with quiet 0)"""
    install_hook()
    opts = opts or {}
    quiet = int(opts.get("quiet", 0))
    filters = None
    if opts.get("verdicts") is not None:
        filters = [None if t is None else make_filter(t, opts.get("file_verdict", "error")) for t in opts["verdicts"]]
    fname = FNAME[fmt]
    base = os.environ.get("VERIF_TMP") or tempfile.gettempdir()
    root = tempfile.mkdtemp(prefix="clv-", dir=base)
    res = {"fmt": fmt, "mode": mode}
    try:
        os.makedirs(os.path.join(root, "ref"))
        os.makedirs(os.path.join(root, "l10n"))
        refp = os.path.join(root, "ref", fname)
        l10p = os.path.join(root, "l10n", fname)
        refb, l10b = to_bytes(ref_text, latin), to_bytes(l10n_text, latin)
        if opts.get("ref_is_dir"):
            os.makedirs(refp)
            refb = None
        elif refb is not None:
            with open(refp, "wb") as f:
                f.write(refb)
        if opts.get("l10n_is_dir"):
            os.makedirs(l10p)
            l10b = None
        elif l10b is not None:
            with open(l10p, "wb") as f:
                f.write(l10b)
        mergep = os.path.join(root, "merge", "sub", fname) if with_merge else None
        if opts.get("baseline") and with_merge:
            # the same comparison with quiet = 0 into another merge path (before the observed run)
            basep = os.path.join(root, "merge0", "sub", fname)
            cc0 = Recording(0, filters)
            try:
                getattr(cc0, mode if mode in ("compare", "add") else "remove")(File(refp, fname, locale=None), File(l10p, fname, locale="xx"), basep)
                res["merged_q0"] = open(basep, "rb").read().decode("latin-1") if os.path.exists(basep) else None
                res["summary_q0"] = [o.toJSON()["summary"].get("xx", {}) for o in cc0.observers]
            except Exception as e:
                res["merged_q0_exc"] = "%s: %s" % (type(e).__name__, e)
            shutil.rmtree(os.path.join(root, "merge0"), ignore_errors=True)
        before = listing(root)
        hashes = {p: sha(p) for p in (refp, l10p) if os.path.isfile(p)}
        cc = Recording(quiet, filters)
        reff = File(refp, fname, locale=None)
        l10f = File(l10p, fname, locale="xx")
        del _events[:]
        _armed[0] = True
        try:
            if mode == "compare":
                cc.compare(reff, l10f, mergep)
            elif mode == "add":
                cc.add(reff, l10f, mergep)
            else:
                cc.remove(reff, l10f, mergep)
        finally:
            _armed[0] = False
        res["events"] = [e for e in _events]
        res["report"] = cc.observers.toJSON()
        res["summary_obs"] = [o.toJSON()["summary"].get("xx", {}) for o in cc.observers]
        res["listed_missing"] = sum(1 for d in _flat(res["report"].get("details", {})) if "missingEntity" in d)
        try:
            res["details_text"] = cc.observers.serializeDetails()
            res["summary_text"] = cc.observers.serializeSummaries()
        except Exception as e:
            res["serialize_exc"] = "%s: %s" % (type(e).__name__, e)
        res["merge_calls"] = cc.merge_calls
        res["inputs_unchanged"] = all(os.path.exists(p) and sha(p) == h for p, h in hashes.items())
        after = listing(root)
        res["new_paths"] = [p for p in after if p not in before]
        res["root"] = root
        res["merged"] = None
        if mergep and os.path.exists(mergep):
            with open(mergep, "rb") as f:
                mb = f.read()
            res["merged"] = mb.decode("latin-1")       # bytes transported as latin-1 text
            res["merged_is_l10n"] = (l10b is not None and mb == l10b)
            res["merged_is_ref"] = (refb is not None and mb == refb)
            if refb is not None and fmt != "unknown":
                cc2 = Recording(0, filters)
                try:
                    cc2.compare(reff, File(mergep, fname, locale="xx"), None)
                    res["report2"] = cc2.observers.toJSON()
                except Exception as e:
                    res["report2_exc"] = "%s: %s" % (type(e).__name__, e)
                res["merged_parse"] = parse_entities(fname, mb)
        if fmt != "unknown":
            if refb is not None:
                res["ref_parse"] = parse_entities(fname, refb)
            if l10b is not None:
                res["l10n_parse"] = parse_entities(fname, l10b)
            if refb is not None and l10b is not None:
                res["l10n_error_keys"] = check_errors(fname, refb, l10b)
                # is the reference clean against itself?
                cc3 = Recording()
                cc3.compare(reff, File(refp, fname, locale="xx"), None)
                s = cc3.observers.toJSON()["summary"].get("xx", {})
                res["ref_clean"] = s.get("errors", 0) == 0 and s.get("warnings", 0) == 0
    finally:
        shutil.rmtree(root, ignore_errors=True)
    return res


# ---------------------------------------------------------------------------------------------------- round 4

def impl_read_file(fmt, data_latin):
    """Parser.readFile on a file with exactly these bytes: the text the parser and `merge` work on"""
    fname = FNAME[fmt]
    base = os.environ.get("VERIF_TMP") or tempfile.gettempdir()
    root = tempfile.mkdtemp(prefix="clv-", dir=base)
    try:
        path = os.path.join(root, fname)
        with open(path, "wb") as f:
            f.write(data_latin.encode("latin-1"))
        p = parser.getParser(fname)
        p.readFile(File(path, fname, locale="xx"))
        text = p.ctx.contents
        try:
            enc = text.encode(p.encoding).decode("latin-1")
        except UnicodeEncodeError:
            enc = None
        p2 = parser.getParser(fname)
        p2.readContents(data_latin.encode("latin-1"))          # the bytes entry point (merge_channels): no newline translation
        return {"contents": text, "encoded": enc, "encoding": p.encoding, "contents_rc": p2.ctx.contents}
    finally:
        shutil.rmtree(root, ignore_errors=True)


class _Ent:
    """stand-in for a parsed entity: `merge` only reads .span, .key and (of reference entities) .all"""
    def __init__(self, key, span=None, all_=None):
        self.key = key
        self.span = span
        self.all = all_


def impl_merge_direct(fmt, caps, l10n_latin, ref_latin, skips, missing, with_merge=True):
    """ContentComparer.merge called directly: files with exactly these bytes on disk, `ctx` from the real
    Parser.readFile of the l10n file, generated skips [(start|None, end|None, is_junk, refAll)] and missing [refAll],
    ANY capability value.  Returns the staged bytes (latin-1 transport) / None, the exception, the fs events."""
    from compare_locales.keyedtuple import KeyedTuple
    install_hook()
    fname = FNAME[fmt]
    base = os.environ.get("VERIF_TMP") or tempfile.gettempdir()
    root = tempfile.mkdtemp(prefix="clv-", dir=base)
    res = {}
    try:
        os.makedirs(os.path.join(root, "ref"))
        os.makedirs(os.path.join(root, "l10n"))
        refp = os.path.join(root, "ref", fname)
        l10p = os.path.join(root, "l10n", fname)
        with open(refp, "wb") as f:
            f.write(ref_latin.encode("latin-1"))
        with open(l10p, "wb") as f:
            f.write(l10n_latin.encode("latin-1"))
        p = parser.getParser(fname)
        p.readFile(File(l10p, fname, locale="xx"))
        ctx = p.ctx
        ref_ents, miss_keys, skip_objs = [], [], []
        for i, ra in enumerate(missing):
            ref_ents.append(_Ent("m%d" % i, None, ra))
            miss_keys.append("m%d" % i)
        for i, (s0, e0, isj, ra) in enumerate(skips):
            if isj:
                j = parser.Junk(ctx, (s0, e0))
                skip_objs.append(j)
            else:
                ref_ents.append(_Ent("s%d" % i, None, ra))
                skip_objs.append(_Ent("s%d" % i, (s0, e0)))
        mergep = os.path.join(root, "merge", "sub", fname) if with_merge else None
        hashes = {q: sha(q) for q in (refp, l10p)}
        before = listing(root)
        cc = ContentComparer()
        del _events[:]
        _armed[0] = True
        try:
            cc.merge(KeyedTuple(ref_ents), File(refp, fname, locale=None), File(l10p, fname, locale="xx"), mergep,
                     miss_keys, skip_objs, ctx, caps, p.encoding)
        except Exception as e:
            res["exc"] = type(e).__name__
        finally:
            _armed[0] = False
        res["events"] = [e for e in _events]
        res["root"] = root
        res["inputs_unchanged"] = all(sha(q) == h for q, h in hashes.items())
        res["new_paths"] = [q for q in listing(root) if q not in before]
        res["merged"] = None
        mp = os.path.join(root, "merge", "sub", fname)
        if os.path.exists(mp):
            with open(mp, "rb") as f:
                res["merged"] = f.read().decode("latin-1")
        res["contents"] = ctx.contents
    finally:
        shutil.rmtree(root, ignore_errors=True)
    return res


def impl_compare_projects(spec):
    """compareProjects on a temp tree with a merge stage.
    spec: files = {relpath: [ref bytes|None, l10n bytes|None]} (latin-1 transport), locale, clobber (bool), quiet,
          stale = [relative paths created beforehand under the merge stage (inside and outside the locale's merge dir)],
          merge_tpl: where the merge stage lives relative to the root"""
    from compare_locales.compare import compareProjects
    from compare_locales.paths import TOMLParser
    install_hook()
    base = os.environ.get("VERIF_TMP") or tempfile.gettempdir()
    root = os.path.realpath(tempfile.mkdtemp(prefix="clv-", dir=base))
    res = {}
    try:
        loc = spec["locale"]
        refroot = os.path.join(root, "src", "en")
        l10nbase = os.path.join(root, "l10n")
        os.makedirs(refroot, exist_ok=True)
        for rel, (rb, lb) in spec["files"].items():
            if rb is not None:
                q = os.path.join(refroot, rel)
                os.makedirs(os.path.dirname(q), exist_ok=True)
                with open(q, "wb") as f:
                    f.write(rb.encode("latin-1"))
            if lb is not None:
                q = os.path.join(l10nbase, loc, rel)
                os.makedirs(os.path.dirname(q), exist_ok=True)
                with open(q, "wb") as f:
                    f.write(lb.encode("latin-1"))
        os.makedirs(os.path.join(l10nbase, loc), exist_ok=True)
        toml = os.path.join(root, "src", "l10n.toml")
        with open(toml, "w") as f:
            f.write('basepath = "."\nlocales = ["%s"]\n[[paths]]\n    reference = "en/**"\n    l10n = "{l10n_base}/{locale}/**"\n' % loc)
        stage = os.path.join(root, spec.get("merge_tpl", "stage"))
        for rel in spec.get("stale", []):
            q = os.path.join(stage, rel)
            os.makedirs(os.path.dirname(q), exist_ok=True)
            with open(q, "wb") as f:
                f.write(b"STALE")
        cfg = TOMLParser().parse(toml, env={"l10n_base": l10nbase})
        inputs = {}
        for d, ds, fs in os.walk(root):
            if d.startswith(stage):
                continue
            for f in fs:
                inputs[os.path.join(d, f)] = sha(os.path.join(d, f))
        del _events[:]
        _armed[0] = True
        try:
            obs = compareProjects([cfg], [] if spec.get("all_locales") else [loc], l10nbase, merge_stage=stage, clobber_merge=bool(spec.get("clobber")),
                                  quiet=int(spec.get("quiet", 0)))
            res["summary"] = obs.toJSON()["summary"]
        except Exception as e:
            res["exc"] = "%s: %s" % (type(e).__name__, e)
        finally:
            _armed[0] = False
        res["events"] = [e for e in _events]
        res["root"] = root
        res["stage"] = stage
        res["inputs_unchanged"] = all(os.path.exists(q) and sha(q) == h for q, h in inputs.items())
        res["new_outside"] = []
        for d, ds, fs in os.walk(root):
            if d.startswith(stage):
                continue
            for f in fs:
                if os.path.join(d, f) not in inputs:
                    res["new_outside"].append(os.path.relpath(os.path.join(d, f), root))
        staged = {}
        if os.path.isdir(stage):
            for d, ds, fs in os.walk(stage):
                for f in fs:
                    q = os.path.join(d, f)
                    with open(q, "rb") as fh:
                        staged[os.path.relpath(q, stage)] = fh.read().decode("latin-1")
        res["staged"] = staged
    finally:
        shutil.rmtree(root, ignore_errors=True)
    return res


# ---------------------------------------------------------------------------------------------------- round 5
# SESSIONS: one ContentComparer (as compareProjects creates it) handles a SEQUENCE of compare / add / remove jobs on files
# of different kinds below one merge stage.

def _tree_state(top):
    """{relative path: sha256 | "/"} of everything below `top`"""
    out = {}
    if not os.path.isdir(top):
        return out
    for d, ds, fs in os.walk(top):
        for x in ds:
            out[os.path.relpath(os.path.join(d, x), top) + "/"] = "/"
        for f in fs:
            q = os.path.join(d, f)
            try:
                out[os.path.relpath(q, top)] = sha(q)
            except OSError:
                out[os.path.relpath(q, top)] = "?"
    return out


def _run_job(cc, mode, reff, l10f, mergep):
    if mode == "compare":
        cc.compare(reff, l10f, mergep)
    elif mode == "add":
        cc.add(reff, l10f, mergep)
    else:
        cc.remove(reff, l10f, mergep)


def impl_session(spec):
    """spec: quiet, verdicts (None | list of tables), file_verdict, jobs = [{name, mode, ref, l10n}] (bytes in latin-1
    transport, None = the file does not exist), names pairwise distinct.
    ONE comparer runs all jobs in order (nothing else touches the package in between); afterwards every job is run
    again on a FRESH comparer into a stage of its own, and every staged file is analysed like `impl_compare_merge` does.
    Returns {"jobs": [per-job dict in the shape of impl_compare_merge + session fields], "final": {rel: bytes}}"""
    install_hook()
    quiet = int(spec.get("quiet", 0))
    filters = None
    if spec.get("verdicts") is not None:
        filters = [None if t is None else make_filter(t, spec.get("file_verdict", "error")) for t in spec["verdicts"]]
    base = os.environ.get("VERIF_TMP") or tempfile.gettempdir()
    root = os.path.realpath(tempfile.mkdtemp(prefix="clv-", dir=base))
    out = {"jobs": [], "root": root}
    try:
        stage = os.path.join(root, "merge")
        jobs = []
        for j in spec["jobs"]:
            name = j["name"]
            refp = os.path.join(root, "ref", name)
            l10p = os.path.join(root, "l10n", name)
            refb, l10b = to_bytes(j.get("ref"), True), to_bytes(j.get("l10n"), True)
            for q, b in ((refp, refb), (l10p, l10b)):
                os.makedirs(os.path.dirname(q), exist_ok=True)
                if b is not None:
                    with open(q, "wb") as f:
                        f.write(b)
            jobs.append({"name": name, "mode": j["mode"], "refp": refp, "l10p": l10p, "refb": refb, "l10b": l10b,
                         "mergep": os.path.join(stage, name)})
        inputs = {}
        for top in ("ref", "l10n"):
            for rel, h in _tree_state(os.path.join(root, top)).items():
                inputs[top + "/" + rel] = h
        cc = Recording(quiet, filters)
        ncalls = 0
        for jb in jobs:
            res = {"fmt": None, "mode": jb["mode"], "root": root}
            before = listing(root)
            stage_before = _tree_state(stage)
            reff = File(jb["refp"], jb["name"], locale=None)
            l10f = File(jb["l10p"], jb["name"], locale="xx")
            del _events[:]
            _armed[0] = True
            try:
                _run_job(cc, jb["mode"], reff, l10f, jb["mergep"])
            except Exception as e:
                import traceback
                res["job_exc"] = {"exc": type(e).__name__, "msg": str(e)[:200],
                                  "where": [f.name for f in traceback.extract_tb(e.__traceback__)][-4:]}
            finally:
                _armed[0] = False
            res["events"] = [e for e in _events]
            res["merge_calls"] = cc.merge_calls[ncalls:]
            ncalls = len(cc.merge_calls)
            res["new_paths"] = [p for p in listing(root) if p not in before]
            now_inputs = {}
            for top in ("ref", "l10n"):
                for rel, h in _tree_state(os.path.join(root, top)).items():
                    now_inputs[top + "/" + rel] = h
            res["inputs_unchanged"] = now_inputs == inputs
            stage_after = _tree_state(stage)
            own = os.path.relpath(jb["mergep"], stage)
            res["foreign_changes"] = sorted(
                p for p in set(stage_before) | set(stage_after)
                if stage_before.get(p) != stage_after.get(p) and p != own and not (p.endswith("/") and own.startswith(p)))
            res["merged"] = None
            if os.path.isfile(jb["mergep"]):
                with open(jb["mergep"], "rb") as f:
                    jb["mb"] = f.read()
                res["merged"] = jb["mb"].decode("latin-1")
                res["merged_is_l10n"] = jb["l10b"] is not None and jb["mb"] == jb["l10b"]
                res["merged_is_ref"] = jb["refb"] is not None and jb["mb"] == jb["refb"]
            out["jobs"].append(res)
        out["summary"] = [o.toJSON()["summary"].get("xx", {}) for o in cc.observers]
        final = {}
        for rel, h in _tree_state(stage).items():
            if h != "/":
                with open(os.path.join(stage, rel), "rb") as f:
                    final[rel] = f.read().decode("latin-1")
        out["final"] = final
        out["dirs"] = ([""] if os.path.isdir(stage) else []) + sorted(k[:-1] for k, h in _tree_state(stage).items() if h == "/")
        # the same jobs, each on a comparer of its own
        for i, (jb, res) in enumerate(zip(jobs, out["jobs"])):
            fstage = os.path.join(root, "fresh%d" % i)
            fp = os.path.join(fstage, jb["name"])
            cf = Recording(quiet, filters)
            try:
                _run_job(cf, jb["mode"], File(jb["refp"], jb["name"], locale=None), File(jb["l10p"], jb["name"], locale="xx"), fp)
            except Exception as e:
                res["fresh_exc"] = type(e).__name__
            res["fresh_calls"] = cf.merge_calls
            res["fresh_summary"] = [o.toJSON()["summary"].get("xx", {}) for o in cf.observers]
            res["fresh_merged"] = None
            if os.path.isfile(fp):
                with open(fp, "rb") as f:
                    res["fresh_merged"] = f.read().decode("latin-1")
            shutil.rmtree(fstage, ignore_errors=True)
        # analysis of every job, as for a single comparison
        for jb, res in zip(jobs, out["jobs"]):
            name, refb, l10b = jb["name"], jb["refb"], jb["l10b"]
            has_parser = parser.hasParser(name)
            res["has_parser"] = has_parser
            reff = File(jb["refp"], name, locale=None)
            if res["merged"] is not None and refb is not None and has_parser:
                tmp = os.path.join(root, "again", name)
                os.makedirs(os.path.dirname(tmp), exist_ok=True)
                with open(tmp, "wb") as f:
                    f.write(jb["mb"])
                cc2 = Recording(0, filters)
                try:
                    cc2.compare(reff, File(tmp, name, locale="xx"), None)
                    res["report2"] = cc2.observers.toJSON()
                except Exception as e:
                    res["report2_exc"] = "%s: %s" % (type(e).__name__, e)
                res["merged_parse"] = parse_entities(name, jb["mb"])
            if has_parser:
                if refb is not None:
                    res["ref_parse"] = parse_entities(name, refb)
                if l10b is not None:
                    res["l10n_parse"] = parse_entities(name, l10b)
                if refb is not None and l10b is not None:
                    res["l10n_error_keys"] = check_errors(name, refb, l10b)
                    cc3 = Recording()
                    cc3.compare(reff, File(jb["refp"], name, locale="xx"), None)
                    s = cc3.observers.toJSON()["summary"].get("xx", {})
                    res["ref_clean"] = s.get("errors", 0) == 0 and s.get("warnings", 0) == 0
    finally:
        shutil.rmtree(root, ignore_errors=True)
    return out


def impl_caps_of(names):
    """`parser.getParser(name).capabilities` for every name (None = UserWarning), on a fresh lookup each"""
    out = []
    for n in names:
        try:
            out.append(parser.getParser(n).capabilities)
        except UserWarning:
            out.append(None)
    return out

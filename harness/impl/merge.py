"""Adapter: real ContentComparer.compare / add with a merge path, in a temp dir, observed from outside.

Everything the C04/C05 oracles need is collected here from the real objects:
first report, the arguments the code handed to `merge`, the staged file, a second comparison of
the staged file against the reference, an independent parse of inputs and output, file system
events (audit hook), hashes of the inputs."""
import hashlib
import json
import os
import shutil
import sys
import tempfile
import warnings

warnings.filterwarnings("ignore")

from compare_locales import parser
from compare_locales.checks import getChecker
from compare_locales.compare.content import ContentComparer
from compare_locales.compare.observer import Observer
from compare_locales.paths import File

FNAME = {"properties": "a.properties", "dtd": "a.dtd", "ini": "a.ini", "inc": "a.inc", "ftl": "a.ftl",
         "po": "a.po", "android": "strings.xml", "unknown": "a.txt"}

_events = []
_armed = [False]
_hook_installed = [False]


def _hook(event, args):
    if not _armed[0]:
        return
    try:
        if event == "open":
            path, mode, flags = args
            if isinstance(mode, str) and any(c in mode for c in "wax+"):
                _events.append(["open-write", str(path)])
            elif mode is None and isinstance(flags, int) and flags & (os.O_WRONLY | os.O_RDWR | os.O_CREAT):
                _events.append(["open-write", str(path)])
        elif event in ("os.mkdir", "os.remove", "os.rename", "os.rmdir", "shutil.copyfile", "shutil.move",
                       "shutil.rmtree", "os.truncate", "os.link", "os.symlink", "os.chmod", "shutil.copymode"):
            _events.append([event] + [str(a) for a in args if isinstance(a, (str, bytes, os.PathLike))])
    except Exception:
        pass


def install_hook():
    if not _hook_installed[0]:
        sys.addaudithook(_hook)
        _hook_installed[0] = True


class Recording(ContentComparer):
    def __init__(self):
        super().__init__()
        self.observers.append(Observer())
        self.merge_calls = []

    def merge(self, ref_entities, ref_file, l10n_file, merge_file, missing, skips, ctx, capabilities, encoding):
        rec = {"merge_file": merge_file is not None, "caps": capabilities, "missing": [], "skips": [],
               "contents": None if ctx is None else ctx.contents}
        try:
            for key in missing:
                try:
                    rec["missing"].append(ref_entities[key].all)
                except Exception:
                    rec["missing"].append(None)
            for s in skips:
                isj = isinstance(s, parser.Junk)
                ra = ""
                if not isj:
                    try:
                        ra = ref_entities[s.key].all
                    except Exception:
                        ra = None
                rec["skips"].append([s.span[0], s.span[1], isj, ra])
        except Exception as e:
            rec["record_error"] = repr(e)
        self.merge_calls.append(rec)
        return super().merge(ref_entities, ref_file, l10n_file, merge_file, missing, skips, ctx, capabilities, encoding)


def sha(path):
    with open(path, "rb") as f:
        return hashlib.sha256(f.read()).hexdigest()


def listing(root):
    out = []
    for d, ds, fs in os.walk(root):
        for f in fs:
            out.append(os.path.relpath(os.path.join(d, f), root))
        for x in ds:
            out.append(os.path.relpath(os.path.join(d, x), root) + "/")
    return sorted(out)


def parse_entities(fmt_file, data):
    """independent parse with a fresh parser object: entities (key, raw_val) and junk texts"""
    try:
        p = type(parser.getParser(fmt_file))()
    except UserWarning:
        return None
    p.readContents(data)
    ents, junk = [], []
    for e in p:
        if isinstance(e, parser.Junk):
            junk.append(e.all)
        else:
            k = e.key
            sp = getattr(e, "span", None)
            sp = [sp[0], sp[1]] if sp and isinstance(sp[0], int) and isinstance(sp[1], int) else None
            ents.append([list(k) if isinstance(k, tuple) else k, e.raw_val, e.all, sp])
    return {"entities": ents, "junk": junk}


def check_errors(fname, ref_data, l10n_data):
    """keys of localized entities (shared with the reference) that have error-level check results"""
    try:
        p = type(parser.getParser(fname))()
    except UserWarning:
        return []
    p.readContents(ref_data)
    ref = p.parse()
    p2 = type(parser.getParser(fname))()
    p2.readContents(l10n_data)
    l10n = p2.parse()
    f = File(fname, fname, locale="xx")
    checker = getChecker(f, extra_tests=None)
    if checker and checker.needs_reference:
        checker.set_reference(ref)
    bad = []
    for e in l10n:
        if isinstance(e, parser.Junk):
            continue
        k = e.key
        if k in ref and not isinstance(ref[k], parser.Junk):
            try:
                if any(tp == "error" for tp, pos, msg, cat in checker.check(ref[k], e)):
                    bad.append(list(k) if isinstance(k, tuple) else k)
            except Exception:
                bad.append(list(k) if isinstance(k, tuple) else k)
    return bad


def to_bytes(x, latin=False):
    if x is None:
        return None
    if latin:
        return x.encode("latin-1")
    return x.encode("utf-8", "surrogatepass")


def impl_compare_merge(fmt, ref_text, l10n_text, mode="compare", latin=False, with_merge=True):
    """mode: compare | add (l10n missing) | remove (reference missing)"""
    install_hook()
    fname = FNAME[fmt]
    base = os.environ.get("VERIF_TMP") or tempfile.gettempdir()
    root = tempfile.mkdtemp(prefix="clv-", dir=base)
    res = {"fmt": fmt, "mode": mode}
    try:
        os.makedirs(os.path.join(root, "ref"))
        os.makedirs(os.path.join(root, "l10n"))
        refp = os.path.join(root, "ref", fname)
        l10p = os.path.join(root, "l10n", fname)
        refb, l10b = to_bytes(ref_text, latin), to_bytes(l10n_text, latin)
        if refb is not None:
            with open(refp, "wb") as f:
                f.write(refb)
        if l10b is not None:
            with open(l10p, "wb") as f:
                f.write(l10b)
        mergep = os.path.join(root, "merge", "sub", fname) if with_merge else None
        before = listing(root)
        hashes = {p: sha(p) for p in (refp, l10p) if os.path.exists(p)}
        cc = Recording()
        reff = File(refp, fname, locale=None)
        l10f = File(l10p, fname, locale="xx")
        del _events[:]
        _armed[0] = True
        try:
            if mode == "compare":
                cc.compare(reff, l10f, mergep)
            elif mode == "add":
                cc.add(reff, l10f, mergep)
            else:
                cc.remove(reff, l10f, mergep)
        finally:
            _armed[0] = False
        res["events"] = [e for e in _events]
        res["report"] = cc.observers.toJSON()
        try:
            res["details_text"] = cc.observers.serializeDetails()
            res["summary_text"] = cc.observers.serializeSummaries()
        except Exception as e:
            res["serialize_exc"] = "%s: %s" % (type(e).__name__, e)
        res["merge_calls"] = cc.merge_calls
        res["inputs_unchanged"] = all(os.path.exists(p) and sha(p) == h for p, h in hashes.items())
        after = listing(root)
        res["new_paths"] = [p for p in after if p not in before]
        res["root"] = root
        res["merged"] = None
        if mergep and os.path.exists(mergep):
            with open(mergep, "rb") as f:
                mb = f.read()
            res["merged"] = mb.decode("latin-1")       # bytes transported as latin-1 text
            res["merged_is_l10n"] = (l10b is not None and mb == l10b)
            res["merged_is_ref"] = (refb is not None and mb == refb)
            if refb is not None and fmt != "unknown":
                cc2 = Recording()
                try:
                    cc2.compare(reff, File(mergep, fname, locale="xx"), None)
                    res["report2"] = cc2.observers.toJSON()
                except Exception as e:
                    res["report2_exc"] = "%s: %s" % (type(e).__name__, e)
                res["merged_parse"] = parse_entities(fname, mb)
        if fmt != "unknown":
            if refb is not None:
                res["ref_parse"] = parse_entities(fname, refb)
            if l10b is not None:
                res["l10n_parse"] = parse_entities(fname, l10b)
            if refb is not None and l10b is not None:
                res["l10n_error_keys"] = check_errors(fname, refb, l10b)
                # is the reference clean against itself?
                cc3 = Recording()
                cc3.compare(reff, File(refp, fname, locale="xx"), None)
                s = cc3.observers.toJSON()["summary"].get("xx", {})
                res["ref_clean"] = s.get("errors", 0) == 0 and s.get("warnings", 0) == 0
    finally:
        shutil.rmtree(root, ignore_errors=True)
    return res

"""Adapter for C05: compare (with/without merge) and lint on arbitrary bytes; every stage is
wrapped so that the result says which stage raised what."""
import os
import shutil
import tempfile
import warnings

warnings.filterwarnings("ignore")

from compare_locales import parser
from compare_locales.compare.content import ContentComparer
from compare_locales.compare.observer import Observer
from compare_locales.lint.linter import L10nLinter
from compare_locales.paths import File

from impl.merge import FNAME


def flat(d, out):
    if isinstance(d, list):
        out.extend(d)
    elif isinstance(d, dict):
        for v in d.values():
            flat(v, out)
    return out


def exc_info(e):
    import traceback
    tb = traceback.extract_tb(e.__traceback__)
    return {"exc": type(e).__name__, "msg": str(e)[:200],
            "where": ["%s:%s:%s" % (os.path.basename(f.filename), f.lineno, f.name) for f in tb[-3:]]}


def shape_errors_details(details):
    bad = []
    for d in details:
        if not isinstance(d, dict) or len(d) != 1:
            bad.append("detail is not a one-entry dict: %r" % (d,))
            continue
        (k, v), = d.items()
        if k in ("error", "warning"):
            if not isinstance(v, str):
                bad.append("message of %s is not text: %r" % (k, v))
        elif k in ("missingEntity", "obsoleteEntity"):
            if not isinstance(v, (str, tuple, list)):
                bad.append("%s key is not a key: %r" % (k, v))
        elif k in ("missingFile", "obsoleteFile"):
            pass
        else:
            bad.append("unknown detail category %r" % k)
    return bad


def junk_state():
    from compare_locales.parser.android import XMLJunk
    return (parser.Junk.junkid, XMLJunk.__dict__.get("junkid"))


def set_junk_state(st):
    from compare_locales.parser.android import XMLJunk
    parser.Junk.junkid = st[0]
    if st[1] is None:
        if "junkid" in XMLJunk.__dict__:
            del XMLJunk.junkid
    else:
        XMLJunk.junkid = st[1]


def entity_junk_clash(fname, refp, l10p, state0):
    """root cause of finding F8-junk-key-clash-raise, decided on the input: with the junk counters as they were when
    `compare` started (`state0` = junk_state(), or 0 for a fresh process), does the key of a Junk of one file equal the
    key of an ENTITY of the other file?  (Two Junks of the two files never share a key in the unchanged code: the
    counter value is part of the key.)"""
    saved = junk_state()
    try:
        set_junk_state((0, None) if state0 == 0 else state0)
        p = type(parser.getParser(fname))()
        p.readFile(refp)
        ref = list(p.walk(only_localizable=True))
        p.readFile(l10p)
        l10n = list(p.walk(only_localizable=True))
    except Exception:
        return False
    finally:
        set_junk_state(saved)

    def is_junk(e):
        return isinstance(e, parser.Junk)
    rj = {e.key for e in ref if is_junk(e)}
    lj = {e.key for e in l10n if is_junk(e)}
    return any((not is_junk(e)) and e.key in rj for e in l10n) or any((not is_junk(e)) and e.key in lj for e in ref)


def impl_robust(fmt, ref_latin, l10n_latin, with_merge):
    fname = FNAME[fmt]
    base = os.environ.get("VERIF_TMP") or tempfile.gettempdir()
    root = tempfile.mkdtemp(prefix="clv5-", dir=base)
    res = {"stages": {}, "shape": [], "ufffd_missing": []}
    try:
        os.makedirs(os.path.join(root, "ref"))
        os.makedirs(os.path.join(root, "l10n"))
        refp = os.path.join(root, "ref", fname)
        l10p = os.path.join(root, "l10n", fname)
        with open(refp, "wb") as f:
            f.write(ref_latin.encode("latin-1"))
        with open(l10p, "wb") as f:
            f.write(l10n_latin.encode("latin-1"))
        mergep = os.path.join(root, "merge", fname) if with_merge else None
        cc = ContentComparer()
        cc.observers.append(Observer())
        junkid0 = junk_state()
        try:
            cc.compare(File(refp, fname, locale=None), File(l10p, fname, locale="xx"), mergep)
            res["stages"]["compare"] = "ok"
        except Exception as e:
            res["stages"]["compare"] = exc_info(e)
            res["stages"]["compare"]["entity_junk_clash"] = entity_junk_clash(fname, refp, l10p, junkid0)
        try:
            rep = cc.observers.toJSON()
            details = flat(rep["details"], [])
            res["shape"] += shape_errors_details(details)
            for loc, summ in rep["summary"].items():
                for k, v in summ.items():
                    if not isinstance(v, int) or v < 0:
                        res["shape"].append("summary %s is not a count: %r" % (k, v))
            res["n_details"] = len(details)
            res["summary"] = rep["summary"].get("xx", {})
            txt = cc.observers.serializeDetails() + cc.observers.serializeSummaries()
            res["stages"]["report"] = "ok"
        except Exception as e:
            res["stages"]["report"] = exc_info(e)
            details = []
        # U+FFFD: every localized string shared with the reference whose text contains it gets a warning
        if res["stages"].get("compare") == "ok":
            try:
                try:
                    p = type(parser.getParser(fname))()
                    p.readFile(refp)
                    ref = p.parse()
                    p2 = type(parser.getParser(fname))()
                    p2.readFile(l10p)
                    l10n = p2.parse()
                except RecursionError:
                    # the harness's own re-parse: the external parser gave up (compare reported that as an error); nothing shared to judge
                    ref, l10n = [], []
                seen = set()
                msgs = [d.get("warning", "") for d in details if "warning" in d]
                for e in l10n:
                    if isinstance(e, parser.Junk):
                        continue
                    k = e.key
                    if k in seen:
                        continue
                    seen.add(k)
                    if k in ref and not isinstance(ref[k], parser.Junk) and not isinstance(l10n[k], parser.Junk):
                        if "�" in l10n[k].all:
                            want = "� in: %s" % (l10n[k].key,)
                            if not any(m.startswith(want) for m in msgs):
                                res["ufffd_missing"].append(repr(k))
                res["stages"]["ufffd"] = "ok"
            except Exception as e:
                res["stages"]["ufffd"] = exc_info(e)
        # lint the localized file against the reference
        try:
            results = list(L10nLinter().lint_file(l10p, refp, None))
            for r in results:
                if r.get("level") not in ("error", "warning"):
                    res["shape"].append("lint level %r" % (r.get("level"),))
                if not isinstance(r.get("message"), str):
                    res["shape"].append("lint message is not text: %r" % (r.get("message"),))
                for f in ("lineno", "column"):
                    if not isinstance(r.get(f), int) or isinstance(r.get(f), bool):
                        res["shape"].append("lint %s is not an integer: %r" % (f, r.get(f)))
            res["n_lint"] = len(results)
            res["stages"]["lint"] = "ok"
        except Exception as e:
            res["stages"]["lint"] = exc_info(e)
        # detail messages of check results carry integer line/column
        import re
        for d in details:
            m = d.get("error") or d.get("warning")
            if isinstance(m, str) and " at line " in m:
                if not re.search(r" at line -?\d+, column -?\d+ for ", m):
                    res["shape"].append("check message without integer line/column: %r" % m[:80])
    finally:
        shutil.rmtree(root, ignore_errors=True)
    return res

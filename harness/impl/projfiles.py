"""C13 adapters: materialise a generated project in a real temp dir, run the real TOMLParser / ProjectFiles,
extract the abstract matcher relation for the Lean model, and judge the result with an oracle that knows
the covered set *by construction* (from the generator's own description of rules and files, never through
`Matcher`).  Everything here works on a JSON-able `spec` so that a failing case can be replayed."""
import json
import os
import shutil
import tempfile
import warnings

warnings.filterwarnings("ignore")

SCRATCH = "/tmp/wt/c13"
TESTS = ["android-dtd", "compare-extra", "t3"]
REFLOC = "en-x-moz-reference"

# rule tails: pattern text after the directory part
TAILS = {"ss": "**", "star": "*", "star_ftl": "*.ftl", "lit": "file.ftl", "ba": "ba*.ftl", "ba_any": "ba*",
         "ss_x": "**/x.ftl", "star_v": "*/{v}.ftl"}
# tails with literal text before the first wildcard inside a name: the matcher prefix ends inside the name
INNER = {"ba": "ba", "ba_any": "ba"}
LROOT = {"l": "{l}", "inline": "{l10n_base}/{locale}/"}


# ---------------------------------------------------------------- semantics of a spec, by construction
def tail_cover(kind, rel, v):
    """does the tail `kind` cover the path `rel` (relative to the rule's directory)?  Independent of Matcher."""
    if not rel:
        return False
    if kind == "ss":
        return True
    if kind == "star":
        return "/" not in rel
    if kind == "star_ftl":
        return "/" not in rel and rel.endswith(".ftl")
    if kind == "lit":
        return rel == "file.ftl"
    if kind == "ba":
        return "/" not in rel and rel.startswith("ba") and rel.endswith(".ftl") and len(rel) >= 6
    if kind == "ba_any":
        return "/" not in rel and rel.startswith("ba")
    if kind == "ss_x":
        return rel == "x.ftl" or rel.endswith("/x.ftl")
    if kind == "star_v":
        parts = rel.split("/")
        return len(parts) == 2 and parts[1] == "%s.ftl" % v
    raise ValueError(kind)


class Sem:
    """meaning of a spec; all paths are relative to the project's temp root (they start with '/')"""

    def __init__(self, spec):
        self.spec = spec
        self.cfgs = spec["configs"]
        self.files = set(spec["files"])

    def eff_env(self, c):
        e = dict(self.cfgs[c]["env"])
        e.update(self.spec["parser_env"])
        return {k: v.replace("@R@", "") for k, v in e.items()}

    def v(self, c):
        return self.eff_env(c).get("v")

    def lbase(self, c, loc):
        return "%s/%s/" % (self.eff_env(c)["l10n_base"], loc)

    def missing(self, c):
        return bool(self.cfgs[c].get("missing"))

    def configs_of(self, c):
        """the config and its included configs; an include whose file is missing is skipped (ignore_missing_includes)"""
        out = [c]
        for ch in self.cfgs[c]["includes"]:
            if not self.missing(ch):
                out += self.configs_of(ch)
        return out

    def first_missing(self, c):
        """the first include/exclude (processing order: includes depth first, then excludes) whose file cannot be loaded"""
        for ch in list(self.cfgs[c]["includes"]) + list(self.cfgs[c]["excludes"]):
            if self.missing(ch):
                return ch
            r = self.first_missing(ch)
            if r is not None:
                return r
        return None

    def all_locales(self, c):
        s = set()
        for x in self.configs_of(c):
            s.update(self.cfgs[x]["locales"] or [])
            for r in self.cfgs[x]["rules"]:
                s.update(r["locales"] or [])
        return s

    def collect(self, projects, loc):
        """(config names in enumeration order, exclude project names) for `projects`"""
        configs, excludes = [], []
        for p in projects:
            if loc is not None and loc not in self.all_locales(p):
                continue
            for x in self.configs_of(p):
                if all(self.cfgs[y]["file"] != self.cfgs[x]["file"] for y in configs):
                    configs.append(x)
            for x in self.cfgs[p]["excludes"]:
                if self.missing(x):
                    continue
                if all(self.cfgs[y]["file"] != self.cfgs[x]["file"] for y in excludes):
                    excludes.append(x)
        excludes = [x for x in excludes if all(self.cfgs[y]["file"] != self.cfgs[x]["file"] for y in configs)]
        return configs, excludes

    def rules(self, configs, loc):
        """[(config, rule index, rule)] that are enabled for loc (all of them in validation mode)"""
        out = []
        for c in configs:
            cf = self.cfgs[c]
            if loc and cf["locales"] is not None and loc not in cf["locales"]:
                continue
            for i, r in enumerate(cf["rules"]):
                if loc and r["locales"] is not None and loc not in r["locales"]:
                    continue
                out.append((c, i, r))
        return out

    # coverage
    def ldir(self, c, r, loc):
        return self.lbase(c, loc) + r["ldir"]

    def rdir(self, r):
        return "/ref/" + r["rdir"]

    def cov_l(self, c, r, loc, p):
        d = self.ldir(c, r, loc)
        return p.startswith(d) and tail_cover(r["tail"], p[len(d):], self.v(c))

    def cov_r(self, c, r, q):
        if not r["ref"]:
            return False
        d = self.rdir(r)
        return q.startswith(d) and tail_cover(r["tail"], q[len(d):], self.v(c))

    def ref_of(self, c, r, loc, p):
        return self.rdir(r) + p[len(self.ldir(c, r, loc)):]

    def l10n_of(self, c, r, loc, q):
        return self.ldir(c, r, loc) + q[len(self.rdir(r)):]

    def merge_of(self, c, r, loc, p):
        return "/merge/%s/" % loc + r["ldir"] + p[len(self.ldir(c, r, loc)):]

    def key(self, c, r):
        """textually identical l10n patterns (what the duplicate scan compares)"""
        return (r["lroot"], r["ldir"], r["tail"])

    def same_rule(self, a, b):
        (c1, _, r1), (c2, _, r2) = a, b
        return self.key(c1, r1) == self.key(c2, r2) and (r1["tail"] != "star_v" or self.v(c1) == self.v(c2))

    def twins(self, rules, a):
        """rules with the same pattern text but a different variable value: not duplicates at all"""
        (c1, _, r1) = a
        return [b for b in rules if self.key(b[0], b[2]) == self.key(c1, r1) and r1["tail"] == "star_v"
                and self.v(b[0]) != self.v(c1)]

    def tests_of(self, rules, a):
        s = set()
        for b in rules:
            if self.same_rule(a, b):
                s.update(b[2]["test"] or [])
        return sorted(s)


def ident(a):
    return (a[0], a[1])


def lists_for(sem, loc):
    """(enabled rules, rules of the excluded configs) for a locale, in config order"""
    configs, excludes = sem.collect(sem.spec["projects"], loc)
    en = sem.rules(configs, loc)
    exconfigs, _ = sem.collect(excludes, loc)
    ex = sem.rules(exconfigs, loc)
    return en, ex


def oracle_locale(sem, loc, res, universe):
    """Judge a result `res` = {"items": [[path, ref, merge, [tests]]...], "looks": {path: item|None}} for a real
    locale against the meaning of the spec.  Returns a list of messages (one per violated clause and path)."""
    spec = sem.spec
    out = []
    en, ex = lists_for(sem, loc)
    mb = spec["mergebase"]

    def excluded(p):
        return any(sem.cov_l(a[0], a[2], loc, p) or sem.cov_r(a[0], a[2], p) for a in ex)

    exp = {}
    for p in sorted(sem.files):
        cs = [a for a in en if sem.cov_l(a[0], a[2], loc, p)]
        if cs:
            exp.setdefault(p, {"l": [], "r": []})["l"] = cs
    for q in sorted(sem.files):
        for a in en:
            if sem.cov_r(a[0], a[2], q):
                exp.setdefault(sem.l10n_of(a[0], a[2], loc, q), {"l": [], "r": []})["r"].append((a, q))

    def should_yield(p):
        e = exp[p]
        if excluded(p):
            return False
        return bool(e["l"]) or any(not excluded(q) for _, q in e["r"])

    items = res["items"]
    paths = [i[0] for i in items]
    if any(not (a < b) for a, b in zip(paths, paths[1:])):
        out.append("paths are not strictly increasing (duplicate or unsorted): %r" % paths)
    got = {i[0]: i for i in items}
    # soundness
    for p in paths:
        if p not in exp:
            out.append("yields %s which no enabled rule covers for locale %s (foreign locale, disabled or uncovered)" % (p, loc))
        elif excluded(p):
            out.append("yields %s although an excluded configuration covers it (locale %s)" % (p, loc))
    # completeness
    for p in sorted(exp):
        if should_yield(p) and p not in got:
            side = "l10n" if exp[p]["l"] else "reference"
            out.append("%s is covered by an enabled rule (file on the %s side) but is not enumerated for locale %s" % (p, side, loc))
    # pairing
    for p, it in got.items():
        if p not in exp or excluded(p):
            continue
        e = exp[p]
        if e["l"]:
            cands = [e["l"][-1]]
        else:
            cands = [a for a, q in e["r"] if not excluded(q)]
        ok = False
        for a in cands:
            c, _, r = a
            if e["l"]:
                ref = sem.ref_of(c, r, loc, p) if r["ref"] else None
            else:
                ref = [q for b, q in e["r"] if ident(b) == ident(a)][0]
            merge = sem.merge_of(c, r, loc, p) if mb else None
            if it[1] == ref and it[2] == merge and it[3] == sem.tests_of(en, a):
                ok = True
        if not ok:
            out.append("%s (locale %s) is paired with reference=%r merge=%r tests=%r, which is not the pairing of the %s" % (
                p, loc, it[1], it[2], it[3], "last rule covering it" if e["l"] else "rule that covers its reference file"))
    # enumeration vs lookup
    for p in universe:
        m = res["looks"].get(p)
        if p in sem.files and p in exp and exp[p]["l"]:
            # an existing localized file
            if m != got.get(p):
                out.append("existing localized file %s (locale %s): enumeration gives %r, lookup gives %r" % (p, loc, got.get(p), m))
        elif p in sem.files:
            cov = [a for a in en if sem.cov_r(a[0], a[2], p)]
            if len(cov) == 1 and not any(sem.cov_l(a[0], a[2], loc, p) for a in en):
                a = cov[0]
                lp = sem.l10n_of(a[0], a[2], loc, p)
                others = exp.get(lp, {"l": [], "r": []})
                if all(ident(b) == ident(a) for b in others["l"]) and all(ident(b) == ident(a) for b, _ in others["r"]) \
                        and len(others["r"]) == 1:
                    # non-overlapping coverage: lookup by reference path agrees with the enumeration
                    if m != got.get(lp) and not (m is None and lp not in got):
                        out.append("reference file %s (locale %s): lookup gives %r, enumeration gives %r" % (p, loc, m, got.get(lp)))
    return out


def oracle_validation(sem, res):
    """reference self-validation mode: every reference file covered by a rule, once, sorted, paired with itself"""
    out = []
    en, _ = lists_for(sem, None)
    items = res["items"]
    paths = [i[0] for i in items]
    if any(not (a < b) for a, b in zip(paths, paths[1:])):
        out.append("validation mode: paths are not strictly increasing: %r" % paths)
    got = {i[0]: i for i in items}
    exp = {}
    for q in sorted(sem.files):
        cs = [a for a in en if sem.cov_r(a[0], a[2], q)]
        if cs:
            exp[q] = cs
    for p in paths:
        if p not in exp:
            out.append("validation mode yields %s which no reference rule covers" % p)
    for q, cs in exp.items():
        if q not in got:
            out.append("validation mode: reference file %s is covered but not enumerated" % q)
            continue
        it = got[q]
        a = cs[-1]
        if it[1] != q or it[2] is not None or it[3] != sem.tests_of(en, a):
            out.append("validation mode: %s is yielded as %r, expected itself as reference and tests %r" % (q, it, sem.tests_of(en, a)))
    return out


# ---------------------------------------------------------------- root causes of the recorded findings
DEFECTS = ("F14",)


def predict(sem, loc, universe, defects):
    """What the enumeration and the lookups give if the documented semantics is changed by exactly the given defects:
       F14 the duplicate scan identifies rules by pattern text + prefix only (ignores [env] values used after the first wildcard)
    Used ONLY to name the root cause of a violation the oracle has already found on the real result."""
    en, ex = lists_for(sem, loc)
    mb = sem.spec["mergebase"]
    lloc = loc if loc else REFLOC

    def key(a):
        k = sem.key(a[0], a[2])
        if "F14" not in defects and a[2]["tail"] == "star_v":
            k = k + (sem.v(a[0]),)
        return k

    def survivors(rules):
        """reversed order, first of every key, tests merged over the key class"""
        out, seen = [], set()
        for a in reversed(rules):
            if key(a) in seen:
                continue
            seen.add(key(a))
            tests = set()
            for b in rules:
                if key(b) == key(a):
                    tests.update(b[2]["test"] or [])
            out.append((a, sorted(tests)))
        return out

    ms = survivors(en)
    xs = [a for a, _ in survivors(ex)] if loc else []

    def excluded(p):
        return any(sem.cov_l(a[0], a[2], lloc, p) or sem.cov_r(a[0], a[2], p) for a in xs)

    files = sorted(sem.files)
    known = {}
    if loc:
        for a, tests in ms:
            c, _, r = a
            for p in files:
                if sem.cov_l(c, r, loc, p) and not excluded(p) and p not in known:
                    known[p] = [p, sem.ref_of(c, r, loc, p) if r["ref"] else None,
                                sem.merge_of(c, r, loc, p) if mb else None, tests]
            for q in files:
                if sem.cov_r(c, r, q) and not excluded(q):
                    lp = sem.l10n_of(c, r, loc, q)
                    if excluded(lp):
                        continue
                    if lp not in known:
                        known[lp] = [lp, q, sem.merge_of(c, r, loc, lp) if mb else None, tests]
    else:
        for a, tests in ms:
            c, _, r = a
            for q in files:
                if sem.cov_r(c, r, q) and q not in known:
                    known[q] = [q, q, None, tests]
    looks = {}
    for p in universe:
        looks[p] = None
        if loc and excluded(p):
            continue
        for a, tests in ms:
            c, _, r = a
            if loc and sem.cov_l(c, r, loc, p):
                looks[p] = [p, sem.ref_of(c, r, loc, p) if r["ref"] else None, sem.merge_of(c, r, loc, p) if mb else None, tests]
                break
            if sem.cov_r(c, r, p):
                lp = sem.l10n_of(c, r, lloc, p)
                if loc and excluded(lp):
                    break
                looks[p] = [lp, p, sem.merge_of(c, r, loc, lp) if (mb and loc) else None, tests]
                break
    return {"items": [known[k] for k in sorted(known)], "looks": looks}


def judge(sem, loc, res, universe):
    return oracle_validation(sem, res) if loc is None else oracle_locale(sem, loc, res, universe)


def classify_all(sem, loc, universe, msgs):
    """finding id for each message: the single defect that reproduces exactly this violation (same observed values),
    else the first defect without which the combination of all three does not reproduce it, else None"""
    cache = {}

    def V(ds):
        ds = tuple(ds)
        if ds not in cache:
            cache[ds] = set(judge(sem, loc, predict(sem, loc, universe, ds), universe))
        return cache[ds]

    out = []
    for m in msgs:
        fid = None
        for d in DEFECTS:
            if m in V([d]):
                fid = d
                break
        if fid is None and m in V(DEFECTS):
            for d in DEFECTS:
                if m not in V([x for x in DEFECTS if x != d]):
                    fid = d
                    break
        out.append(fid)
    return out


# ---------------------------------------------------------------- materialising a spec
def toml_of(spec, cname):
    cf = spec["configs"][cname]
    q = json.dumps
    lines = ["basepath = %s" % q(cf["basepath"])]
    if cf["locales"] is not None:
        lines.append("locales = [%s]" % ", ".join(q(x) for x in cf["locales"]))
    if cf["env"]:
        lines.append("[env]")
        for k, v in cf["env"].items():
            lines.append("    %s = %s" % (k, q(v)))
    for r in cf["rules"]:
        lines.append("[[paths]]")
        if r["ref"]:
            lines.append("    reference = %s" % q("ref/" + r["rdir"] + TAILS[r["tail"]]))
        lines.append("    l10n = %s" % q(LROOT[r["lroot"]] + r["ldir"] + TAILS[r["tail"]]))
        if r["test"] is not None:
            lines.append("    test = [%s]" % ", ".join(q(x) for x in r["test"]))
        if r["locales"] is not None:
            lines.append("    locales = [%s]" % ", ".join(q(x) for x in r["locales"]))
    for f in cf.get("filters", []):
        lines.append("[[filters]]")
        lines.append("    path = %s" % q(f["path"]))
        if f.get("key") is not None:
            lines.append("    key = %s" % q(f["key"]))
        lines.append("    action = %s" % q(f["action"]))
    spell = cf.get("inc_spell", {})
    for inc in cf["includes"]:
        lines.append("[[includes]]")
        lines.append("    path = %s" % q(SPELL[spell.get(inc, "plain")] % spec["configs"][inc]["file"]))
    for exc in cf["excludes"]:
        lines.append("[[excludes]]")
        lines.append("    path = %s" % q(SPELL[spell.get(exc, "plain")] % spec["configs"][exc]["file"]))
    return "\n".join(lines) + "\n"


# how the path of an included / excluded configuration is written (all resolve to <root>/<file>; `cfgroot` is a variable of
# the command-line env)
SPELL = {"plain": "%s", "dot": "./%s", "updown": "zz/../%s", "absolute": "@R@/%s", "var": "{cfgroot}/%s", "slashes": ".//%s"}


def wipe(root):
    """remove everything below `root`"""
    for name in os.listdir(root):
        p = os.path.join(root, name)
        if os.path.isdir(p) and not os.path.islink(p):
            shutil.rmtree(p, ignore_errors=True)
        else:
            os.remove(p)


def materialise(spec, root=None):
    """write the configuration files and the tree of `spec`.  With a `root` (a session rewrites ONE directory between the
    calls): the directory is brought to exactly this content the way a user edits a checkout — files that are no longer wanted
    are deleted, files whose text is unchanged are NOT touched (they keep their inode and mtime)"""
    os.makedirs(SCRATCH, exist_ok=True)
    fresh = root is None
    if fresh:
        root = os.path.realpath(tempfile.mkdtemp(prefix="run-", dir=SCRATCH))
    want = {}
    for cname, cf in spec["configs"].items():
        if cf.get("missing") == "absent":
            continue
        want[os.path.join(root, cf["file"])] = "[[paths]\n" if cf.get("missing") else toml_of(spec, cname).replace("@R@", root)
    for rel in spec["files"]:
        want[root + rel] = "k = v\n"
    if not fresh:
        for d, dirs, files in os.walk(root, topdown=False):
            for f in files:
                p = os.path.join(d, f)
                if p not in want:
                    os.remove(p)
            if d != root and not os.listdir(d):
                os.rmdir(d)
    for cname, cf in spec["configs"].items():
        os.makedirs(os.path.dirname(os.path.join(root, cf["file"])), exist_ok=True)
    for p, text in want.items():
        if not fresh and os.path.isfile(p):
            with open(p) as f:
                if f.read() == text:
                    continue
        os.makedirs(os.path.dirname(p), exist_ok=True)
        with open(p, "w") as f:
            f.write(text)
    return root


def enc(s):
    return "t:" + ",".join(str(ord(c)) for c in s)


class Strip:
    def __init__(self, root):
        self.root = root

    def __call__(self, p):
        if p is None:
            return None
        if p == self.root or p.startswith(self.root + "/"):
            return p[len(self.root):]
        return "!" + p


def fmt_item(it):
    def o(x):
        return "-" if x is None else enc(x)
    return "%s %s %s t:%s" % (enc(it[0]), o(it[1]), o(it[2]), ",".join(str(TESTS.index(t)) for t in it[3]))


def run_case(spec):
    """everything for one generated project; returns a JSON-able dict"""
    root = materialise(spec)
    try:
        return _run(spec, root)
    finally:
        shutil.rmtree(root, ignore_errors=True)


def pf_result(pf, universe, strip):
    """list(pf) and pf.match(p) for every path of the universe: (result for the oracle, canonical text)"""
    items = [[strip(a), strip(b), strip(c), sorted(t)] for a, b, c, t in pf]
    looks = {}
    for p in universe:
        m = pf.match(p)
        looks[strip(p)] = None if m is None else [strip(m[0]), strip(m[1]), strip(m[2]), sorted(m[3])]
    canon = "ok|" + ";".join(fmt_item(i) for i in items) + "|" + ";".join(
        "None" if looks[strip(p)] is None else fmt_item(looks[strip(p)]) for p in universe)
    return {"items": items, "looks": looks}, canon


def _run(spec, root, sess=None):
    """`sess` (a `Session`): this project is one step of a parser session — every parse goes through the session's ONE
    TOMLParser object and is recorded, the ProjectFiles objects are built in the order the step asks for, kept, and listed again
    at the end of the step; the table streams (`pf.run`, `pfm.run`) are left to the stateless cases."""
    from compare_locales.paths import TOMLParser, ProjectFiles
    from compare_locales.paths.files import REFERENCE_LOCALE
    from compare_locales import mozpath
    strip = Strip(root)
    sem = Sem(spec)
    from impl import tomlcfg as TCF
    import logging
    logging.disable(logging.CRITICAL)
    out = {"lines": [], "mlines": [], "impl": [], "violations": [], "stats": {}, "locales": [], "root": root,
           "plines": [], "pimpl": [], "rlines": []}
    penv = {k: v.replace("@R@", root) for k, v in spec["parser_env"].items()}
    ignore = bool(spec.get("ignore"))
    # ---- the TOML route: real TOMLParser vs the model run on toml.load of the same files (`c13.toml.parse`)
    cfgfiles = [os.path.join(root, cf["file"]) for cf in spec["configs"].values()]
    loaded = TCF.load_world(cfgfiles)
    world = TCF.world_tokens(ignore, os.getcwd(), penv, loaded)
    projects = []
    raised = False

    def parse(top):
        if sess is None:
            return TOMLParser().parse(top, env=dict(penv), ignore_missing_includes=ignore)
        return sess.parse(top, penv, ignore, loaded, bool(spec.get("env_none")))

    for c in spec["projects"]:
        top = os.path.join(root, spec["configs"][c]["file"])
        deep = spec.get("deep")
        out["plines"].append(" ".join(["c13.toml.parse"] + world + [TCF.enc(top), TCF.locs(deep)]))
        gone = sem.first_missing(c)
        try:
            pc = parse(top)
            if gone is not None and not ignore:
                out["violations"].append({"what": "config %s: the file of the include/exclude %s cannot be loaded and ignore_missing_includes is off, "
                                          "but parse returned a configuration" % (spec["configs"][c]["file"], spec["configs"][gone]["file"]), "finding": None})
            projects.append(pc)
            if deep is not None:
                # what `compare-locales --full` does; on a second parse, so that the enumeration below sees the file's locales
                pc2 = parse(top)
                if sess is None:
                    pc2.set_locales(list(deep), deep=True)
                else:
                    sess.deep(pc2, deep)
                out["pimpl"].append(TCF.canon_pc(pc2))
                bad = [strip(x.path) for x in pc2.configs if x.locales != list(deep)]
                if bad:
                    out["violations"].append({"what": "set_locales(%r, deep=True) did not reach the included configs %r" % (deep, bad), "finding": None})
            else:
                out["pimpl"].append(TCF.canon_pc(pc))
        except Exception as e:      # noqa: every exception is a result of this stream
            raised = True
            out["pimpl"].append(TCF.canon_exc(e))
            want = None if (gone is None or ignore) else os.path.join(root, spec["configs"][gone]["file"])
            if type(e).__name__ != "ConfigNotFound" or want is None or e.filename != want:
                out["violations"].append({"what": "config %s: parse raised %s, expected %s" % (
                    spec["configs"][c]["file"], TCF.canon_readable(TCF.canon_exc(e)).replace(root, ""),
                    "a configuration" if want is None else "ConfigNotFound for " + strip(want)), "finding": None})
    if raised:
        return out

    # the configuration objects against the generated TOML, by construction
    def check_cfg(pc, cname):
        cf = spec["configs"][cname]
        want_env = {k: v.replace("@R@", root) for k, v in cf["env"].items()}
        want_env.update(penv)
        if dict(pc.environ) != want_env:
            overridden = [k for k in penv if k in cf["env"] and cf["env"][k].replace("@R@", root) != penv[k]]
            out["violations"].append({"what": "config %s: environ is %r, expected file [env] overridden by the parser env %r (overridden keys: %r)" % (
                cf["file"], strip_env(pc.environ, root), strip_env(want_env, root), overridden), "finding": None})
        facts = (strip(pc.path), strip(pc.root), pc.locales, len(pc.paths), len(pc.children), len(pc.excludes))
        incs = [n for n in cf["includes"] if not sem.missing(n)]
        excs = [n for n in cf["excludes"] if not sem.missing(n)]
        want = ("/" + cf["file"], "", cf["locales"], len(cf["rules"]), len(incs), len(excs))
        if facts != want:
            out["violations"].append({"what": "config %s parsed as %r, expected %r" % (cf["file"], facts, want), "finding": None})
            return
        # every [[paths]] table is one path rule, with its own locales / test / reference
        for d, r in zip(pc.paths, cf["rules"]):
            got = (d.get("locales"), d.get("test"), "reference" in d)
            if got != (r["locales"], r["test"], bool(r["ref"])):
                out["violations"].append({"what": "config %s: path rule %s has (locales, test, reference?) = %r, expected %r" % (
                    cf["file"], d["l10n"].pattern, got, (r["locales"], r["test"], bool(r["ref"]))), "finding": None})
        nrules = sum(len([f["path"]] if isinstance(f["path"], str) else f["path"]) *
                     (1 if (f.get("key") is None or isinstance(f["key"], str)) else len(f["key"])) for f in cf.get("filters", []))
        if len(pc.rules) != nrules:
            out["violations"].append({"what": "config %s: %d compiled filter rules, expected %d (one per path and key)" % (cf["file"], len(pc.rules), nrules), "finding": None})
        if sorted(pc.all_locales) != sorted(sem.all_locales(cname)):
            out["violations"].append({"what": "config %s: all_locales is %r, expected %r (own, per-rule and included configs, not the excludes)" % (
                cf["file"], list(pc.all_locales), sorted(sem.all_locales(cname))), "finding": None})
        for ch, n in zip(pc.children, incs):
            check_cfg(ch, n)
        for ch, n in zip(pc.excludes, excs):
            check_cfg(ch, n)

    for pc, cname in zip(projects, spec["projects"]):
        check_cfg(pc, cname)

    # file system in os.walk order, then the extra lookups
    fsfiles = []
    for d, dirs, files in os.walk(root):
        for f in files:
            fsfiles.append(mozpath.join(d, f))
    assert sorted(strip(p) for p in fsfiles) == sorted(list(spec["files"]) + ["/" + cf["file"] for cf in spec["configs"].values()
                                                                               if cf.get("missing") != "absent"]), "tree"
    universe = fsfiles + [root + p for p in spec["lookups"] if root + p not in fsfiles]
    mbase = root + "/merge" if spec["mergebase"] else None
    sem.files = set(strip(p) for p in fsfiles)

    mbase_all = mbase
    kept = []
    order = spec["locales"] + [None]
    if sess is not None and spec.get("order") is not None:
        order = list(spec["order"])
    for loc in order:
        # validation mode with a merge stage raises TypeError (with_env({"locale": None})): exercised only when `vmerge` is set
        mbase = mbase_all if (loc is not None or spec.get("vmerge")) else None
        # ---- real implementation
        res = None
        try:
            pf = ProjectFiles(loc, projects, mergebase=mbase)
            res, canon = pf_result(pf, universe, strip)
            kept.append((pf, canon, loc))
        except (RuntimeError, AttributeError, TypeError) as e:
            canon = "err:" + type(e).__name__
        out["impl"].append(canon)
        out["locales"].append(loc)
        if sess is None:
            # ---- model input from the real objects
            out["lines"].append(model_line(projects, loc, mbase, universe, len(fsfiles), strip, REFERENCE_LOCALE))
            # ---- the same case for the composed model (pattern TEXTS instead of match tables)
            out["mlines"].append(model_line_m(projects, loc, mbase, universe, len(fsfiles), strip, root, REFERENCE_LOCALE))
        else:
            sess.files(projects, loc, mbase, universe, len(fsfiles), canon)
        # ---- and for parsing composed with enumeration: the toml.load dictionaries, the env and the tree (`c13.toml.run`)
        out["rlines"].append(" ".join(
            ["c13.toml.run"] + world + ["-" if loc is None else enc(loc), "-" if mbase is None else enc(mbase),
                                        "P", str(len(spec["projects"]))] +
            [enc(os.path.join(root, spec["configs"][c]["file"])) for c in spec["projects"]] +
            ["S", str(len(universe))] + [enc(p) for p in universe] + ["U", str(len(universe))] + [str(i) for i in range(len(universe))] +
            ["F", str(len(fsfiles)), "TT", str(len(TESTS))] + [enc(t) for t in TESTS] + [enc(root)]))
        # ---- oracle
        if res is not None and not spec.get("mismatch"):
            uni = [strip(p) for p in universe]
            msgs = judge(sem, loc, res, uni)
            if msgs:
                for m, fid in zip(msgs, classify_all(sem, loc, uni, msgs)):
                    out["violations"].append({"what": m, "finding": fid, "locale": loc})
        st = out["stats"]
        if res is not None:
            st["items"] = st.get("items", 0) + len(res["items"])
            st["hits"] = st.get("hits", 0) + sum(1 for v in res["looks"].values() if v is not None)
        else:
            st["raised"] = st.get("raised", 0) + 1
    if sess is not None:
        # the ProjectFiles objects built during this step, enumerated again after all the others were built from the same
        # configuration objects: one object, one tree => one listing
        for pf, canon, loc in kept:
            try:
                again = pf_result(pf, universe, strip)[1]
            except Exception as e:      # noqa
                again = "raised " + type(e).__name__
            if again != canon:
                out["violations"].append({"what": "the ProjectFiles object for locale %s, enumerated again on the unchanged tree after ProjectFiles "
                                          "objects for %r were built from the same configurations, gives %s; its first listing was %s" % (
                                              loc, [l for _, _, l in kept], readable_items(again), readable_items(canon)), "finding": None, "locale": loc})
        if spec.get("deep_after") is not None:
            # what `compare-locales` does with every parsed configuration: set_locales(locales, deep=True) — then enumerate.
            # By construction: the project and every configuration it includes now have exactly these locales.
            import copy
            ls = list(spec["deep_after"])
            for pc in projects:
                sess.deep(pc, ls)
            spec2 = copy.deepcopy(spec)
            inc = set()
            for c in spec["projects"]:
                inc.update(sem.configs_of(c))
            for c in inc:
                spec2["configs"][c]["locales"] = list(ls)
            exc = set()
            for c in spec["projects"]:
                for x in spec["configs"][c]["excludes"]:
                    if not sem.missing(x):
                        exc.update(sem.configs_of(x))
            sem2 = Sem(spec2)
            sem2.files = sem.files
            for loc in ls[:2]:
                try:
                    pf = ProjectFiles(loc, projects, mergebase=mbase_all)
                    res, canon = pf_result(pf, universe, strip)
                except (RuntimeError, AttributeError, TypeError) as e:
                    res, canon = None, "err:" + type(e).__name__
                sess.files(projects, loc, mbase_all, universe, len(fsfiles), canon)
                # an excluded copy of a configuration that is also included keeps its own locales: one name, two objects — not judged
                if res is not None and not spec.get("mismatch") and not (inc & exc):
                    uni = [strip(p) for p in universe]
                    msgs = judge(sem2, loc, res, uni)
                    for m, fid in zip(msgs, classify_all(sem2, loc, uni, msgs)):
                        out["violations"].append({"what": "after set_locales(%r, deep=True) on the parsed configurations: %s" % (ls, m),
                                                  "finding": fid, "locale": loc})
    return out


def readable_items(canon):
    def tok(t):
        if t.startswith("t:") and t != "t:" and all(x.isdigit() for x in t[2:].split(",")):
            cs = [int(x) for x in t[2:].split(",")]
            return "".join(map(chr, cs)) if max(cs) >= 32 else "tests" + str(cs)
        return {"t:": "[]"}.get(t, t)
    return "|".join(";".join(" ".join(tok(t) for t in item.split(" ")) for item in part.split(";")) for part in canon.split("|")[:2])[:600]


# ---------------------------------------------------------------- parser sessions
class Session:
    """ONE TOMLParser object used for a sequence of parses, the ProjectConfig graphs it returned, and what was done with them.
    Records the history as the argument of the driver op `c13.session` together with the real results in the same
    canonical form, and judges every parse by the same call on a FRESH TOMLParser (same files, same env)."""

    def __init__(self, root, share_env):
        from compare_locales.paths import TOMLParser
        self.root = root
        self.parser = TOMLParser()
        self.worlds, self.wkey = [], {}
        self.univs, self.ukey = [], {}
        self.ops, self.results = [], []
        self.live, self.canon, self.born = [], [], []
        self.violations = []
        self.step = 0
        self.nparse = 0
        self.share_env = share_env
        self.env_obj, self.env_vals = None, None

    def world(self, loaded):
        from impl import tomlcfg as TCF
        toks = [str(len(loaded))]
        for p, d in loaded.items():
            toks.append(TCF.enc(p))
            toks += TCF.tv_tokens(d)
        k = " ".join(toks)
        if k not in self.wkey:
            self.wkey[k] = len(self.worlds)
            self.worlds.append(k)
        return self.wkey[k]

    def parse(self, top, penv, ignore, loaded, env_none):
        from compare_locales.paths import TOMLParser
        from impl import tomlcfg as TCF
        self.nparse += 1
        if env_none:
            envarg = None
        elif self.share_env and self.env_vals == penv:
            envarg = self.env_obj           # the caller's own dict, handed in again
        else:
            envarg = dict(penv)
            self.env_obj, self.env_vals = envarg, dict(penv)
        op = ["PARSE", "1" if ignore else "0"]
        if env_none:
            op.append("-")
        else:
            op.append(str(len(penv)))
            for k, v in penv.items():
                op += [enc(k), enc(v)]
        op += [str(self.world(loaded)), enc(top)]
        self.ops.append(" ".join(op))
        exc = None
        try:
            pc = self.parser.parse(top, env=envarg, ignore_missing_includes=ignore)
            canon = TCF.canon_pc(pc)
        except Exception as e:      # noqa: every exception is a result
            pc, exc, canon = None, e, TCF.canon_exc(e)
        self.results.append(canon)
        # the same call on a fresh object
        try:
            fresh = TCF.canon_pc(TOMLParser().parse(top, env=None if env_none else dict(penv), ignore_missing_includes=ignore))
        except Exception as e:      # noqa
            fresh = TCF.canon_exc(e)
        if fresh != canon:
            a, b = TCF.canon_readable(canon).replace(self.root, ""), TCF.canon_readable(fresh).replace(self.root, "")
            i = next((j for j in range(min(len(a), len(b))) if a[j] != b[j]), min(len(a), len(b)))
            lo = max(0, i - 160)
            self.violations.append({"what": "session step %d, parse #%d of %s with env %r on the RE-USED TOMLParser object differs from the same call on a "
                                    "fresh TOMLParser (same files, same env): re-used gives ...%s..., fresh gives ...%s..." % (
                                        self.step, self.nparse, top.replace(self.root, ""), None if env_none else strip_env(penv, self.root),
                                        a[lo:i + 200], b[lo:i + 200]), "finding": None, "step": self.step})
        if exc is not None:
            raise exc
        self.live.append(pc)
        self.canon.append(canon)
        self.born.append((self.step, self.nparse))
        return pc

    def index(self, pc):
        return next(i for i, x in enumerate(self.live) if x is pc)

    def deep(self, pc, ls):
        from impl import tomlcfg as TCF
        i = self.index(pc)
        pc.set_locales(list(ls), deep=True)
        self.ops.append(" ".join(["DEEP", str(i), str(len(ls))] + [enc(x) for x in ls]))
        self.canon[i] = TCF.canon_pc(pc)
        self.results.append(self.canon[i])

    def files(self, pcs, loc, mbase, universe, nfiles, canon):
        u = " ".join([str(len(universe))] + [enc(p) for p in universe] + [str(nfiles)])
        if u not in self.ukey:
            self.ukey[u] = len(self.univs)
            self.univs.append(u)
        self.ops.append(" ".join(["FILES", str(len(pcs))] + [str(self.index(pc)) for pc in pcs] +
                                 ["-" if loc is None else enc(loc), "-" if mbase is None else enc(mbase), str(self.ukey[u])]))
        self.results.append(canon)

    def stability(self):
        """every configuration the caller still holds is what it was when it was returned (or deliberately changed)"""
        from impl import tomlcfg as TCF
        out = []
        for i, pc in enumerate(self.live):
            now = TCF.canon_pc(pc)
            if now != self.canon[i]:
                a, b = TCF.canon_readable(self.canon[i]).replace(self.root, ""), TCF.canon_readable(now).replace(self.root, "")
                j = next((k for k in range(min(len(a), len(b))) if a[k] != b[k]), min(len(a), len(b)))
                lo = max(0, j - 160)
                out.append({"what": "the configuration returned by parse #%d (session step %d) changed while the caller held it: after step %d "
                            "(later parses / set_locales on OTHER results / ProjectFiles objects) it reads ...%s..., it was ...%s..." % (
                                self.born[i][1], self.born[i][0], self.step, b[lo:j + 200], a[lo:j + 200]), "finding": None, "step": self.step})
                self.canon[i] = now
        return out

    def line(self):
        from impl import tomlcfg as TCF
        toks = ["c13.session", enc(os.getcwd()), "TT", str(len(TESTS))] + [enc(t) for t in TESTS] + [enc(self.root)]
        toks += ["WORLDS", str(len(self.worlds))] + self.worlds
        toks += ["UNIVS", str(len(self.univs))] + self.univs
        toks += ["OPS", str(len(self.ops))] + self.ops
        impl = " ## ".join(self.results + ["END"] + [TCF.canon_pc(pc) for pc in self.live])
        return " ".join(toks), impl


def run_session(sess):
    """sess = {"steps": [spec, ...], "share_env": bool}: the steps are materialised one after the other in ONE directory (the
    files of step k replace those of step k-1) and parsed by ONE TOMLParser object; every step is judged like a stand-alone
    project (its by-construction meaning does not depend on the earlier steps)."""
    import logging
    logging.disable(logging.CRITICAL)
    os.makedirs(SCRATCH, exist_ok=True)
    root = os.path.realpath(tempfile.mkdtemp(prefix="sess-", dir=SCRATCH))
    try:
        rec = Session(root, bool(sess.get("share_env")))
        steps = []
        for k, spec in enumerate(sess["steps"]):
            rec.step = k
            materialise(spec, root)
            o = _run(spec, root, rec)
            for v in o["violations"]:
                v.setdefault("step", k)
                if not v["what"].startswith("session step"):
                    v["what"] = "session step %d: %s" % (k, v["what"])
            o["violations"] += rec.violations + rec.stability()
            rec.violations = []
            steps.append(o)
        line, impl = rec.line()
        return {"steps": steps, "sline": line, "simpl": impl, "root": root}
    finally:
        shutil.rmtree(root, ignore_errors=True)


def strip_env(env, root):
    return {k: v.replace(root, "") for k, v in env.items()}


def model_line(projects, loc, mbase, universe, nfiles, strip, REFERENCE_LOCALE):
    from compare_locales import mozpath
    matchers = []          # Matcher objects, index = mid
    strs, sidx = [], {}

    def S(p):
        p = strip(p)
        if p not in sidx:
            sidx[p] = len(strs)
            strs.append(p)
        return sidx[p]

    def mid(m):
        matchers.append(m)
        return len(matchers) - 1

    cfgids = {}
    rules = []             # (l10n mid, ref mid|None, merge mid)

    def locs(ls):
        if ls is None:
            return "-"
        return "L %d %s" % (len(ls), " ".join(enc(x) for x in ls)) if ls else "L 0"

    def conf(pc):
        cid = cfgids.setdefault(pc.path, len(cfgids))
        toks = ["C", str(cid), locs(pc.locales), str(len(pc.paths))]
        for paths in pc.paths:
            l10n = mid(paths["l10n"].with_env({"locale": loc or REFERENCE_LOCALE}))
            ref = mid(paths["reference"]) if "reference" in paths else None
            if mbase is not None and loc is not None:
                merge = mid(paths["l10n"].with_env({"locale": loc, "l10n_base": mbase}))
            else:
                merge = l10n
            rules.append((l10n, ref, merge))
            test = "-" if "test" not in paths else "t:" + ",".join(str(TESTS.index(t)) for t in paths["test"])
            toks += ["R", str(l10n), "-" if ref is None else str(ref), str(merge), test, locs(paths.get("locales"))]
        toks.append(str(len(pc.children)))
        for ch in pc.children:
            toks += conf(ch)
        toks.append(str(len(pc.excludes)))
        for ch in pc.excludes:
            toks += conf(ch)
        return toks

    ptoks = []
    for pc in projects:
        ptoks += conf(pc)
    U = [S(p) for p in universe]
    # matcher table
    M = []
    pats = []
    for m in matchers:
        cls = None
        for j, other in enumerate(pats):
            if m.pattern == other:
                cls = j
                break
        if cls is None:
            pats.append(m.pattern)
            cls = len(pats) - 1
        pre = m.prefix
        assert "//" not in pre and "/./" not in pre and "/../" not in pre, pre
        M.append((S(pre), S(mozpath.realpath(pre)), cls, 1 if m.pattern.prefix_length == len(m.pattern) else 0))
    T, X = [], []
    gid = {}
    # the l10n partners of reference paths are matched again (by the excludes): they belong to the match relation too
    extra = []
    for l10n, ref, merge in rules:
        if ref is not None:
            for p in universe:
                if matchers[ref].match(p) is not None:
                    lp = matchers[ref].sub(matchers[l10n], p)
                    if lp not in universe and lp not in extra:
                        extra.append(lp)
    universe = list(universe) + extra
    for i, m in enumerate(matchers):
        for p in universe:
            if m.match(p) is not None:
                gid[(i, p)] = len(gid)
                T.append((i, S(p), gid[(i, p)]))
    for l10n, ref, merge in rules:
        pairs = [(l10n, merge)]
        if ref is not None:
            pairs += [(l10n, ref), (ref, l10n), (ref, merge), (ref, ref)]
        for src, dst in pairs:
            for p in universe:
                g = gid.get((src, p))
                if g is not None:
                    X.append((dst, g, S(matchers[src].sub(matchers[dst], p))))
    X = sorted(set(X))
    toks = ["pf.run", "-" if loc is None else enc(loc), "1" if mbase is not None else "0", "P", str(len(projects))] + ptoks
    toks += ["S", str(len(strs))] + [enc(s) for s in strs]
    toks += ["U", str(len(U))] + [str(u) for u in U] + ["F", str(nfiles)]
    toks += ["M", str(len(M))] + ["%d %d %d %d" % e for e in M]
    toks += ["T", str(len(T))] + ["%d %d %d" % e for e in T]
    toks += ["X", str(len(X))] + ["%d %d %d" % e for e in X]
    return " ".join(toks)


# ---------------------------------------------------------------- the composed model: matchers as texts
def pattern_text(pattern):
    """source text of a parsed Pattern (inverse of PatternParser.parse; checked by `matcher_texts`)"""
    from compare_locales.paths import matcher as MM
    out = []
    for n in pattern:
        if isinstance(n, MM.AndroidLocale):
            out.append("{android_locale}")
        elif isinstance(n, MM.Variable):
            out.append("{%s}" % n.name)
        elif isinstance(n, MM.Starstar):
            out.append("**" + n.suffix)
        elif isinstance(n, MM.Star):
            out.append("*")
        else:
            out.append(str(n))
    return "".join(out)


def matcher_texts(m):
    """(root|None, pattern text, [(key, value text)]) of a real Matcher, or None if re-parsing the texts does not give the
    same Matcher back (then the case is not sent to the composed model)"""
    from compare_locales.paths.matcher import Matcher
    text = pattern_text(m.pattern)
    env = [(k, pattern_text(v)) for k, v in m.env.items()]
    again = Matcher(text, dict(env))
    if list(again.pattern) != list(m.pattern) or again.pattern.prefix_length != m.pattern.prefix_length:
        return None
    if list(again.env) != list(m.env) or any(list(again.env[k]) != list(m.env[k]) for k in m.env):
        return None
    return (m.pattern.root, text, env)


def model_line_m(projects, loc, mbase, universe, nfiles, strip, root, REFERENCE_LOCALE):
    """`pfm.run` line: same project structure and matcher numbering as `model_line`, but the matcher table carries the
    pattern text, environment, root and the `with_env` binding of every matcher; the temp root is cut off all texts
    exactly like it is cut off the results.  None if some matcher cannot be written as text."""
    specs = []             # (root, text, env, with_env|None), index = mid
    strs, sidx = [], {}

    def S(p):
        p = strip(p)
        if p not in sidx:
            sidx[p] = len(strs)
            strs.append(p)
        return sidx[p]

    def cut(t):
        return t.replace(root, "")

    class Unwritable(Exception):
        pass

    def mid(m, with_env):
        t = matcher_texts(m)
        if t is None:
            raise Unwritable()
        r, text, env = t
        specs.append((None if r is None else cut(r), cut(text), [(k, cut(v)) for k, v in env],
                      None if with_env is None else [(k, cut(v)) for k, v in with_env.items()]))
        return len(specs) - 1

    cfgids = {}

    def locs(ls):
        if ls is None:
            return "-"
        return "L %d %s" % (len(ls), " ".join(enc(x) for x in ls)) if ls else "L 0"

    def conf(pc):
        cid = cfgids.setdefault(pc.path, len(cfgids))
        toks = ["C", str(cid), locs(pc.locales), str(len(pc.paths))]
        for paths in pc.paths:
            l10n = mid(paths["l10n"], {"locale": loc or REFERENCE_LOCALE})
            ref = mid(paths["reference"], None) if "reference" in paths else None
            if mbase is not None and loc is not None:
                merge = mid(paths["l10n"], {"locale": loc, "l10n_base": mbase})
            else:
                merge = l10n
            test = "-" if "test" not in paths else "t:" + ",".join(str(TESTS.index(t)) for t in paths["test"])
            toks += ["R", str(l10n), "-" if ref is None else str(ref), str(merge), test, locs(paths.get("locales"))]
        toks.append(str(len(pc.children)))
        for ch in pc.children:
            toks += conf(ch)
        toks.append(str(len(pc.excludes)))
        for ch in pc.excludes:
            toks += conf(ch)
        return toks

    ptoks = []
    try:
        for pc in projects:
            ptoks += conf(pc)
    except Unwritable:
        return None
    U = [S(p) for p in universe]
    toks = ["pfm.run", "-" if loc is None else enc(loc), "1" if mbase is not None else "0", "P", str(len(projects))] + ptoks
    toks += ["S", str(len(strs))] + [enc(s) for s in strs]
    toks += ["U", str(len(U))] + [str(u) for u in U] + ["F", str(nfiles)]
    toks += ["M", str(len(specs))]
    for r, text, env, w in specs:
        toks += ["-" if r is None else enc(r), enc(text), str(len(env))]
        for k, v in env:
            toks += [enc(k), enc(v)]
        if w is None:
            toks.append("-")
        else:
            toks.append(str(len(w)))
            for k, v in w:
                toks += [enc(k), enc(v)]
    return " ".join(toks)


# ---------------------------------------------------------------- probes at the excluded points of the C13M theorems
# name -> (TOML of the single config, files, what the Lean negation witness says the code does there)
PROBES = {
    # outside the `sub` pattern class (C13M.sub_class_witness): the reference file maps to a path its own l10n pattern rejects
    "sub-class": ('basepath = "."\nlocales = ["de"]\n[[paths]]\n    reference = "r/**"\n    l10n = "l/*"\n',
                  ["/r/a/b.ftl", "/l/a/b.ftl"]),
    # a wildcard-free pattern with an unbound variable (C13M.literal_unbound_witness): it matches more than its prefix
    "literal-unbound": ('basepath = "."\nlocales = ["de"]\n[[paths]]\n    l10n = "l/x{v}"\n',
                        ["/l/x", "/l/xy"]),
}


def run_probe(name):
    """real ProjectFiles and the `pfm.run` line on a hand-written project at an excluded point of the C13M theorems"""
    from compare_locales.paths import TOMLParser, ProjectFiles
    from compare_locales.paths.files import REFERENCE_LOCALE
    from compare_locales import mozpath
    toml, files = PROBES[name]
    os.makedirs(SCRATCH, exist_ok=True)
    root = os.path.realpath(tempfile.mkdtemp(prefix="probe-", dir=SCRATCH))
    try:
        with open(os.path.join(root, "l10n.toml"), "w") as f:
            f.write(toml)
        for rel in files:
            os.makedirs(os.path.dirname(root + rel), exist_ok=True)
            with open(root + rel, "w") as f:
                f.write("k = v\n")
        strip = Strip(root)
        projects = [TOMLParser().parse(os.path.join(root, "l10n.toml"), env={})]
        fsfiles = []
        for d, dirs, fs in os.walk(root):
            for f in fs:
                fsfiles.append(mozpath.join(d, f))
        pf = ProjectFiles("de", projects)
        items = [[strip(a), strip(b), strip(c), sorted(t)] for a, b, c, t in pf]
        looks = {}
        for p in fsfiles:
            m = pf.match(p)
            looks[strip(p)] = None if m is None else [strip(m[0]), strip(m[1]), strip(m[2]), sorted(m[3])]
        canon = "ok|" + ";".join(fmt_item(i) for i in items) + "|" + ";".join(
            "None" if looks[strip(p)] is None else fmt_item(looks[strip(p)]) for p in fsfiles)
        line = model_line_m(projects, "de", None, fsfiles, len(fsfiles), strip, root, REFERENCE_LOCALE)
        return {"impl": canon, "mline": line, "paths": [i[0] for i in items], "looks": looks}
    finally:
        shutil.rmtree(root, ignore_errors=True)

"""Adapter for the project-level C19 streams (round 4): lint/util.py and lint/cli.py main on generated TOML projects.

A case is
  {"dir": name, "files": [{"path": rel, "text": str}], "toml": rel, "mode": "default"|"mirror"|"l10n_base",
   "refarg": rel | None, "W": bool, "cwd": rel, "queries": [rel], "main": bool}
All paths are relative to the case directory SCRATCH/run-<pid>/<dir>/.  The adapter
 * builds the ProjectFiles object exactly as `main` does and asks the chosen `get_reference_and_tests` callable of
   lint/util.py about every query path (op c19.refs: the real Matcher objects are serialised node by node);
 * runs the real `compare_locales.lint.cli.main()` (argv patched, stdout captured, cwd = case["cwd"]) and records the
   results and the answers of the callable through a recording subclass of L10nLinter (op c19.main)."""
import contextlib
import io
import os
import shutil
import sys
import warnings

warnings.filterwarnings("ignore")

from compare_locales import mozpath
from compare_locales import parser as P
from compare_locales import paths
from compare_locales.lint import cli, util
from compare_locales.lint.linter import L10nLinter
from compare_locales.paths import matcher as M

from impl.lint import Classes, canon, enc, model_file

SCRATCH = os.environ.get("VERIF_C19_SCRATCH", "/tmp/wt/c19")


# ------------------------------------------------------------------ serialisation of the real path objects
def ser_node(n):
    if isinstance(n, M.Literal):
        return ["L", enc(str(n))]
    if isinstance(n, M.AndroidLocale):
        return ["A", "1" if n.repeat else "0"]
    if isinstance(n, M.Variable):
        return ["V", "1" if n.repeat else "0", enc(n.name)]
    if isinstance(n, M.Starstar):
        return ["D", str(n.number), enc(n.suffix)]
    if isinstance(n, M.Star):
        return ["S", str(n.number)]
    raise ValueError("unknown pattern node %r" % (n,))


def ser_pattern(p):
    toks = ["-" if p.root is None else enc(p.root), str(p.prefix_length), str(len(p))]
    for n in p:
        toks += ser_node(n)
    return toks


def ser_matcher(m):
    if m.encoding is not None:
        raise ValueError("matcher with an encoding")
    toks = ["M"] + ser_pattern(m.pattern) + [str(len(m.env))]
    for k, v in m.env.items():
        toks += [enc(k)] + ser_pattern(v)
    return toks


def ser_tests(t):
    if t is None:
        return ["-"]
    t = sorted(t)
    return [str(len(t))] + [enc(x) for x in t]


def ser_files(files):
    toks = ["F", "-" if files.locale is None else enc(files.locale), str(len(files.matchers))]
    for m in files.matchers:
        toks += ser_matcher(m["l10n"])
        toks += ser_matcher(m["reference"]) if "reference" in m else ["-"]
        toks += ser_matcher(m["merge"]) if "merge" in m else ["-"]
        toks += ser_tests(m.get("test"))
    toks += ser_files(files.exclude) if files.exclude is not None else ["X"]
    return toks


def show_reftests(rt):
    ref, tests = rt
    return "%s %s" % ("None" if ref is None else enc(ref),
                      "None" if tests is None else "{" + ",".join(enc(x) for x in sorted(tests)) + "}")


# ------------------------------------------------------------------ the set-up of main, repeated
def build(case, base):
    """what `main` computes before it lints: ProjectFiles, the callable, the stored root of the reference project"""
    toml = os.path.join(base, case["toml"])
    refarg = case.get("refarg")
    mode = case["mode"]
    if mode == "l10n_base":
        l10n_base, locale = os.path.split(os.path.abspath(refarg))
    else:
        l10n_base, locale = ".", None
    pc = paths.TOMLParser().parse(toml, env={"l10n_base": l10n_base})
    if locale:
        pc.set_locales([locale], deep=True)
    files = paths.ProjectFiles(locale, [pc])
    root = ""
    if mode == "l10n_base":
        getter = util.l10n_base_reference_and_tests(files)
    elif mode == "mirror":
        getter = util.mirror_reference_and_tests(files, refarg)
        root = mozpath.abspath(refarg) + "/"
    else:
        getter = util.default_reference_and_tests
    return files, getter, root


def arg_of(case, base, rel):
    """a path argument as it is typed: relative to the working directory of the command"""
    return os.path.relpath(os.path.join(base, rel), os.path.join(base, case["cwd"]))


def impl_project(case):
    base = os.path.join(SCRATCH, "run-%d" % os.getpid(), case["dir"])
    shutil.rmtree(base, ignore_errors=True)
    old_cwd = os.getcwd()
    try:
        for f in case["files"]:
            p = os.path.join(base, f["path"])
            os.makedirs(os.path.dirname(p), exist_ok=True)
            with open(p, "w", encoding="utf-8", newline="") as fh:
                fh.write(f["text"])
        cwd = os.path.join(base, case["cwd"])
        os.makedirs(cwd, exist_ok=True)
        os.chdir(cwd)
        c = dict(case)
        if case.get("refarg") is not None:
            c["refarg"] = arg_of(case, base, case["refarg"])
        out = {}
        rel = lambda p: None if p is None else os.path.relpath(p, base)
        files, getter, root = build(c, base)
        ftoks = ser_files(files)
        # ---------------- lint/util.py on query paths
        qs = [os.path.join(base, q) for q in case.get("queries", [])]
        answers, plain = [], []
        for q in qs:
            try:
                rt = getter(q)
                answers.append(show_reftests(rt))
                plain.append([rel(rt[0]), None if rt[1] is None else sorted(rt[1])])
            except Exception as e:           # noqa: classified, compared with the model
                answers.append("raise " + type(e).__name__)
                plain.append(["raise", type(e).__name__])
        if qs:
            out["refs"] = {"line": "c19.refs %s %s %s %d %s" % (case["mode"], enc(root), " ".join(ftoks), len(qs), " ".join(enc(q) for q in qs)),
                           "canon": " | ".join(answers), "answers": plain}
        out["matchers"] = [{"reference": ("reference" in m), "tests": sorted(m.get("test") or [])} for m in files.matchers]
        # ---------------- lint/cli.py main
        if case.get("main"):
            out["main"] = run_main(case, c, base, files, ftoks, root, rel)
        return out
    finally:
        os.chdir(old_cwd)
        shutil.rmtree(base, ignore_errors=True)


def run_main(case, c, base, files, ftoks, root, rel):
    trace, captured = [], []

    class Recorder(L10nLinter):
        def lint(self, file_iter, get_reference_and_tests):
            def asked(path):
                r = get_reference_and_tests(path)
                trace.append((path, r))
                return r
            res = super().lint(file_iter, asked)
            captured.extend(res)
            return res

    argv = ["moz-l10n-lint"]
    if case["W"]:
        argv.append("-W")
    argv.append(arg_of(case, base, case["toml"]))
    if case["mode"] == "l10n_base":
        argv += ["--l10n-reference", c["refarg"]]
    elif case["mode"] == "mirror":
        argv += ["--reference-project", c["refarg"]]
    elif case.get("refarg_empty"):
        argv += ["--l10n-reference", ""]
    buf = io.StringIO()
    err = io.StringIO()
    old_argv, old_linter = sys.argv, cli.L10nLinter
    sys.argv = argv
    cli.L10nLinter = Recorder
    status = None
    rv = None
    try:
        with contextlib.redirect_stdout(buf), contextlib.redirect_stderr(err):
            try:
                rv = cli.main()
                status = "done"
            except SystemExit as e:
                status = "usage" if e.code == 2 else "exit %r" % (e.code,)
            except Exception as e:       # noqa: classified, compared with the model
                status = "raise " + type(e).__name__
    finally:
        sys.argv, cli.L10nLinter = old_argv, old_linter
    stdout = buf.getvalue()
    # ---------------- inputs of the model
    linted = [f for f, _, _, _ in files.iter_reference()]
    cls = Classes()
    fs = []
    for d, _dirs, fnames in sorted(os.walk(base)):
        for fn in sorted(fnames):
            p = mozpath.join(d, fn)
            if not P.hasParser(p):
                continue
            fp = P.getParser(p)
            fp.readFile(p)
            ents = list(fp.parse())
            toks = [enc(p), str(len(ents))]
            for r in ents:
                toks += [enc(r.key), str(cls.of(r))]
            fs.append(" ".join(toks))
    tests_of = {p: r[1] for p, r in trace}
    ltoks, descs = [], []
    for p in linted:
        if P.hasParser(p):
            t, d = model_file(p, None, extra_tests=tests_of.get(p), cls=cls)
            ltoks.append(t)
            descs.append(d)
        else:
            text = open(p, encoding="utf-8", newline="").read()
            ltoks.append("%s %s N 1 J %s 0 c 0 %d X t: 0" % (enc(p), enc(text), enc("_junk"), len(text)))
            descs.append(None)
    rels = [(p, mozpath.relpath(p, ".")) for p in linted]
    if case["mode"] == "l10n_base":
        split_locale = os.path.split(os.path.abspath(c["refarg"]))[1]
        isdir = os.path.isdir(c["refarg"])
        lr, rp = enc(c["refarg"]), "-"
    elif case["mode"] == "mirror":
        split_locale, isdir, lr, rp = "", False, "-", enc(c["refarg"])
    else:
        split_locale, isdir, lr, rp = "", False, ("t:" if case.get("refarg_empty") else "-"), "-"
    line = "c19.main %s %s %s %s %s %s %s %d %s %d %s %d %s" % (
        "1" if case["W"] else "0", lr, rp, enc(split_locale), "1" if isdir else "0", enc(root), " ".join(ftoks),
        len(fs), " ".join(fs), len(ltoks), " ".join(ltoks), len(rels), " ".join("%s %s" % (enc(a), enc(b)) for a, b in rels))
    if status == "done":
        cn = "done %d ;; %s ;; %s ;; %s" % (
            rv, " | ".join("%s %s" % (enc(p), show_reftests(r)) for p, r in trace),
            canon(captured)[len("ok | "):] if captured else "", enc(stdout))
    else:
        cn = status
    return {"line": line, "canon": cn, "status": status, "rv": rv, "stdout": stdout,
            "results": [{"lineno": r["lineno"], "column": r["column"], "level": r["level"], "message": r["message"],
                         "path": rel(r["path"])} for r in captured],
            "trace": [[rel(p), rel(r[0]), None if r[1] is None else sorted(r[1])] for p, r in trace],
            "linted": [rel(p) for p in linted], "rels": [b for _, b in rels], "files": descs}


# ------------------------------------------------------------------ the result side of main on prescribed results
def impl_cliout(w, results):
    """the real `main` on an empty project, with a stand-in linter that returns the prescribed result dicts:
    exit status and printed lines for every combination of levels, with and without -W, with and without positions.
    results: [{"level", "message", "path", "lineno"?, "column"?}]"""
    base = os.path.join(SCRATCH, "run-%d" % os.getpid(), "cliout")
    os.makedirs(base, exist_ok=True)
    toml = os.path.join(base, "l10n.toml")
    if not os.path.exists(toml):
        with open(toml, "w") as fh:
            fh.write('basepath = "."\n')

    results = [dict(r, path=(r["path"] if os.path.isabs(r["path"]) else os.path.join(base, r["path"]))) for r in results]

    class Fixed:
        def lint(self, file_iter, get_reference_and_tests):
            list(file_iter)
            return [dict(r) for r in results]

    buf = io.StringIO()
    old_argv, old_linter, old_cwd = sys.argv, cli.L10nLinter, os.getcwd()
    sys.argv = ["moz-l10n-lint"] + (["-W"] if w else []) + [toml]
    cli.L10nLinter = Fixed
    try:
        os.chdir(base)
        with contextlib.redirect_stdout(buf):
            rv = cli.main()
        rels = [mozpath.relpath(r["path"], ".") for r in results]
    finally:
        sys.argv, cli.L10nLinter = old_argv, old_linter
        os.chdir(old_cwd)
    toks = []
    for r, rl in zip(results, rels):
        toks += [enc(r["level"]), str(r["lineno"]) if "lineno" in r else "-", str(r["column"]) if "column" in r else "-",
                 enc(r["message"]), enc(rl)]
    return {"rv": rv, "stdout": buf.getvalue(), "canon": "%d %s" % (rv, enc(buf.getvalue())),
            "line": "c19.cliout %s %d %s" % ("1" if w else "0", len(results), " ".join(toks))}


# ------------------------------------------------------------------ checks.getChecker
def impl_getchecker(path):
    from compare_locales import checks
    from compare_locales.paths import File, REFERENCE_LOCALE
    c = checks.getChecker(File(path, path, locale=REFERENCE_LOCALE), extra_tests=None)
    return [type(c).__name__, bool(c.needs_reference)]


# ------------------------------------------------------------------ KeyedTuple with its fall-backs
class _Item:
    def __init__(self, key, ident):
        self.key = key
        self.ident = ident


def impl_keyed(items, query):
    """items: [[key, ident]]; query: ["K", k] | ["O", ident] | ["U"] | ["I", i]"""
    from compare_locales.keyedtuple import KeyedTuple
    objs = {}
    seq = []
    for k, i in items:
        o = objs.get(i)
        if o is None:
            o = objs[i] = _Item("k%d" % k, i)
        seq.append(o)
    kt = KeyedTuple(seq)
    if query[0] == "K":
        q = "k%d" % query[1]
    elif query[0] == "O":
        q = objs.get(query[1]) or _Item("other", query[1])
    elif query[0] == "U":
        q = ["k0"]
    else:
        q = query[1]
    c = "1" if (q in kt) else "0"
    try:
        g = str(kt[q].ident)
    except (TypeError, IndexError, KeyError) as e:
        g = "raise " + type(e).__name__
    return "%s %s" % (c, g)

"""Adapters around the real PropertiesChecker / plurals / difflib for C06.
Canonical forms are those of lean/CLModel/Ops/C06.lean.

`run_job` runs inside a watchdog-supervised worker: it evaluates the real checker on a slice of
generated pairs, the Lean driver on the same slice, and the independent oracles of props/c06.py."""
import hashlib
import warnings

warnings.filterwarnings("ignore")

from lib import common as C


# ------------------------------------------------------------------ real objects
def get_parser():
    from compare_locales import parser as P
    return type(P.getParser("foo.properties"))()


def parse_entity(comment, key, raw):
    """the entity `key` of a small .properties text, or None when the parser does not produce one"""
    from compare_locales.parser.base import Entity, Junk
    text = (comment + "\n" if comment is not None else "") + key + "=" + raw + "\n"
    p = get_parser()
    p.readUnicode(text)
    ents = [e for e in p.walk() if isinstance(e, Entity) and not isinstance(e, Junk)]
    if len(ents) != 1:
        return None
    return ents[0]


def get_checker(locale):
    from compare_locales.checks import getChecker
    from compare_locales.paths import File
    return getChecker(File("foo.properties", "foo.properties", locale=locale))


def canon_results(res):
    from compare_locales.checks.base import EntityPos
    out = ["ok"]
    for sev, pos, msg, cat in res:
        out.append("%s %s%d %s %s" % (sev, "e" if isinstance(pos, EntityPos) else "v", pos, cat, C.enc(msg)))
    return " | ".join(out)


def opt(tok):
    return "-" if tok is None else C.enc(tok)


def check_line(locale, ref, l10n):
    pc = ref.pre_comment
    return "pcheck %s %s %s %s %s %s %s" % (
        opt(locale), opt(pc.all if pc is not None else None), C.enc(ref.key), C.enc(ref.raw_val),
        C.enc(l10n.key), C.enc(l10n.all), C.enc(l10n.raw_val))


def impl_check(checker, ref, l10n):
    try:
        return canon_results(list(checker.check(ref, l10n)))
    except Exception as e:       # noqa: every failure is classified
        return "raise %s" % type(e).__name__


# ------------------------------------------------------------------ independent references (no regex, no Lean)
SPEC_CHARS = "duxXosScpfg"
DIG = "0123456789"


def scan_printf(val):
    """positional-argument model of a value: ('bad', why) or ('ok', [types])"""
    n = len(val)
    i = 0
    toks = []          # (number|None, type)
    while i < n:
        if val[i] != "%":
            i += 1
            continue
        if i + 1 < n and val[i + 1] == "%":
            i += 2
            continue

        def rest(j):
            # width? prec? spec
            if j < n and val[j] == "*":
                j += 1
            else:
                while j < n and val[j] in DIG:
                    j += 1
            if j < n and val[j] == ".":
                j += 1
                if j < n and val[j] == "*":
                    j += 1
                else:
                    while j < n and val[j] in DIG:
                        j += 1
            if j < n and val[j] in SPEC_CHARS:
                return j + 1, val[j]
            return None

        got = None
        j = i + 1
        if j < n and val[j] in "123456789":
            k = j
            while k < n and val[k] in DIG:
                k += 1
            if k < n and val[k] == "$":
                r = rest(k + 1)
                if r:
                    got = (r[0], int(val[j:k]), r[1])
        if got is None:
            r = rest(i + 1)
            if r:
                got = (r[0], None, r[1])
        if got is None:
            return ("bad", "lone")
        toks.append((got[1], got[2]))
        i = got[0]
    if not toks:
        return ("ok", [])
    ordered = [t[0] is not None for t in toks]
    if any(ordered) and not all(ordered):
        return ("bad", "mixed")
    if not ordered[0]:
        return ("ok", [t[1] for t in toks])
    m = max(t[0] for t in toks)
    args = [None] * m
    for num, ty in toks:
        args[num - 1] = ty      # the last token numbered i decides
    if any(a is None for a in args):
        return ("bad", "gap")
    return ("ok", args)


def expected_printf_class(refval, l10nval):
    """verdict class the property states, or None when the property says nothing (reference without arguments)"""
    r = scan_printf(refval)
    if r[0] != "ok" or not r[1]:
        return None
    l = scan_printf(l10nval)
    if l[0] == "bad":
        return "error"
    R, L = r[1], l[1]
    if L == R:
        return "nothing"
    if len(L) < len(R) and R[:len(L)] == L:
        return "warning"
    return "error"


def scan_vars(val):
    out = set()
    i, n = 0, len(val)
    while i < n:
        if val[i] == "#":
            j = i + 1
            while j < n and val[j] in DIG:
                j += 1
            if j > i + 1:
                out.add(int(val[i + 1:j]))
                i = j
                continue
        i += 1
    return out


_PINNED = None


def pinned_forms(locale):
    """number of plural forms of a locale tag according to the pinned table (harness/props/c06_plural_counts.json):
    the tag itself, else its language subtag; None = no known plural rule"""
    global _PINNED
    if _PINNED is None:
        import json
        import os
        _PINNED = json.load(open(os.path.join(C.HARNESS, "props", "c06_plural_counts.json")))
    if locale is None:
        return None
    if locale in _PINNED:
        return _PINNED[locale]
    return _PINNED.get(locale.split("-", 1)[0])


def expected_plural(refval, l10nval, nforms):
    """list of (severity, what) the property states for a plural string"""
    exp = []
    if nforms:
        found = l10nval.count(";") + 1
        if found != nforms:
            exp.append(("warning", "forms"))
    rv, lv = scan_vars(refval), scan_vars(l10nval)
    if rv:
        if rv - lv:
            exp.append(("warning", "unused"))
        elif lv - rv:
            exp.append(("error", "extra"))
    return exp


def is_numeric_value(val):
    """only decimal digits, optionally followed by one final newline"""
    import unicodedata
    v = val[:-1] if val.endswith("\n") else val
    return v != "" and all(unicodedata.category(c) == "Nd" for c in v)


def unescape_ref(raw):
    """independent unescaping of a raw .properties value"""
    out = []
    i, n = 0, len(raw)
    hexd = "0123456789abcdefABCDEF"
    while i < n:
        c = raw[i]
        if c != "\\" or i + 1 >= n:
            out.append(c)
            i += 1
            continue
        d = raw[i + 1]
        if d == "u" and i + 2 < n and raw[i + 2] in hexd:
            j = i + 2
            while j < n and j < i + 6 and raw[j] in hexd:
                j += 1
            out.append(chr(int(raw[i + 2:j], 16)))
            i = j
        elif d == "\n":
            j = i + 2
            while j < n and raw[j] in " \t":
                j += 1
            i = j
        else:
            out.append({"n": "\n", "r": "\r", "t": "\t", "\\": "\\"}.get(d, d))
            i += 2
    return "".join(out)


# ------------------------------------------------------------------ the job run in a worker
def h(s):
    return hashlib.blake2b(s.encode("utf-8", "surrogatepass"), digest_size=8).hexdigest()


def run_job(job):
    """job = {kind, refs:[[comment,key,raw]], l10ns:[[comment,key,raw]], pairs:[[ri,li,locale]] | None, lo, hi,
              locale, model}
    For pairs None the slice lo..hi of the product refs x l10ns is used (with job['locale'])."""
    from compare_locales import plurals
    kind = job["kind"]
    refs = [parse_entity(*r) for r in job["refs"]]
    l10ns = [parse_entity(*r) for r in job["l10ns"]]
    nl = len(l10ns)
    if job.get("pairs") is None:
        pairs = [(p // nl, p % nl, job.get("locale"), None) for p in range(job["lo"], job["hi"])]
    else:
        pairs = [tuple(p) if len(p) == 4 else tuple(p) + (None,) for p in job["pairs"]]
    pairs = [p for p in pairs if refs[p[0]] is not None and l10ns[p[1]] is not None]
    checkers = {}
    lines, impl = [], []
    for ri, li, loc, _ in pairs:
        ck = checkers.get(loc)
        if ck is None:
            ck = checkers[loc] = get_checker(loc)
        impl.append(impl_check(ck, refs[ri], l10ns[li]))
        lines.append(check_line(loc, refs[ri], l10ns[li]))
    model = C.run_driver(lines) if (job.get("model", True) and lines) else [None] * len(lines)
    out = {"n": len(pairs), "skipped": 0, "dis": [], "viol": [], "dist": {}, "nontrivial": set(), "samples": []}

    def count(k):
        out["dist"][k] = out["dist"].get(k, 0) + 1

    for (ri, li, loc, byc), canon, mo in zip(pairs, impl, model):
        ref, l10n = refs[ri], l10ns[li]
        inp = {"kind": kind, "ref": job["refs"][ri], "l10n": job["l10ns"][li], "locale": loc}
        bad = None
        if canon.startswith("raise"):
            bad = "check raised: " + canon
        res = [] if bad else [f.split(" ", 3) for f in canon.split(" | ")[1:]]
        if kind == "printf" and not bad:
            refval, lval = ref.val, l10n.val
            exp = expected_printf_class(refval, lval)
            if byc is not None and byc != exp:
                raise RuntimeError("harness: generator expectation %r and scanner %r differ on %r / %r" % (byc, exp, refval, lval))
            pf = [r for r in res if r[2] == "printf"]
            sevs = {r[0] for r in pf}
            got = "error" if "error" in sevs else ("warning" if "warning" in sevs else "nothing")
            if exp is not None:
                count("printf.expected." + exp)
                if exp != got:
                    bad = "printf verdict is %s, the argument model says %s (ref args %r, l10n args %r)" % (
                        got, exp, scan_printf(refval), scan_printf(lval))
                elif exp == "warning" and len(pf) != 1:
                    bad = "dropping trailing arguments must be a warning only, got %r" % (pf,)
                if exp != "nothing" or pf:
                    out["nontrivial"].add(h(canon))
            else:
                count("printf.no-claim")
                if pf:
                    # reference has no (well-formed) arguments: nothing printf-related may be reported
                    bad = "printf finding for a reference without printf arguments: %r" % (pf,)
        elif kind == "plural" and not bad:
            refval, lval = ref.val, l10n.val
            gate = (ref.pre_comment is not None and "Localization_and_Plurals" in ref.pre_comment.all
                    and ref.key != "pluralRule" and not is_numeric_value(refval))
            nforms = pinned_forms(loc)
            if gate:
                exp = expected_plural(refval, lval, nforms or 0)
                got = []
                for sev, pos, cat, msg in res:
                    if cat != "plural":
                        continue
                    m = C.dec(msg)
                    what = "forms" if m.startswith("expecting") else ("unused" if m.startswith("not all") else "extra")
                    got.append((sev, what))
                count("plural.%s" % ",".join(w for _, w in exp) if exp else "plural.silent")
                if got != exp:
                    bad = "plural verdict %r, the variable-set model says %r (ref vars %r, l10n vars %r, forms %r, found %d)" % (
                        got, exp, sorted(scan_vars(refval)), sorted(scan_vars(lval)), nforms,
                        lval.count(";") + 1)
                if any(r[2] == "printf" for r in res):
                    bad = "printf finding on a plural string"
                if exp:
                    out["nontrivial"].add(h(canon))
            else:
                count("plural.gate-closed")
                if any(r[2] == "plural" for r in res):
                    bad = "plural finding although the string is not documented as plural (or is pluralRule / numeric)"
        posbad = None if bad else pos_claim(res, l10n)
        if bad:
            if len(out["viol"]) < 5:
                out["viol"].append({"what": bad, "input": inp, "impl": canon})
            count("violations")
        elif posbad:
            # C06.printf_pos_in_value / printf_pos_points_at_pct: offsets are C17's subject, so a wrong offset is a
            # broken tie to the theorems (disagreement), not a violation of the C06 property text
            if len(out["dis"]) < 5:
                out["dis"].append({"op": "pos-claim", "input": inp, "impl": canon, "what": posbad})
            count("disagreements")
        elif mo is not None and mo != canon:
            if len(out["dis"]) < 5:
                out["dis"].append({"op": "pcheck", "input": inp, "impl": canon, "model": mo})
            count("disagreements")
        if len(out["samples"]) < 2 and len(res) >= 1 and len(canon) > 40:
            out["samples"].append({"input": inp, "result": canon})
    out["nontrivial"] = sorted(out["nontrivial"])
    return out


def pos_claim(res, l10n):
    """the position facts proved in Props/C06.lean (section 5), evaluated on the real result; None = they hold"""
    raw, val, al = l10n.raw_val, l10n.val, l10n.all
    for sev, pos, cat, msg in res:
        n = int(pos[1:])
        if pos[0] == "e":
            if not (n < len(al) and al[n] == "\ufffd"):
                return "EntityPos %d does not point at a U+FFFD of `all`" % n
            continue
        if n > len(raw):
            return "offset %d lies behind the raw value (%d characters)" % (n, len(raw))
        if cat == "printf" and not (n == 0 or (n < len(val) and val[n] == "%")):
            return "printf offset %d is neither 0 nor the offset of a %% of the value" % n
        if cat == "plural" and n != 0:
            return "plural offset %d is not 0" % n
        if cat == "escape" and not (n < len(raw) and raw[n] == "\\"):
            return "escape offset %d does not point at a backslash of the raw value" % n
    return None


def replay_case(inp):
    """re-run the real checker and the oracle on one stored input"""
    job = {"kind": inp["kind"], "refs": [inp["ref"]], "l10ns": [inp["l10n"]], "pairs": [[0, 0, inp.get("locale"), None]],
           "model": False}
    r = run_job(job)
    return {"input": inp, "violations": r["viol"]}


# ------------------------------------------------------------------ direct adapters
def impl_specs(val):
    from compare_locales.checks.properties import PropertiesChecker, PrintfException
    ck = PropertiesChecker(None)
    try:
        sp = ck.getPrintfSpecs(val)
    except PrintfException as e:
        return "err %d %s" % (e.pos, C.enc(e.msg))
    except Exception:
        return "raise"
    return "ok " + " ".join("None" if s is None else C.enc(s) for s in sp)


def impl_opcodes(a, b):
    from difflib import SequenceMatcher
    sm = SequenceMatcher()
    sm.set_seqs(a, b)
    return " ".join(["ok"] + ["%s,%d,%d,%d,%d" % op for op in sm.get_opcodes()])


def impl_plural(loc):
    from compare_locales import plurals
    try:
        r = plurals.get_plural(loc)
    except Exception:
        return "raise"
    if r is None:
        return "None"
    return " ".join(C.enc(c) for c in r)


def impl_unescape(raw):
    e = parse_entity(None, "k", raw)
    if e is None:
        return None
    return [e.raw_val, e.val]


# ------------------------------------------------------------------ round 4: grammar, lookup law, sessions
def tokn_parses(val, i):
    """all ways the token grammar of Proofs/C06Grammar.lean (`Tokn`) can read a token at the `%` val[i]:
    a set of (length, kind, number, type).  A literal, priority-free enumeration of the grammar
    `%%` | `%` [n `$`] [`*` | digits] [`.` [`*` | digits]] c   — no regular expression involved."""
    n = len(val)
    out = set()
    if i + 1 < n and val[i + 1] == "%":
        out.add((2, "pct", None, None))
    nopts = [(i + 1, None)]
    j = i + 1
    if j < n and val[j] in "123456789":
        k = j + 1
        while True:
            if k < n and val[k] == "$":
                nopts.append((k + 1, int(val[j:k])))
            if k < n and val[k] in DIG:
                k += 1
            else:
                break
    for a, num in nopts:
        wopts = [a]
        if a < n and val[a] == "*":
            wopts.append(a + 1)
        k = a
        while k < n and val[k] in DIG:
            k += 1
            wopts.append(k)
        for b in wopts:
            popts = [b]
            if b < n and val[b] == ".":
                popts.append(b + 1)
                if b + 1 < n and val[b + 1] == "*":
                    popts.append(b + 2)
                k = b + 1
                while k < n and val[k] in DIG:
                    k += 1
                    popts.append(k)
            for c in popts:
                if c < n and val[c] in SPEC_CHARS:
                    out.add((c + 1 - i, "arg", num, val[c]))
    return out


def grammar_tokens(val):
    """the tokenisation of `val` by the grammar `Lex`: canonical string of c06.toks, or raises if the grammar is
    ambiguous at some `%` (which `C06.lex_exists_unique` excludes)"""
    out = []
    i, n = 0, len(val)
    while i < n:
        if val[i] != "%":
            i += 1
            continue
        ps = tokn_parses(val, i)
        if len(ps) > 1:
            raise RuntimeError("harness: the token grammar is ambiguous at offset %d of %r: %r" % (i, val, sorted(ps, key=repr)))
        if not ps:
            out.append("%d:lone" % i)
            i += 1
            continue
        ln, kind, num, ty = next(iter(ps))
        if kind == "pct":
            out.append("%d:pct" % i)
        else:
            out.append("%d:arg:%s:%s" % (i, "-" if num is None else num, C.enc(ty)))
        i += ln
    return " ".join(["ok"] + out)


def impl_toks(val):
    """what the real `PropertiesChecker.printf.finditer(val)` finds, classified as getPrintfSpecs reads it"""
    from compare_locales.checks.properties import PropertiesChecker
    out = []
    try:
        for m in PropertiesChecker.printf.finditer(val):
            if m.group("good") is None:
                out.append("%d:lone" % m.start())
            elif m.group("good") == "%":
                out.append("%d:pct" % m.start())
            else:
                num = m.group("number")
                out.append("%d:arg:%s:%s" % (m.start(), "-" if num is None else int(num), C.enc(m.group("spec"))))
    except Exception:
        return "raise"
    return " ".join(["ok"] + out)


def impl_rule(loc):
    from compare_locales import plurals
    try:
        r = plurals.get_plural_rule(loc)
        p = plurals.get_plural(loc)
    except Exception:
        return "raise"
    if r is None and p is None:
        return "None None"
    if r is None or p is None:
        return "inconsistent"
    return "%d %d" % (r, len(p))


def rule_law(loc):
    """the prefix lookup law of C06.plural_rule_iff, read off the table itself: the entry whose key IS the tag; else
    the entry whose key has no `-` and is the tag's text before its first `-`"""
    from compare_locales import plurals
    tbl = plurals.CATEGORIES_BY_LOCALE
    if loc is None:
        return None
    own = [k for k in tbl if k == loc]
    if own:
        return tbl[own[0]]
    lang = [k for k in tbl if "-" not in k and (loc == k or loc.startswith(k + "-"))]
    if len(lang) > 1:
        raise RuntimeError("harness: two language keys apply to %r: %r" % (loc, lang))
    return tbl[lang[0]] if lang else None


class _ReProxy:
    """stands in for the `re` module inside checks/properties.py: records what the literal patterns of the real
    code match"""

    def __init__(self, real, log):
        self._real, self._log = real, log

    def __getattr__(self, name):
        return getattr(self._real, name)

    def finditer(self, pattern, string, *a, **k):
        ms = list(self._real.finditer(pattern, string, *a, **k))
        self._log.append((pattern, [m.group(1) for m in ms]))
        return iter(ms)


def impl_pvars(val):
    """the variables the REAL `check_plural(val, val)` reads from its two `re.finditer` calls"""
    import re
    from compare_locales.checks import properties as M
    log = []
    ck = M.PropertiesChecker(None, locale=None)
    real = M.re
    M.re = _ReProxy(real, log)
    try:
        list(ck.check_plural(val, val))
    except Exception:
        return "raise"
    finally:
        M.re = real
    if not log:
        return "raise"
    first = [int(g) for g in log[0][1]]
    if len(log) > 1 and [int(g) for g in log[1][1]] != first:
        return "differ"
    if len(log) == 1 and first:
        return "differ"
    return " ".join(["ok"] + [str(x) for x in first])


def scan_vars_list(val):
    """the `#n` variables in order (grammar `LexP`: longest digit run after a `#`)"""
    out = []
    i, n = 0, len(val)
    while i < n:
        if val[i] == "#":
            j = i + 1
            while j < n and val[j] in DIG:
                j += 1
            if j > i + 1:
                out.append(int(val[i + 1:j]))
                i = j
                continue
        i += 1
    return out


def impl_verdict(refspecs, l10nval):
    from compare_locales.checks.properties import PropertiesChecker
    ck = PropertiesChecker(None)
    try:
        return canon_results(list(ck.checkPrintf(list(refspecs), l10nval)))
    except Exception as e:      # noqa
        return "raise %s" % type(e).__name__


def get_checker_x(locale, extra):
    from compare_locales.checks import getChecker
    from compare_locales.paths import File
    return getChecker(File("foo.properties", "foo.properties", locale=locale), extra_tests=extra)


def run_history(job):
    """sequences of entity pairs through ONE checker instance (forward, backward, with set_reference and with the
    given extra_tests) and through fresh instances; job = {seqs: [{locale, extra, pairs: [[refTriple, l10nTriple]]}],
    model}.  Returns violations (history dependence, oracle) and the pcheck lines of every pair."""
    out = {"n": 0, "viol": [], "dis": [], "dist": {}, "nontrivial": set()}
    lines, firsts, metas = [], [], []
    for sq in job["seqs"]:
        ents = [(parse_entity(*r), parse_entity(*l)) for r, l in sq["pairs"]]
        if any(a is None or b is None for a, b in ents):
            continue
        loc, extra = sq["locale"], sq["extra"]
        shared = get_checker_x(loc, extra)
        A = [impl_check(shared, a, b) for a, b in ents]
        B = [impl_check(get_checker_x(loc, None), a, b) for a, b in ents]
        back = get_checker_x(loc, extra)
        Cr = [impl_check(back, a, b) for a, b in reversed(ents)][::-1]
        withref = get_checker_x(loc, extra)
        D = []
        for a, b in ents:
            withref.set_reference([x for x, _ in ents])
            D.append(impl_check(withref, a, b))
        A2 = [impl_check(shared, a, b) for a, b in ents]        # the same instance, a second pass
        out["n"] += len(ents)
        for i, (a, b) in enumerate(ents):
            inp = {"kind": "history", "locale": loc, "extra": extra, "pairs": sq["pairs"], "index": i}
            same = (A[i] == B[i] == Cr[i] == D[i] == A2[i])
            if not same:
                if len(out["viol"]) < 5:
                    out["viol"].append({"what": "the verdict for one pair depends on the checker's history / extra_tests: "
                                                "shared %r, fresh %r, reversed %r, with reference %r, second pass %r"
                                                % (A[i], B[i], Cr[i], D[i], A2[i]), "input": inp, "impl": A[i]})
                out["dist"]["violations"] = out["dist"].get("violations", 0) + 1
            lines.append(check_line(loc, a, b))
            firsts.append(A[i])
            metas.append(inp)
            if len(A[i]) > 2:
                out["nontrivial"].add(h(A[i]))
        out["dist"]["history.seqs"] = out["dist"].get("history.seqs", 0) + 1
    model = C.run_driver(lines) if (job.get("model", True) and lines) else [None] * len(lines)
    for mo, a, inp in zip(model, firsts, metas):
        if mo is not None and mo != a:
            if len(out["dis"]) < 5:
                out["dis"].append({"op": "pcheck-session", "input": inp, "impl": a, "model": mo})
            out["dist"]["disagreements"] = out["dist"].get("disagreements", 0) + 1
    out["nontrivial"] = sorted(out["nontrivial"])
    return out


def replay_history(inp):
    r = run_history({"seqs": [{"locale": inp.get("locale"), "extra": inp.get("extra"), "pairs": inp["pairs"]}], "model": False})
    return {"input": inp, "violations": r["viol"]}

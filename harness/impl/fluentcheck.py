"""Adapter around the real FluentParser + FluentChecker; wire serialisation of the fluent.syntax AST
and results in the canonical form of Ops/C08.lean (`ftl.check`)."""
import warnings

warnings.filterwarnings("ignore")

from fluent.syntax import ast as ftl

from compare_locales import parser as P
from compare_locales.checks import getChecker
from compare_locales.paths import File


def enc(s):
    return "t:" + ",".join(str(ord(c)) for c in s)


def opt(ident):
    return "-" if ident is None else enc(ident.name)


def ser_args(a):
    out = [str(len(a.positional))]
    for e in a.positional:
        out.append(ser_expr(e))
    out.append(str(len(a.named)))
    for n in a.named:
        out.append("%s %s %s" % (enc(n.name.name), "N" if isinstance(n.value, ftl.NumberLiteral) else "S", enc(n.value.value)))
    return " ".join(out)


def ser_expr(e):
    if isinstance(e, ftl.StringLiteral):
        return "S " + enc(e.value)
    if isinstance(e, ftl.NumberLiteral):
        return "N " + enc(e.value)
    if isinstance(e, ftl.MessageReference):
        return "M %d %s %s" % (e.span.start, enc(e.id.name), opt(e.attribute))
    if isinstance(e, ftl.TermReference):
        return "R %d %s %s %s" % (e.span.start, enc(e.id.name), opt(e.attribute),
                                  "0" if e.arguments is None else "1 " + ser_args(e.arguments))
    if isinstance(e, ftl.VariableReference):
        return "V " + enc(e.id.name)
    if isinstance(e, ftl.FunctionReference):
        return "F %s %s" % (enc(e.id.name), ser_args(e.arguments))
    if isinstance(e, ftl.SelectExpression):
        return "E %s %d %s" % (ser_expr(e.selector), len(e.variants), " ".join(ser_variant(v) for v in e.variants))
    if isinstance(e, ftl.Placeable):
        return "X " + ser_expr(e.expression)
    raise TypeError("unknown expression %s" % type(e).__name__)


def ser_variant(v):
    k = v.key
    if isinstance(k, ftl.Identifier):
        ks = "I %d %s" % (k.span.start, enc(k.name))
    elif isinstance(k, ftl.NumberLiteral):
        ks = "U %d %s" % (k.span.start, enc(k.value))
    else:
        raise TypeError("unknown variant key")
    return "%s %d %s" % (ks, 1 if v.default else 0, ser_pattern(v.value))


def ser_pattern(p):
    out = ["P %d %d" % (p.span.start, len(p.elements))]
    for el in p.elements:
        if isinstance(el, ftl.TextElement):
            out.append("T " + enc(el.value))
        elif isinstance(el, ftl.Placeable):
            out.append("X " + ser_expr(el.expression))
        else:
            raise TypeError("unknown pattern element")
    return " ".join(out)


def ser_attrs(attrs):
    out = [str(len(attrs))]
    for a in attrs:
        out.append("%d %s %s" % (a.span.start, enc(a.id.name), ser_pattern(a.value)))
    return " ".join(out)


def ser_entry(e):
    if isinstance(e, ftl.Message):
        v = "0" if e.value is None else "1 " + ser_pattern(e.value)
        return "msg %d %s %s %s" % (e.span.start, enc(e.id.name), v, ser_attrs(e.attributes))
    if isinstance(e, ftl.Term):
        return "term %d %s %s %s" % (e.span.start, enc(e.id.name), ser_pattern(e.value), ser_attrs(e.attributes))
    raise TypeError("not a message or term")


def entity(src, key):
    p = type(P.getParser("foo.ftl"))()
    p.readUnicode(src)
    for e in p.walk(only_localizable=True):
        if getattr(e, "key", None) == key and hasattr(e, "entry"):
            return e
    return None


def missing_attr_prefix():
    from compare_locales.checks import fluent as cf
    return cf.MSGS["missing-attribute"].split("{")[0]


def canon_results(res, ref_entry):
    """canonical list; the run of `Missing attribute:` errors at position 0 comes out of a Python set
    iteration: it is put into the order of the reference's attributes"""
    res = list(res)
    pre = missing_attr_prefix()
    order = {}
    for a in ref_entry.attributes:
        order.setdefault(a.id.name, len(order))
    i = 0
    while i < len(res):
        j = i
        while j < len(res) and res[j][0] == "error" and res[j][1] == 0 and res[j][2].startswith(pre) and res[j][3] == "fluent":
            j += 1
        if j > i + 1:
            res[i:j] = sorted(res[i:j], key=lambda t: order.get(t[2][len(pre):], 1 << 30))
        i = max(j, i + 1)
    return res


def show(res):
    return " | ".join(["ok"] + ["%s %d %s %s" % (enc(s), int(p), enc(m), enc(c)) for s, p, m, c in res])


def run_case(ref_src, l10n_src, ref_key, l10n_key, locale, same=False):
    """-> {"skip": why} | {"line": driver op, "canon": canonical result or exception name, "res": [[sev,pos,msg,cat]...]}
    same=True: the lint flow, `checker.check(entity, entity)` with ONE object on both sides (sources must be equal)"""
    r = entity(ref_src, ref_key)
    l = r if (same and ref_src == l10n_src and ref_key == l10n_key) else entity(l10n_src, l10n_key)
    if r is None or l is None:
        return {"skip": "junk-ref" if r is None else "junk-l10n"}
    line = "ftl.check %s %s %s %s %s" % ("-" if locale is None else enc(locale), enc(l.key), enc(l.all),
                                         ser_entry(r.entry), ser_entry(l.entry))
    checker = getChecker(File("foo.ftl", "foo.ftl", locale=locale), extra_tests=None)
    try:
        res = [tuple(t) for t in checker.check(r, l)]
    except Exception as e:     # noqa
        import os
        import traceback
        tb = traceback.extract_tb(e.__traceback__)
        return {"line": line, "canon": type(e).__name__, "res": None, "exc": type(e).__name__, "msg": str(e)[:200],
                "where": ["%s:%s:%s" % (os.path.basename(f.filename), f.lineno, f.name) for f in tb[-3:]]}
    raw = [[s, int(p), m, c] for s, p, m, c in res]
    res = canon_results(res, r.entry)
    try:
        eq = bool(r.equals(l))
    except Exception as e:     # noqa
        eq = type(e).__name__
    return {"line": line, "canon": show(res), "res": [[s, int(p), m, c] for s, p, m, c in res], "raw": raw, "equals": eq,
            "eqline": "c08.equals %s %s" % (ser_entry(r.entry), ser_entry(l.entry))}


def css_case(text):
    from compare_locales.checks.base import CSSCheckMixin
    m, e = CSSCheckMixin().parse_css_spec(text)
    ms = "None" if m is None else "{" + ",".join("%s=%s" % (enc(k), enc(str(v))) for k, v in m.items()) + "}"
    es = "None" if e is None else "[" + ",".join(
        ("bad%d" if x["code"] == "css-bad-content" else "semi%d") % x["pos"] for x in e) + "]"
    return ms + " " + es


def plural_case(locale):
    from compare_locales import plurals
    try:
        r = plurals.get_plural(locale)
    except IndexError:
        return "IndexError"
    return "None" if r is None else " ".join(enc(c) for c in r)


# ------------------------------------------------------------------------------------------ round 4
def _exc_name(fn):
    try:
        return fn(), None
    except Exception as e:     # noqa
        return None, type(e).__name__


def show_msgs(msgs):
    """`visitor.messages` (category, position, text) before FluentChecker.check sorts them"""
    return " | ".join(["ok"] + ["%s %d %s" % (enc(s), int(p), enc(m)) for s, p, m in msgs])


def canon_msgs(msgs, ref_entry):
    """the run of `Missing attribute:` errors comes out of a Python set iteration: reference attribute order"""
    four = canon_results([(s, p, m, "fluent") for s, p, m in msgs], ref_entry)
    return [(s, p, m) for s, p, m, _ in four]


def raw_case(ref_src, l10n_src, ref_key, l10n_key, locale, which):
    """the two public methods below `check`, called directly with ANY entry (also of the wrong type):
    which = "message": FluentChecker.check_message(ref.entry, l10n.entry); "term": FluentChecker.check_term(l10n.entry).
    -> {"line", "canon"}; a raise is reported by the exception's class name"""
    r = entity(ref_src, ref_key)
    l = entity(l10n_src, l10n_key)
    if r is None or l is None:
        return {"skip": "junk"}
    checker = getChecker(File("foo.ftl", "foo.ftl", locale=locale), extra_tests=None)
    loc = "-" if locale is None else enc(locale)
    if which == "message":
        line = "c08.rawmsg %s %s %s" % (loc, ser_entry(r.entry), ser_entry(l.entry))
        msgs, exc = _exc_name(lambda: checker.check_message(r.entry, l.entry))
    else:
        line = "c08.rawterm %s %s" % (loc, ser_entry(l.entry))
        msgs, exc = _exc_name(lambda: checker.check_term(l.entry))
    if exc:
        return {"line": line, "canon": exc, "exc": exc}
    return {"line": line, "canon": show_msgs(canon_msgs(msgs, r.entry)), "n": len(msgs)}


def seq_case(cases, locale, setrefs):
    """SEQUENCES through ONE FluentChecker (as ContentComparer.compare / the linter use it) and through fresh ones.
    cases: [[ref_src, l10n_src, ref_key, l10n_key, same]]; setrefs: {str(index): [keys]} = `checker.set_reference(keys)`
    called before that case (Checker.set_reference is part of the instance's API; compare calls it only for
    needs_reference checkers).  -> {"line": driver op, "one": [canon...], "fresh": [canon...], "res": [...]}"""
    f = File("foo.ftl", "foo.ftl", locale=locale)
    one = getChecker(f, extra_tests=None)
    toks = ["c08.seq", "-" if locale is None else enc(locale)]
    items, out_one, out_fresh, results = [], [], [], []
    state = []
    refs = {}          # one entity object per reference source, as a caller that holds its reference file has
    for i, (ref_src, l10n_src, ref_key, l10n_key, same) in enumerate(cases):
        if (ref_src, ref_key) not in refs:
            refs[(ref_src, ref_key)] = entity(ref_src, ref_key)
        r = refs[(ref_src, ref_key)]
        l = r if (same and ref_src == l10n_src and ref_key == l10n_key) else entity(l10n_src, l10n_key)
        if r is None or l is None:
            continue
        if str(i) in setrefs:
            one.set_reference(list(setrefs[str(i)]))
            items.append("setref %d %s" % (len(setrefs[str(i)]), " ".join(enc(k) for k in setrefs[str(i)])))
        items.append("case %s %s %s %s" % (enc(l.key), enc(l.all), ser_entry(r.entry), ser_entry(l.entry)))
        a, ea = _exc_name(lambda: [tuple(t) for t in one.check(r, l)])
        b, eb = _exc_name(lambda: [tuple(t) for t in getChecker(f, extra_tests=None).check(r, l)])
        out_one.append(ea or show(canon_results(a, r.entry)))
        out_fresh.append(eb or show(canon_results(b, r.entry)))
        results.append(None if ea else [[s, int(p), m, c] for s, p, m, c in a])
        state.append([one.locale, one.extra_tests, None if one.reference is None else list(one.reference)])
    toks.append(str(len(items)))
    final = "None" if one.reference is None else "[" + ",".join(enc(k) for k in one.reference) + "]"
    return {"line": " ".join(toks + items), "one": out_one, "fresh": out_fresh, "res": results,
            "canon": " || ".join(out_one + ["reference=" + final]), "locale_kept": all(s[0] == locale for s in state)}


def style_case(ref_value, l10n_value):
    """CSSCheckMixin.maybe_style(ref_value, l10n_value) (the entry point of the other checkers into the same
    parse_css_spec / check_style the Fluent visitor uses)"""
    from compare_locales.checks.base import CSSCheckMixin
    res, exc = _exc_name(lambda: [tuple(t) for t in CSSCheckMixin().maybe_style(ref_value, l10n_value)])
    if exc:
        return {"canon": exc, "exc": exc}
    return {"canon": show(res), "res": [[s, int(p), m, c] for s, p, m, c in res]}


def check_style_seq(ref_value, l10n_values):
    """check_style called several times with ONE ref_map object (what L10nMessageVisitor.visit_Attribute does when a
    message has several `style` attributes: `reference.css_styles` is popped from in place)"""
    from compare_locales.checks.base import CSSCheckMixin
    mx = CSSCheckMixin()
    ref_map, _ = mx.parse_css_spec(ref_value)
    if ref_map is None:
        ref_map = {}
    out = []
    for v in l10n_values:
        lm, errs = mx.parse_css_spec(v)
        res = [tuple(t) for t in mx.check_style(ref_map, lm, errs)]
        out.append(show(res))
    return {"canon": " || ".join(out), "left": "{" + ",".join("%s=%s" % (enc(k), enc(str(v))) for k, v in ref_map.items()) + "}"}


_SCRATCH = None


def _scratch():
    global _SCRATCH
    if _SCRATCH is None:
        import os
        import shutil
        _SCRATCH = os.path.join(os.environ.get("C08_SCRATCH", "/tmp/wt/c08/scratch"), "run-%d" % os.getpid())
        shutil.rmtree(_SCRATCH, ignore_errors=True)
        os.makedirs(os.path.join(_SCRATCH, "en"))
        os.makedirs(os.path.join(_SCRATCH, "l10n"))
    return _SCRATCH


def report_case(ref_text, l10n_text, locale):
    """the REPORT: ContentComparer.compare(ref.ftl, l10n.ftl) with an Observer, then the linter on the localized file
    -> {"details": [[category, text]...], "summary": {...}, "lint": [[level, line, col, message]...], "hashseed": str}"""
    import os
    import sys
    from compare_locales.compare.content import ContentComparer
    from compare_locales.compare.observer import Observer
    from compare_locales.lint.linter import L10nLinter
    d = _scratch()
    refp = os.path.join(d, "en", "a.ftl")
    l10np = os.path.join(d, "l10n", "a.ftl")
    for p_, t in ((refp, ref_text), (l10np, l10n_text)):
        with open(p_, "w", encoding="utf-8", newline="") as fh:
            fh.write(t)
    ref_file = File(refp, "a.ftl", locale="")
    l10n_file = File(l10np, "a.ftl", locale=locale)
    cc = ContentComparer()
    cc.observers.append(Observer())
    try:
        cc.compare(ref_file, l10n_file, None)
    except Exception as e:     # noqa
        return {"exc": type(e).__name__, "msg": str(e)[:200]}
    js = cc.observers.toJSON()
    det = js["details"]
    items = det.get("a.ftl", []) if isinstance(det, dict) else det
    details = []
    for it in items:
        for cat, data in it.items():
            details.append([cat, data if isinstance(data, str) else repr(data)])
    summary = {}
    for loc, sm in js["summary"].items():
        summary[str(loc)] = dict(sm)
    try:
        lint = [[r["level"], r["lineno"], r["column"], r["message"]] for r in L10nLinter().lint([l10np], lambda p: (refp, None))]
    except Exception as e:     # noqa
        lint = [["exception", 0, 0, type(e).__name__ + ": " + str(e)[:200]]]
    return {"details": details, "summary": summary, "lint": lint, "hashseed": os.environ.get("PYTHONHASHSEED", ""),
            "hashrandom": sys.flags.hash_randomization}

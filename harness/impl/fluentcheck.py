"""Adapter around the real FluentParser + FluentChecker; wire serialisation of the fluent.syntax AST
and results in the canonical form of Ops/C08.lean (`ftl.check`)."""
import warnings

warnings.filterwarnings("ignore")

from fluent.syntax import ast as ftl

from compare_locales import parser as P
from compare_locales.checks import getChecker
from compare_locales.paths import File


def enc(s):
    return "t:" + ",".join(str(ord(c)) for c in s)


def opt(ident):
    return "-" if ident is None else enc(ident.name)


def ser_args(a):
    out = [str(len(a.positional))]
    for e in a.positional:
        out.append(ser_expr(e))
    out.append(str(len(a.named)))
    for n in a.named:
        out.append("%s %s %s" % (enc(n.name.name), "N" if isinstance(n.value, ftl.NumberLiteral) else "S", enc(n.value.value)))
    return " ".join(out)


def ser_expr(e):
    if isinstance(e, ftl.StringLiteral):
        return "S " + enc(e.value)
    if isinstance(e, ftl.NumberLiteral):
        return "N " + enc(e.value)
    if isinstance(e, ftl.MessageReference):
        return "M %d %s %s" % (e.span.start, enc(e.id.name), opt(e.attribute))
    if isinstance(e, ftl.TermReference):
        return "R %d %s %s %s" % (e.span.start, enc(e.id.name), opt(e.attribute),
                                  "0" if e.arguments is None else "1 " + ser_args(e.arguments))
    if isinstance(e, ftl.VariableReference):
        return "V " + enc(e.id.name)
    if isinstance(e, ftl.FunctionReference):
        return "F %s %s" % (enc(e.id.name), ser_args(e.arguments))
    if isinstance(e, ftl.SelectExpression):
        return "E %s %d %s" % (ser_expr(e.selector), len(e.variants), " ".join(ser_variant(v) for v in e.variants))
    if isinstance(e, ftl.Placeable):
        return "X " + ser_expr(e.expression)
    raise TypeError("unknown expression %s" % type(e).__name__)


def ser_variant(v):
    k = v.key
    if isinstance(k, ftl.Identifier):
        ks = "I %d %s" % (k.span.start, enc(k.name))
    elif isinstance(k, ftl.NumberLiteral):
        ks = "U %d %s" % (k.span.start, enc(k.value))
    else:
        raise TypeError("unknown variant key")
    return "%s %d %s" % (ks, 1 if v.default else 0, ser_pattern(v.value))


def ser_pattern(p):
    out = ["P %d %d" % (p.span.start, len(p.elements))]
    for el in p.elements:
        if isinstance(el, ftl.TextElement):
            out.append("T " + enc(el.value))
        elif isinstance(el, ftl.Placeable):
            out.append("X " + ser_expr(el.expression))
        else:
            raise TypeError("unknown pattern element")
    return " ".join(out)


def ser_attrs(attrs):
    out = [str(len(attrs))]
    for a in attrs:
        out.append("%d %s %s" % (a.span.start, enc(a.id.name), ser_pattern(a.value)))
    return " ".join(out)


def ser_entry(e):
    if isinstance(e, ftl.Message):
        v = "0" if e.value is None else "1 " + ser_pattern(e.value)
        return "msg %d %s %s %s" % (e.span.start, enc(e.id.name), v, ser_attrs(e.attributes))
    if isinstance(e, ftl.Term):
        return "term %d %s %s %s" % (e.span.start, enc(e.id.name), ser_pattern(e.value), ser_attrs(e.attributes))
    raise TypeError("not a message or term")


def entity(src, key):
    p = type(P.getParser("foo.ftl"))()
    p.readUnicode(src)
    for e in p.walk(only_localizable=True):
        if getattr(e, "key", None) == key and hasattr(e, "entry"):
            return e
    return None


def missing_attr_prefix():
    from compare_locales.checks import fluent as cf
    return cf.MSGS["missing-attribute"].split("{")[0]


def canon_results(res, ref_entry):
    """canonical list; the run of `Missing attribute:` errors at position 0 comes out of a Python set
    iteration: it is put into the order of the reference's attributes"""
    res = list(res)
    pre = missing_attr_prefix()
    order = {}
    for a in ref_entry.attributes:
        order.setdefault(a.id.name, len(order))
    i = 0
    while i < len(res):
        j = i
        while j < len(res) and res[j][0] == "error" and res[j][1] == 0 and res[j][2].startswith(pre) and res[j][3] == "fluent":
            j += 1
        if j > i + 1:
            res[i:j] = sorted(res[i:j], key=lambda t: order.get(t[2][len(pre):], 1 << 30))
        i = max(j, i + 1)
    return res


def show(res):
    return " | ".join(["ok"] + ["%s %d %s %s" % (enc(s), int(p), enc(m), enc(c)) for s, p, m, c in res])


def run_case(ref_src, l10n_src, ref_key, l10n_key, locale):
    """-> {"skip": why} | {"line": driver op, "canon": canonical result or exception name, "res": [[sev,pos,msg,cat]...]}"""
    r = entity(ref_src, ref_key)
    l = entity(l10n_src, l10n_key)
    if r is None or l is None:
        return {"skip": "junk-ref" if r is None else "junk-l10n"}
    line = "ftl.check %s %s %s %s %s" % ("-" if locale is None else enc(locale), enc(l.key), enc(l.all),
                                         ser_entry(r.entry), ser_entry(l.entry))
    checker = getChecker(File("foo.ftl", "foo.ftl", locale=locale), extra_tests=None)
    try:
        res = [tuple(t) for t in checker.check(r, l)]
    except Exception as e:     # noqa
        import os
        import traceback
        tb = traceback.extract_tb(e.__traceback__)
        return {"line": line, "canon": type(e).__name__, "res": None, "exc": type(e).__name__, "msg": str(e)[:200],
                "where": ["%s:%s:%s" % (os.path.basename(f.filename), f.lineno, f.name) for f in tb[-3:]]}
    res = canon_results(res, r.entry)
    return {"line": line, "canon": show(res), "res": [[s, int(p), m, c] for s, p, m, c in res]}


def css_case(text):
    from compare_locales.checks.base import CSSCheckMixin
    m, e = CSSCheckMixin().parse_css_spec(text)
    ms = "None" if m is None else "{" + ",".join("%s=%s" % (enc(k), enc(str(v))) for k, v in m.items()) + "}"
    es = "None" if e is None else "[" + ",".join(
        ("bad%d" if x["code"] == "css-bad-content" else "semi%d") % x["pos"] for x in e) + "]"
    return ms + " " + es


def plural_case(locale):
    from compare_locales import plurals
    try:
        r = plurals.get_plural(locale)
    except IndexError:
        return "IndexError"
    return "None" if r is None else " ".join(enc(c) for c in r)

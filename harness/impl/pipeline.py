"""Adapter for the C05 pipeline correspondence: the real ContentComparer.compare (+ observers.toJSON(), the merge
file observed from outside) and L10nLinter.lint_file on a pair of byte strings, rendered in the canonical text of
the driver operations `c05.compare` / `c05.lint` (lean/CLModel/Ops/C05.lean).

The model starts from decoded text: the texts handed to the model are what `Parser.readFile` itself leaves in
`ctx.contents` (errors="replace", universal newlines), read off a fresh parser here."""
import codecs
import os
import shutil
import tempfile
import warnings

warnings.filterwarnings("ignore")

from compare_locales import parser
from compare_locales.compare import content as content_mod
from compare_locales.compare.content import ContentComparer
from compare_locales.compare.observer import Observer
from compare_locales.lint.linter import L10nLinter
from compare_locales.paths import File
from xml import sax as _sax

_real_make_parser = _sax.make_parser

FNAME = {"properties": "a.properties", "ini": "a.ini", "inc": "a.inc", "po": "a.po", "dtd": "a.dtd"}
STAT_KEYS = ["errors", "warnings", "missing", "missing_w", "report", "obsolete", "changed", "changed_w",
             "unchanged", "unchanged_w", "keys"]


def enc(s):
    return "t:" + ",".join(str(ord(c)) for c in s)


def exc_info(e):
    import traceback
    tb = traceback.extract_tb(e.__traceback__)
    return {"exc": type(e).__name__, "msg": str(e)[:200],
            "where": ["%s:%s:%s" % (os.path.basename(f.filename), f.lineno, f.name) for f in tb[-3:]]}


class _Shutil:
    """stands in for the `shutil` module inside compare/content.py: records copyfile calls"""

    def __init__(self, log):
        self._log = log

    def copyfile(self, src, dst, *a, **k):
        self._log.append(("copy", src, dst))
        return shutil.copyfile(src, dst, *a, **k)

    def __getattr__(self, name):
        return getattr(shutil, name)


class _Codecs:
    """stands in for the `codecs` module inside compare/content.py: records open calls"""

    def __init__(self, log):
        self._log = log

    def open(self, path, mode="r", *a, **k):
        self._log.append(("open", path, mode))
        return codecs.open(path, mode, *a, **k)

    def __getattr__(self, name):
        return getattr(codecs, name)


def show_data(v):
    if v is None:
        return "N"
    if isinstance(v, str):
        return "s" + enc(v)
    if isinstance(v, (tuple, list)):
        return "T" + "/".join("N" if x is None else enc(x) for x in v)
    return "?" + repr(v)


def leaves(d, prefix, out):
    if isinstance(d, list):
        out.append((prefix, d))
    elif isinstance(d, dict):
        for k, v in d.items():
            leaves(v, prefix + [k], out)
    return out


def show_report(rep, outcome):
    summ = ";".join(("N" if loc is None else enc(loc)) + ":" + ",".join(str(d[k]) for k in STAT_KEYS)
                    for loc, d in rep["summary"].items())
    det = []
    for path, items in leaves(rep["details"], [], []):
        its = []
        for it in items:
            (cat, val), = it.items()
            if cat in ("missingFile", "obsoleteFile"):
                its.append("%s=r%s" % (cat, val))
            else:
                its.append("%s=%s" % (cat, show_data(val)))
        det.append("/".join(enc(p) for p in path) + ":" + "|".join(its))
    return "ok summary[%s] details[%s] merge=%s" % (summ, ";".join(det), outcome)


def merge_outcome(log, mergep, refp, l10p, l10n_bytes):
    if mergep is None or not os.path.exists(mergep):
        return "nothing"
    with open(mergep, "rb") as f:
        data = f.read()
    copies = [e for e in log if e[0] == "copy" and e[2] == mergep]
    opens = [e for e in log if e[0] == "open" and e[1] == mergep]
    if copies:
        if copies[-1][1] == refp:
            return "copy-ref"
        if not opens:
            return "copy-l10n"
        if data[:len(l10n_bytes)] != l10n_bytes:
            return "copy-l10n+ ?prefix-changed"
        return "copy-l10n+ " + enc(data[len(l10n_bytes):].decode("utf-8"))
    return "written " + enc(data.decode("utf-8"))


class _RecParser:
    """stands in for the reader `xml.sax.make_parser()` returns: records every document handed to `parse()` together
    with expat's verdict on it (what the model takes as the parameter `Ext.xml`)"""

    def __init__(self, real, log):
        self.__dict__["_real"] = real
        self.__dict__["_log"] = log

    def parse(self, src):
        doc = src.getvalue()
        try:
            r = self._real.parse(src)
        except _sax.SAXParseException as e:
            self._log.append((doc, (e.getLineNumber(), e.getColumnNumber(), " ".join(e.args))))
            raise
        self._log.append((doc, None))
        return r

    def __getattr__(self, n):
        return getattr(self._real, n)

    def __setattr__(self, n, v):
        setattr(self._real, n, v)


def ext_tokens(xml_log, entities):
    """the external functions as tables, in the wire form of Ops/C05.lean `parseExt`"""
    seen, xs = set(), []
    for doc, err in xml_log:
        if doc in seen:
            continue
        seen.add(doc)
        d = "t:" + ",".join(str(b) for b in doc)
        if err is None:
            xs.append("%s - 0 t: t:" % d)
        else:
            xs.append("%s %d %d %s t:" % (d, err[0], err[1], enc(err[2])))
    us, useen = [], set()
    for e in entities:
        if isinstance(e, parser.Junk):
            continue
        raw = e.raw_val
        if raw is None or "&" not in raw or raw in useen:
            continue
        useen.add(raw)
        us.append("%s %s" % (enc(raw), enc(e.val)))
    return " ".join(["X", str(len(xs))] + xs + ["U", str(len(us))] + us)


def reset_junk(n=0):
    """the state of a fresh process: `Junk.junkid = n`, and `XMLJunk` without a counter of its own (the first
    `self.__class__.junkid += 1` of an XMLJunk creates one from the inherited value)"""
    from compare_locales.parser.android import XMLJunk
    parser.Junk.junkid = n
    if "junkid" in XMLJunk.__dict__:
        del XMLJunk.junkid


def read_text(fname, path):
    p = type(parser.getParser(fname))()
    p.readFile(path)
    return p.ctx.contents


def impl_pipeline(fmt, ref_latin, l10n_latin, with_merge):
    fname = FNAME[fmt]
    base = os.environ.get("VERIF_TMP") or tempfile.gettempdir()
    root = tempfile.mkdtemp(prefix="clv5p-", dir=base)
    res = {}
    saved = (content_mod.shutil, content_mod.codecs)
    try:
        os.makedirs(os.path.join(root, "ref"))
        os.makedirs(os.path.join(root, "l10n"))
        refp = os.path.join(root, "ref", fname)
        l10p = os.path.join(root, "l10n", fname)
        refb, l10b = ref_latin.encode("latin-1"), l10n_latin.encode("latin-1")
        with open(refp, "wb") as f:
            f.write(refb)
        with open(l10p, "wb") as f:
            f.write(l10b)
        res["ref_text"] = read_text(fname, refp)
        res["l10n_text"] = read_text(fname, l10p)
        mergep = os.path.join(root, "merge", fname) if with_merge else None
        log = []
        xml_log = []
        if fmt == "dtd":
            _sax.make_parser = lambda *a, **k: _RecParser(_real_make_parser(*a, **k), xml_log)
        content_mod.shutil, content_mod.codecs = _Shutil(log), _Codecs(log)
        reset_junk(0)
        cc = ContentComparer()
        cc.observers.append(Observer())
        try:
            cc.compare(File(refp, fname, locale=None), File(l10p, fname, locale="de"), mergep)
            res["compare"] = show_report(cc.observers.toJSON(), merge_outcome(log, mergep, refp, l10p, l10b))
        except Exception as e:
            res["compare"] = "raise " + type(e).__name__
            res["compare_exc"] = exc_info(e)
            from impl.robust import entity_junk_clash
            res["compare_exc"]["entity_junk_clash"] = entity_junk_clash(fname, refp, l10p, 0)
        finally:
            content_mod.shutil, content_mod.codecs = saved
        for tag, rp in (("lint", refp), ("lint_noref", None)):
            reset_junk(0)
            try:
                results = list(L10nLinter().lint_file(l10p, rp, None))
                res[tag] = "ok " + "|".join("%d,%d,%s,%s" % (r["lineno"], r["column"], enc(r["level"]), enc(r["message"]))
                                            for r in results)
            except Exception as e:
                res[tag] = "raise " + type(e).__name__
                res[tag + "_exc"] = exc_info(e)
        if fmt == "dtd":
            _sax.make_parser = _real_make_parser
            ents = []
            for pth in (refp, l10p):
                pp = type(parser.getParser(fname))()
                pp.readFile(pth)
                ents.extend(pp.walk(only_localizable=True))
            res["ext"] = ext_tokens(xml_log, ents)
    finally:
        _sax.make_parser = _real_make_parser
        content_mod.shutil, content_mod.codecs = saved
        shutil.rmtree(root, ignore_errors=True)
    return res


def impl_decode(data_latin, which):
    """`ctx.contents` after the real `Parser.readFile` of a file with these bytes (all parser classes share it)"""
    names = ["a.properties", "a.dtd", "a.ini", "a.inc", "a.po", "a.ftl", "strings.xml"]
    fname = names[which % len(names)]
    base = os.environ.get("VERIF_TMP") or tempfile.gettempdir()
    root = tempfile.mkdtemp(prefix="clv5d-", dir=base)
    try:
        path = os.path.join(root, fname)
        with open(path, "wb") as f:
            f.write(data_latin.encode("latin-1"))
        p = type(parser.getParser(fname))()
        p.readFile(File(path, fname, locale=None) if which % 2 else path)
        return enc(p.ctx.contents)
    finally:
        shutil.rmtree(root, ignore_errors=True)


# ---------------------------------------------------------------- Fluent / Android: the pipeline from the external parser's output on

def _run_real(fname, refp, l10p, l10b, with_merge, root, res):
    """the real compare (+ toJSON, merge file) and lint (with / without reference) on two files, fresh junk counter"""
    mergep = os.path.join(root, "merge", fname) if with_merge else None
    log = []
    saved = (content_mod.shutil, content_mod.codecs)
    content_mod.shutil, content_mod.codecs = _Shutil(log), _Codecs(log)
    reset_junk(0)
    cc = ContentComparer()
    cc.observers.append(Observer())
    try:
        cc.compare(File(refp, fname, locale=None), File(l10p, fname, locale="de"), mergep)
        res["compare"] = show_report(cc.observers.toJSON(), merge_outcome(log, mergep, refp, l10p, l10b))
    except Exception as e:
        res["compare"] = "raise " + type(e).__name__
        res["compare_exc"] = exc_info(e)
        from impl.robust import entity_junk_clash
        res["compare_exc"]["entity_junk_clash"] = entity_junk_clash(fname, refp, l10p, 0)
    finally:
        content_mod.shutil, content_mod.codecs = saved
    for tag, rp in (("lint", refp), ("lint_noref", None)):
        reset_junk(0)
        try:
            results = list(L10nLinter().lint_file(l10p, rp, None))
            res[tag] = "ok " + "|".join("%d,%d,%s,%s" % (r["lineno"], r["column"], enc(r["level"]), enc(r["message"]))
                                        for r in results)
        except Exception as e:
            res[tag] = "raise " + type(e).__name__
            res[tag + "_exc"] = exc_info(e)


def _two_files(fname, ref_latin, l10n_latin):
    base = os.environ.get("VERIF_TMP") or tempfile.gettempdir()
    root = tempfile.mkdtemp(prefix="clv5q-", dir=base)
    os.makedirs(os.path.join(root, "ref"))
    os.makedirs(os.path.join(root, "l10n"))
    refp = os.path.join(root, "ref", fname)
    l10p = os.path.join(root, "l10n", fname)
    refb, l10b = ref_latin.encode("latin-1"), l10n_latin.encode("latin-1")
    with open(refp, "wb") as f:
        f.write(refb)
    with open(l10p, "wb") as f:
        f.write(l10b)
    return root, refp, l10p, l10b


class _EqClasses:
    """classes of Fluent entities under the real `FluentEntity.equals` (only entities of one key are ever compared)"""

    def __init__(self):
        self.reps = {}
        self.n = 0

    def of(self, x):
        reps = self.reps.setdefault(x.key, [])
        for r, i in reps:
            if type(x) is type(r) and x.equals(r):
                return i
        self.n += 1
        reps.append((x, self.n))
        return self.n


def ftl_body_tokens(path, classes):
    """`resource.body` of the external parser for the file as the model's input: kinds, spans, and per Message / Term the
    AST (wire form of Ops/C08), `count_words()` and the class under `equals` — the last two from the real entity objects"""
    from fluent.syntax import ast as ftl
    from impl.fluentcheck import ser_entry
    p = type(parser.getParser("a.ftl"))()
    p.readFile(path)
    text = p.ctx.contents
    try:
        ents = {e.span[0]: e for e in p.walk(only_localizable=True) if hasattr(e, "entry")}
        body = p.ftl_parser.parse(text).body
    except Exception as e:       # the external parser raised (RecursionError on deep nesting): that outcome is the model's input
        return text, "! %s %s" % (enc(type(e).__name__), enc(str(e)))
    toks = [str(len(body))]
    for entry in body:
        s, e = entry.span.start, entry.span.end
        ks = ke = vs = ve = -1
        if isinstance(entry, ftl.Term):
            k, ks, ke = "T", entry.id.span.start - 1, entry.id.span.end
        elif isinstance(entry, ftl.Message):
            k, ks, ke = "M", entry.id.span.start, entry.id.span.end
        elif isinstance(entry, ftl.Junk):
            k = "J"
        elif isinstance(entry, ftl.BaseComment):
            k = "C"
        else:
            k = "O"
        if k in "MT" and entry.value is not None:
            vs, ve = entry.value.span.start, entry.value.span.end
        toks.append("%s %d %d %d %d %d %d" % (k, s, e, ks, ke, vs, ve))
        if k in "MT":
            ent = ents[s]
            toks.append("A %d %d %s" % (ent.count_words(), classes.of(ent), ser_entry(entry)))
        else:
            toks.append("-")
    return text, " ".join(toks)


def impl_pipeline_ftl(ref_latin, l10n_latin, with_merge):
    fname = "a.ftl"
    root, refp, l10p, l10b = _two_files(fname, ref_latin, l10n_latin)
    res = {}
    try:
        _run_real(fname, refp, l10p, l10b, with_merge, root, res)
        classes = _EqClasses()
        res["ref_text"], res["ref_body"] = ftl_body_tokens(refp, classes)
        res["l10n_text"], res["l10n_body"] = ftl_body_tokens(l10p, classes)
    finally:
        shutil.rmtree(root, ignore_errors=True)
    return res


def android_item_tokens(path):
    """the objects `AndroidParser.walk(only_localizable=True)` yields for the file, as the model's input"""
    from impl.android import node_tokens
    from compare_locales.parser.android import XMLJunk
    p = type(parser.getParser("strings.xml"))()
    p.readFile(path)
    text = p.ctx.contents
    items = list(p.walk(only_localizable=True))
    toks = [str(len(items))]
    for e in items:
        if isinstance(e, XMLJunk):
            toks.append("J " + enc(e.all))
        else:
            nt, _pre = node_tokens(e)
            toks.append("E %s %s" % (enc(e.key), " ".join(nt)))
    return text, " ".join(toks)


def impl_pipeline_android(ref_latin, l10n_latin, with_merge):
    fname = "strings.xml"
    root, refp, l10p, l10b = _two_files(fname, ref_latin, l10n_latin)
    res = {}
    try:
        _run_real(fname, refp, l10p, l10b, with_merge, root, res)
        res["ref_text"], res["ref_items"] = android_item_tokens(refp)
        res["l10n_text"], res["l10n_items"] = android_item_tokens(l10p)
    finally:
        shutil.rmtree(root, ignore_errors=True)
    return res


def impl_rx_time(pattern, flags, text, mode):
    """the real `re` on a text the step-counting model engine found super-quadratic: just run it (under the pool's watchdog)"""
    import re
    import time
    rx = re.compile(pattern, flags)
    t = time.time()
    if mode == "search":
        rx.search(text)
    else:
        rx.match(text)
    return {"seconds": time.time() - t}


# ---------------------------------------------------------------- ContentComparer.add / remove, compare with a filtering observer

def make_filter(k):
    """the filter family `Pipe.testFilter k` of the model"""
    R = ["error", "warning", "ignore"]

    def flt(file, entity=None):
        if entity is None:
            return R[k % 3]
        if isinstance(entity, str):
            return R[(len(entity) + k) % 3]
        return R[((len(entity[0]) if entity and entity[0] is not None else 0) + k) % 3]
    return flt


def impl_files(fmt, ref_latin, l10n_latin, with_merge, k):
    """`cc.compare` with `Observer(filter=…)`, `cc.add`, `cc.remove` on the two files; k = None: unfiltered Observer"""
    fname = FNAME[fmt]
    root, refp, l10p, l10b = _two_files(fname, ref_latin, l10n_latin)
    res = {}
    saved = (content_mod.shutil, content_mod.codecs)
    try:
        res["ref_text"] = read_text(fname, refp)
        res["l10n_text"] = read_text(fname, l10p)
        xml_log = []
        if fmt == "dtd":
            _sax.make_parser = lambda *a, **kw: _RecParser(_real_make_parser(*a, **kw), xml_log)
        for op in ("comparef", "addfile", "removefile"):
            mergep = os.path.join(root, "merge-" + op, fname) if with_merge else None
            log = []
            content_mod.shutil, content_mod.codecs = _Shutil(log), _Codecs(log)
            reset_junk(0)
            cc = ContentComparer()
            cc.observers.append(Observer() if k is None else Observer(filter=make_filter(k)))
            reff, l10f = File(refp, fname, locale=None), File(l10p, fname, locale="de")
            try:
                if op == "comparef":
                    cc.compare(reff, l10f, mergep)
                elif op == "addfile":
                    cc.add(reff, l10f, mergep)
                else:
                    cc.remove(reff, l10f, mergep)
                res[op] = show_report(cc.observers.toJSON(), merge_outcome(log, mergep, refp, l10p, l10b))
            except Exception as e:
                res[op] = "raise " + type(e).__name__
                res[op + "_exc"] = exc_info(e)
                if op == "comparef":
                    from impl.robust import entity_junk_clash
                    res[op + "_exc"]["entity_junk_clash"] = entity_junk_clash(fname, refp, l10p, 0)
            finally:
                content_mod.shutil, content_mod.codecs = saved
        if fmt == "dtd":
            _sax.make_parser = _real_make_parser
            ents = []
            for pth in (refp, l10p):
                pp = type(parser.getParser(fname))()
                pp.readFile(pth)
                ents.extend(pp.walk(only_localizable=True))
            res["ext"] = ext_tokens(xml_log, ents)
    finally:
        _sax.make_parser = _real_make_parser
        content_mod.shutil, content_mod.codecs = saved
        shutil.rmtree(root, ignore_errors=True)
    return res


def impl_files_odd(kind, ref_latin, with_merge):
    """compare / add / remove where no parser exists for the file name, or a file cannot be read: execution only
    (the report texts are OS messages); returns per operation "ok <n details>" or the exception"""
    fname = "a.txt" if kind == "noparser" else "a.properties"
    root, refp, l10p, l10b = _two_files(fname, ref_latin, ref_latin)
    res = {}
    try:
        if kind == "l10n-unreadable":
            os.remove(l10p)
            os.makedirs(l10p)               # open() raises IsADirectoryError
        elif kind == "ref-unreadable":
            os.remove(refp)
            os.makedirs(refp)
        for op in ("compare", "add", "remove"):
            mergep = os.path.join(root, "merge-" + op, fname) if with_merge else None
            cc = ContentComparer()
            cc.observers.append(Observer())
            reff, l10f = File(refp, fname, locale=None), File(l10p, fname, locale="de")
            try:
                if op == "compare":
                    cc.compare(reff, l10f, mergep)
                elif op == "add":
                    cc.add(reff, l10f, mergep)
                else:
                    cc.remove(reff, l10f, mergep)
                rep = cc.observers.toJSON()
                items = []
                for _, its in leaves(rep["details"], [], []):
                    items += its
                bad = [it for it in items if not (isinstance(it, dict) and len(it) == 1)]
                res[op] = "ok %d %s" % (len(items), "malformed" if bad else "wf")
            except Exception as e:
                res[op] = "raise " + type(e).__name__
                res[op + "_exc"] = exc_info(e)
    finally:
        shutil.rmtree(root, ignore_errors=True)
    return res


# ---------------------------------------------------------------- sessions: ONE ContentComparer / ONE L10nLinter over a sequence of files

def _leaf_map(rep):
    """`toJSON()["details"]` as {path joined by "/": items}"""
    return {"/".join(p): items for p, items in leaves(rep["details"], [], [])}


def _show_items(items):
    its = []
    for it in items:
        (cat, val), = it.items()
        if cat in ("missingFile", "obsoleteFile"):
            its.append("%s=r%s" % (cat, val))
        else:
            its.append("%s=%s" % (cat, show_data(val)))
    return "|".join(its)


def _show_lint(results):
    return "ok " + "|".join("%d,%d,%s,%s" % (r["lineno"], r["column"], enc(r["level"]), enc(r["message"])) for r in results)


def _ufffd_missing(fname, refp, l10p, items):
    """oracle by construction, independent of every other file of the session: every localized string shared with the
    reference whose text (`.all`) contains U+FFFD has an encoding warning among the details OF THIS FILE"""
    try:
        p = type(parser.getParser(fname))()
        p.readFile(refp)
        ref = p.parse()
        p2 = type(parser.getParser(fname))()
        p2.readFile(l10p)
        l10n = p2.parse()
    except RecursionError:
        return []
    msgs = [d.get("warning", "") for d in items if isinstance(d, dict) and isinstance(d.get("warning"), str)]
    out, seen = [], set()
    for e in l10n:
        if isinstance(e, parser.Junk) or e.key in seen:
            continue
        seen.add(e.key)
        k = e.key
        if k in ref and not isinstance(ref[k], parser.Junk) and not isinstance(l10n[k], parser.Junk) and "�" in l10n[k].all:
            want = "� in: %s" % (l10n[k].key,)
            if not any(m.startswith(want) for m in msgs):
                out.append(repr(k))
    return out


def impl_session(jobs, lint_refs):
    """`jobs` = [[fmt, ref bytes (latin-1), l10n bytes, with_merge], …]: ONE `ContentComparer` (one unfiltered `Observer`)
    compares the files f0/<name>, f1/<name>, … in this order, the way `compareProjects` drives it, in a process whose junk
    counters start fresh; then ONE `L10nLinter.lint` call lints all localized files (`lint_refs[i]`: with its reference).
    Per file: what the session reported for it (its leaf of `toJSON()["details"]`, the merge file), the same comparison by a
    FRESH comparer started with the junk counters the session had at that point, the oracle by construction on the real
    parser's entities, and the model's inputs."""
    from impl.robust import junk_state, set_junk_state, entity_junk_clash, shape_errors_details
    base = os.environ.get("VERIF_TMP") or tempfile.gettempdir()
    root = tempfile.mkdtemp(prefix="clv5s-", dir=base)
    res = {"jobs": []}
    saved = (content_mod.shutil, content_mod.codecs)
    xml_log, log = [], []
    try:
        J = []
        for i, (fmt, ref_latin, l10n_latin, with_merge) in enumerate(jobs):
            fname = FNAME.get(fmt) or {"ftl": "a.ftl", "android": "strings.xml"}[fmt]
            rel = "f%d/%s" % (i, fname)
            os.makedirs(os.path.join(root, "ref", "f%d" % i))
            os.makedirs(os.path.join(root, "l10n", "f%d" % i))
            refp, l10p = os.path.join(root, "ref", rel), os.path.join(root, "l10n", rel)
            l10b = l10n_latin.encode("latin-1")
            with open(refp, "wb") as f:
                f.write(ref_latin.encode("latin-1"))
            with open(l10p, "wb") as f:
                f.write(l10b)
            J.append({"fmt": fmt, "fname": fname, "rel": rel, "refp": refp, "l10p": l10p, "l10b": l10b, "merge": bool(with_merge),
                      "reff": File(refp, rel, locale=None), "l10f": File(l10p, rel, locale="de")})
        _sax.make_parser = lambda *a, **k: _RecParser(_real_make_parser(*a, **k), xml_log)
        content_mod.shutil, content_mod.codecs = _Shutil(log), _Codecs(log)
        # ---- the session
        reset_junk(0)
        cc = ContentComparer()
        cc.observers.append(Observer())
        for j in J:
            j["junk0"] = junk_state()
            j["mergep"] = os.path.join(root, "merge", j["rel"]) if j["merge"] else None
            try:
                cc.compare(j["reff"], j["l10f"], j["mergep"])
                j["compare"] = "ok"
            except Exception as e:
                j["compare"] = "raise " + type(e).__name__
                j["compare_exc"] = exc_info(e)
        try:
            rep = cc.observers.toJSON()
            lm = _leaf_map(rep)
            outs = [merge_outcome(log, j["mergep"], j["refp"], j["l10p"], j["l10b"]) for j in J]
            res["report"] = show_report(rep, "&".join(outs))
            res["summary"] = {("" if k is None else k): v for k, v in rep["summary"].items()}
        except Exception as e:
            res["report"] = "raise " + type(e).__name__
            res["report_exc"] = exc_info(e)
            lm, outs, rep = {}, ["?"] * len(J), {"summary": {}}
        raised = [i for i, j in enumerate(J) if j["compare"] != "ok"]
        if raised:
            res["report"] = "%s at %d" % (J[raised[0]]["compare"], raised[0])
        # ---- the same comparisons, each by a fresh comparer (junk counters as the session had them at that point)
        for i, j in enumerate(J):
            items = lm.get(j["rel"], [])
            j["leaf"] = _show_items(items) if all(isinstance(it, dict) and len(it) == 1 for it in items) else repr(items)
            j["shape"] = shape_errors_details(items)
            j["merge_out"] = outs[i]
            set_junk_state(j["junk0"])
            fc = ContentComparer()
            fc.observers.append(Observer())
            mp = os.path.join(root, "mergeF", j["rel"]) if j["merge"] else None
            fr = {}
            try:
                fc.compare(j["reff"], j["l10f"], mp)
                fr["compare"] = "ok"
            except Exception as e:
                fr["compare"] = "raise " + type(e).__name__
            try:
                frep = fc.observers.toJSON()
                fr["leaf"] = _show_items(_leaf_map(frep).get(j["rel"], []))
                fr["summary"] = {("" if k is None else k): v for k, v in frep["summary"].items()}
                fr["merge_out"] = merge_outcome(log, mp, j["refp"], j["l10p"], j["l10b"])
            except Exception as e:
                fr["leaf"] = "raise " + type(e).__name__
            j["fresh"] = fr
            if "compare_exc" in j:
                j["compare_exc"]["entity_junk_clash"] = entity_junk_clash(j["fname"], j["refp"], j["l10p"], j["junk0"])
        content_mod.shutil, content_mod.codecs = saved
        # ---- oracle by construction, per file
        for j in J:
            try:
                j["ufffd_missing"] = _ufffd_missing(j["fname"], j["refp"], j["l10p"], lm.get(j["rel"], [])) if j["compare"] == "ok" else []
            except Exception as e:
                j["ufffd_missing"] = []
                j["oracle_exc"] = exc_info(e)
        # ---- ONE linter over all localized files
        states = {}
        refmap = {j["l10p"]: (j["refp"] if lr else None) for j, lr in zip(J, lint_refs)}

        def get_ref(path):
            states[path] = junk_state()
            return refmap[path], None
        reset_junk(0)
        lint = {}
        try:
            results = L10nLinter().lint([j["l10p"] for j in J], get_ref)
            res["lint"] = "ok"
            for r in results:
                lint.setdefault(r.get("path"), []).append(r)
        except Exception as e:
            res["lint"] = "raise " + type(e).__name__
            res["lint_exc"] = exc_info(e)
            results = []
        res["lint_shape"] = []
        for r in results:
            if r.get("level") not in ("error", "warning"):
                res["lint_shape"].append("lint level %r" % (r.get("level"),))
            if not isinstance(r.get("message"), str):
                res["lint_shape"].append("lint message is not text: %r" % (r.get("message"),))
            for f in ("lineno", "column"):
                if not isinstance(r.get(f), int) or isinstance(r.get(f), bool):
                    res["lint_shape"].append("lint %s is not an integer: %r" % (f, r.get(f)))
            if r.get("path") not in refmap:
                res["lint_shape"].append("lint result for a file that was not linted: %r" % (r.get("path"),))
        for j in J:
            try:
                j["lint"] = _show_lint(lint.get(j["l10p"], [])) if res["lint"] == "ok" else res["lint"]
            except Exception as e:
                j["lint"] = "malformed " + type(e).__name__
            set_junk_state(states.get(j["l10p"], (0, None)))
            try:
                j["lint_fresh"] = _show_lint(list(L10nLinter().lint_file(j["l10p"], refmap[j["l10p"]], None)))
            except Exception as e:
                j["lint_fresh"] = "raise " + type(e).__name__
                j["lint_fresh_exc"] = exc_info(e)
        # ---- the model's inputs
        _sax.make_parser = _real_make_parser
        ents = []
        for j, lr in zip(J, lint_refs):
            j["ref_text"] = read_text(j["fname"], j["refp"])
            j["l10n_text"] = read_text(j["fname"], j["l10p"])
            try:
                if j["fmt"] == "ftl":
                    classes = _EqClasses()
                    _, j["ref_body"] = ftl_body_tokens(j["refp"], classes)
                    _, j["l10n_body"] = ftl_body_tokens(j["l10p"], classes)
                elif j["fmt"] == "android":
                    _, j["ref_items"] = android_item_tokens(j["refp"])
                    _, j["l10n_items"] = android_item_tokens(j["l10p"])
                elif j["fmt"] == "dtd":
                    for pth in (j["refp"], j["l10p"]):
                        pp = type(parser.getParser(j["fname"]))()
                        pp.readFile(pth)
                        ents.extend(pp.walk(only_localizable=True))
            except Exception as e:
                j["tokens_exc"] = exc_info(e)
        res["ext"] = ext_tokens(xml_log, ents) if any(j["fmt"] == "dtd" for j in J) else ""
        keep = ("fmt", "rel", "merge", "junk0", "compare", "compare_exc", "leaf", "shape", "merge_out", "fresh", "ufffd_missing", "oracle_exc",
                "lint", "lint_fresh", "lint_fresh_exc", "ref_text", "l10n_text", "ref_body", "l10n_body", "ref_items", "l10n_items", "tokens_exc")
        res["jobs"] = [{k: j[k] for k in keep if k in j} for j in J]
        res["lint_refs"] = [bool(x) for x in lint_refs]
    finally:
        _sax.make_parser = _real_make_parser
        content_mod.shutil, content_mod.codecs = saved
        reset_junk(0)
        shutil.rmtree(root, ignore_errors=True)
    return res

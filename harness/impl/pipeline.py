"""Adapter for the C05 pipeline correspondence: the real ContentComparer.compare (+ observers.toJSON(), the merge
file observed from outside) and L10nLinter.lint_file on a pair of byte strings, rendered in the canonical text of
the driver operations `c05.compare` / `c05.lint` (lean/CLModel/Ops/C05.lean).

The model starts from decoded text: the texts handed to the model are what `Parser.readFile` itself leaves in
`ctx.contents` (errors="replace", universal newlines), read off a fresh parser here."""
import codecs
import os
import shutil
import tempfile
import warnings

warnings.filterwarnings("ignore")

from compare_locales import parser
from compare_locales.compare import content as content_mod
from compare_locales.compare.content import ContentComparer
from compare_locales.compare.observer import Observer
from compare_locales.lint.linter import L10nLinter
from compare_locales.paths import File

FNAME = {"properties": "a.properties", "ini": "a.ini", "inc": "a.inc", "po": "a.po", "dtd": "a.dtd"}
STAT_KEYS = ["errors", "warnings", "missing", "missing_w", "report", "obsolete", "changed", "changed_w",
             "unchanged", "unchanged_w", "keys"]


def enc(s):
    return "t:" + ",".join(str(ord(c)) for c in s)


def exc_info(e):
    import traceback
    tb = traceback.extract_tb(e.__traceback__)
    return {"exc": type(e).__name__, "msg": str(e)[:200],
            "where": ["%s:%s:%s" % (os.path.basename(f.filename), f.lineno, f.name) for f in tb[-3:]]}


class _Shutil:
    """stands in for the `shutil` module inside compare/content.py: records copyfile calls"""

    def __init__(self, log):
        self._log = log

    def copyfile(self, src, dst, *a, **k):
        self._log.append(("copy", src, dst))
        return shutil.copyfile(src, dst, *a, **k)

    def __getattr__(self, name):
        return getattr(shutil, name)


class _Codecs:
    """stands in for the `codecs` module inside compare/content.py: records open calls"""

    def __init__(self, log):
        self._log = log

    def open(self, path, mode="r", *a, **k):
        self._log.append(("open", path, mode))
        return codecs.open(path, mode, *a, **k)

    def __getattr__(self, name):
        return getattr(codecs, name)


def show_data(v):
    if v is None:
        return "N"
    if isinstance(v, str):
        return "s" + enc(v)
    if isinstance(v, (tuple, list)):
        return "T" + "/".join("N" if x is None else enc(x) for x in v)
    return "?" + repr(v)


def leaves(d, prefix, out):
    if isinstance(d, list):
        out.append((prefix, d))
    elif isinstance(d, dict):
        for k, v in d.items():
            leaves(v, prefix + [k], out)
    return out


def show_report(rep, outcome):
    summ = ";".join(("N" if loc is None else enc(loc)) + ":" + ",".join(str(d[k]) for k in STAT_KEYS)
                    for loc, d in rep["summary"].items())
    det = []
    for path, items in leaves(rep["details"], [], []):
        its = []
        for it in items:
            (cat, val), = it.items()
            if cat in ("missingFile", "obsoleteFile"):
                its.append("%s=r%s" % (cat, val))
            else:
                its.append("%s=%s" % (cat, show_data(val)))
        det.append("/".join(enc(p) for p in path) + ":" + "|".join(its))
    return "ok summary[%s] details[%s] merge=%s" % (summ, ";".join(det), outcome)


def merge_outcome(log, mergep, refp, l10p, l10n_bytes):
    if mergep is None or not os.path.exists(mergep):
        return "nothing"
    with open(mergep, "rb") as f:
        data = f.read()
    copies = [e for e in log if e[0] == "copy" and e[2] == mergep]
    opens = [e for e in log if e[0] == "open" and e[1] == mergep]
    if copies:
        if copies[-1][1] == refp:
            return "copy-ref"
        if not opens:
            return "copy-l10n"
        if data[:len(l10n_bytes)] != l10n_bytes:
            return "copy-l10n+ ?prefix-changed"
        return "copy-l10n+ " + enc(data[len(l10n_bytes):].decode("utf-8"))
    return "written " + enc(data.decode("utf-8"))


def read_text(fname, path):
    p = type(parser.getParser(fname))()
    p.readFile(path)
    return p.ctx.contents


def impl_pipeline(fmt, ref_latin, l10n_latin, with_merge):
    fname = FNAME[fmt]
    base = os.environ.get("VERIF_TMP") or tempfile.gettempdir()
    root = tempfile.mkdtemp(prefix="clv5p-", dir=base)
    res = {}
    saved = (content_mod.shutil, content_mod.codecs)
    try:
        os.makedirs(os.path.join(root, "ref"))
        os.makedirs(os.path.join(root, "l10n"))
        refp = os.path.join(root, "ref", fname)
        l10p = os.path.join(root, "l10n", fname)
        refb, l10b = ref_latin.encode("latin-1"), l10n_latin.encode("latin-1")
        with open(refp, "wb") as f:
            f.write(refb)
        with open(l10p, "wb") as f:
            f.write(l10b)
        res["ref_text"] = read_text(fname, refp)
        res["l10n_text"] = read_text(fname, l10p)
        mergep = os.path.join(root, "merge", fname) if with_merge else None
        log = []
        content_mod.shutil, content_mod.codecs = _Shutil(log), _Codecs(log)
        parser.Junk.junkid = 0
        cc = ContentComparer()
        cc.observers.append(Observer())
        try:
            cc.compare(File(refp, fname, locale=None), File(l10p, fname, locale="de"), mergep)
            res["compare"] = show_report(cc.observers.toJSON(), merge_outcome(log, mergep, refp, l10p, l10b))
        except Exception as e:
            res["compare"] = "raise " + type(e).__name__
            res["compare_exc"] = exc_info(e)
        finally:
            content_mod.shutil, content_mod.codecs = saved
        for tag, rp in (("lint", refp), ("lint_noref", None)):
            parser.Junk.junkid = 0
            try:
                results = list(L10nLinter().lint_file(l10p, rp, None))
                res[tag] = "ok " + "|".join("%d,%d,%s,%s" % (r["lineno"], r["column"], enc(r["level"]), enc(r["message"]))
                                            for r in results)
            except Exception as e:
                res[tag] = "raise " + type(e).__name__
                res[tag + "_exc"] = exc_info(e)
    finally:
        content_mod.shutil, content_mod.codecs = saved
        shutil.rmtree(root, ignore_errors=True)
    return res

"""Adapters of C02: what the real parsers report for a text (keys, raw values, values, attached
comments, junk) and the real value functions on isolated inputs.  Canonical strings are those
of lean/CLModel/Ops/C02.lean."""
import warnings

warnings.filterwarnings("ignore")

from impl.parse import get_parser, kind_of

REGEX_FORMATS = ("properties", "dtd", "ini", "inc", "po")


def enc(s):
    return "t:" + ",".join(str(ord(c)) for c in s)


def enc_opt(s):
    return "None" if s is None else enc(s)


def comment_of(fmt, e):
    if fmt == "ftl":
        c = e.entry.comment
        return None if c is None else c.content
    pc = getattr(e, "pre_comment", None)
    return None if pc is None else pc.val


def canon_entry(fmt, e):
    k = kind_of(e)
    if k == "E":
        if fmt == "po":
            key = "k:%s x:%s" % (enc(e.key[0]), enc_opt(e.key[1]))
        else:
            key = "k:%s" % enc(e.key)
        raw = e.raw_val
        val = "?" if (fmt == "dtd" and "&" in raw) else enc(e.val)
        return "E %s r:%s v:%s c:%s" % (key, enc(raw), val, enc_opt(comment_of(fmt, e)))
    if k == "J":
        return "J " + enc(e.all)
    if k == "C":
        return "C " + enc(e.val)
    if k in "SI":
        return "%s %s" % (k, enc(e.val))
    return k


def impl_entities(fmt, text):
    """entities (key, raw_val, val, attached comment), junk texts, standalone comment values of the full
    walk; plus the canonical line for the model comparison (regex formats only)"""
    p = get_parser(fmt)
    p.readUnicode(text)
    ents, junk, comments, canon = [], [], [], ["done"]
    n = 0
    for e in p.walk():
        n += 1
        if n > 2 * len(text) + 50:
            canon[0] = "runaway"
            break
        k = kind_of(e)
        if k == "E":
            key = e.key
            if isinstance(key, tuple):
                key = list(key)
            ents.append([key, e.raw_val, e.val, comment_of(fmt, e)])
        elif k == "J":
            junk.append(e.all)
        elif k == "C":
            comments.append(e.val)
        if fmt in REGEX_FORMATS:
            canon.append(canon_entry(fmt, e))
    # the localizable-only view must show the same entities and junk
    p2 = get_parser(fmt)
    p2.readUnicode(text)
    loc = []
    m = 0
    for e in p2:
        m += 1
        if m > 2 * len(text) + 50:
            break
        k = kind_of(e)
        if k == "E":
            key = e.key
            loc.append(["E", list(key) if isinstance(key, tuple) else key])
        else:
            loc.append(["J", e.all])
    return {"ents": ents, "junk": junk, "comments": comments, "loc": loc,
            "canon": " | ".join(canon) if fmt in REGEX_FORMATS else None}


def impl_class(fmt, text):
    """round 4: the full walk with ALL spans (canonical form of impl.parse.show_entry) plus the entity views"""
    from impl.parse import impl_parse
    r = impl_entities(fmt, text)
    r["spans"] = impl_parse(fmt, text)
    return r


def impl_props_val(raw):
    from compare_locales.parser.properties import PropertiesEntityMixin

    class X(PropertiesEntityMixin):
        raw_val = raw

    return X().val


def impl_po_unescape(frag):
    from compare_locales.parser.po import eval_stringlist
    return eval_stringlist([frag])


def impl_comment_val(style, all_):
    from compare_locales.parser.base import Comment, OffsetComment, Parser
    from compare_locales.parser.dtd import DTDParser
    from compare_locales.parser.defines import DefinesParser
    cls = {"plain": Comment, "offset1": OffsetComment, "offset2": DefinesParser.Comment, "dtd": DTDParser.Comment}[style]
    ctx = Parser.Context(all_)
    return cls(ctx, (0, len(all_))).val


def impl_values(kind, arg):
    if kind == "props":
        return impl_props_val(arg)
    if kind == "po":
        return impl_po_unescape(arg)
    return impl_comment_val(kind, arg)


# ---------------------------------------------------------------- round 5 (additive): histories on one parser object
def view_entry(fmt, e):
    """what C02 observes of an entry: entity = key, raw value, value, attached comment; junk / stand-alone comment = its text"""
    k = kind_of(e)
    if k == "E":
        key = e.key
        return ["E", list(key) if isinstance(key, tuple) else key, e.raw_val, e.val, comment_of(fmt, e)]
    if k == "J":
        return ["J", e.all]
    if k == "C":
        return ["C", e.val]
    return [k]


def impl_history(fmt, ops):
    """the entries every consuming operation of a history on ONE parser object obtained (impl.parse.run_history), as views;
    the same for a FRESH parser object per text read; canonical line of Ops/C02.lean `c02.hist` for the regex formats"""
    from impl.parse import run_history
    canon = []

    def show(e):
        return [view_entry(fmt, e), canon_entry(fmt, e) if fmt in REGEX_FORMATS else None]

    p, recs = run_history(fmt, ops, show)
    out = []
    for r in recs:
        o = {"i": r["i"], "status": r["status"], "shown": [s[0] for s in r["shown"]]}
        if "lookups" in r:
            o["lookups"] = r["lookups"]
        out.append(o)
        canon.append(" | ".join([("stuck" if r["status"] == "runaway" else r["status"])] + [s[1] or "" for s in r["shown"]]))
    fresh = {}
    for op in ops:
        if op[0] in ("R", "RC", "RF") and op[1] not in fresh:
            views = []
            for loc in (False, True):
                q = get_parser(fmt)
                q.readUnicode(op[1])
                got = []
                for e in (iter(q) if loc else q.walk()):
                    got.append(view_entry(fmt, e))
                    if len(got) > 2 * len(op[1]) + 50:
                        break
                views.append(got)
            fresh[op[1]] = {"full": views[0], "loc": views[1]}
    return {"recs": out, "fresh": fresh, "canon": " || ".join(canon) if fmt in REGEX_FORMATS else None}

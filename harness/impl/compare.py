"""Adapter around the real ContentComparer; results in the canonical form of Ops/C03.lean.

Runs inside a pool worker (lib/pool.py).  Files are written below /tmp/wt/c03/run-<pid>/.
"""
import os
import re
import shutil
import warnings

warnings.filterwarnings("ignore")

from compare_locales import parser as P
from compare_locales.compare.content import ContentComparer
from compare_locales.compare.observer import Observer
from compare_locales.parser.base import Junk
from compare_locales.paths import File

FNAME = {"properties": "a.properties", "dtd": "a.dtd", "ini": "a.ini", "inc": "a.inc", "po": "a.po",
         "ftl": "a.ftl", "android": "strings.xml"}
ROOT = os.environ.get("C03_SCRATCH", "/tmp/wt/c03")
STAT_KEYS = ["missing", "missing_w", "report", "obsolete", "changed", "changed_w", "unchanged", "unchanged_w", "keys"]

_dir = None


def workdir():
    global _dir
    if _dir is None:
        _dir = os.path.join(ROOT, "run-%d" % os.getpid())
        shutil.rmtree(_dir, ignore_errors=True)
        os.makedirs(os.path.join(_dir, "en"))
        os.makedirs(os.path.join(_dir, "l10n"))
    return _dir


def codes(s):
    return ",".join(str(ord(c)) for c in s)


def key_wire(k):
    """entity key -> key token of the line protocol"""
    if isinstance(k, str):
        return "t:" + codes(k)
    msgid, ctxt = k
    return "p:" + codes(msgid) + "/" + ("-" if ctxt is None else codes(ctxt))


class CountingObserver(Observer):
    def __init__(self, **kw):
        super().__init__(**kw)
        self.calls = []

    def updateStats(self, file, stats):
        self.calls.append(dict(stats))
        super().updateStats(file, stats)


class RecordingComparer(ContentComparer):
    """the two hooks of ContentComparer tell which shared strings were classified changed / unchanged"""

    def __init__(self):
        super().__init__()
        self.hooks = {"changed": [], "unchanged": []}

    def doUnchanged(self, entity):
        self.hooks["unchanged"].append(key_wire(entity.key))

    def doChanged(self, file, ref_entity, l10n_entity):
        self.hooks["changed"].append(key_wire(ref_entity.key))


def describe(ents, reps, msgs):
    """entity list of the real parser -> [(key wire, junk, words, cls, msg)]
    cls: equality class under the real `equals` (reps: representatives seen so far, shared by both files)
    msg: index of junk.error_message() in msgs"""
    out = []
    for e in ents:
        if isinstance(e, Junk):
            m = e.error_message()
            if m not in msgs:
                msgs.append(m)
            out.append((key_wire(e.key), 1, 0, 0, msgs.index(m)))
            continue
        cls = None
        for i, r in enumerate(reps):
            try:
                same = r.equals(e)
            except Exception:
                same = False
            if same:
                cls = i + 1
                break
        if cls is None:
            reps.append(e)
            cls = len(reps)
        out.append((key_wire(e.key), 0, e.count_words(), cls, 0))
    return out


def show_updates(calls):
    return ";".join(",".join("%s=%d" % (k, v) for k, v in c.items()) for c in calls)


def canon_details(items, keymap, msgs):
    """details list of one file -> (canonical notes, number of checker errors, checker warnings, unknown items)"""
    notes = []
    cerr = cwarn = 0
    unknown = []
    for it in items:
        (cat, data), = it.items()
        if cat == "missingEntity":
            notes.append("M:" + key_wire(tuple(data) if isinstance(data, (list, tuple)) else data))
        elif cat == "obsoleteEntity":
            notes.append("O:" + key_wire(tuple(data) if isinstance(data, (list, tuple)) else data))
        elif cat == "missingFile":
            notes.append("F:" + data)
        elif cat in ("error", "warning"):
            lvl = "E" if cat == "error" else "W"
            m = re.match(r"^(.*) occurs (\d+) times$", data, re.S)
            if data == "Parser error in en-US":
                notes.append(lvl + ":refjunk")
            elif data in msgs:
                notes.append(lvl + ":junk:%d" % msgs.index(data))
            elif m and m.group(1) in keymap:
                notes.append(lvl + ":dup:%s:%s" % (keymap[m.group(1)], m.group(2)))
            elif re.search(r" at line \d+, column \d+ for ", data):
                if cat == "error":
                    cerr += 1
                else:
                    cwarn += 1
            else:
                unknown.append(it)
        else:
            unknown.append(it)
    return notes, cerr, cwarn, unknown


def impl_compare(fmt, ref_text, l10n_text, verdicts=None, add_text=None):
    """compare(ref, l10n) — optionally followed by add(second reference file) on the same comparer.

    verdicts: {key text: "warning" | "ignore"} answered by the observer's filter for that entity key.
    Returns everything the correspondence and the oracle need, computed from the real objects."""
    d = workdir()
    name = FNAME[fmt]
    refp = os.path.join(d, "en", name)
    l10np = os.path.join(d, "l10n", name)
    with open(refp, "w", encoding="utf-8", newline="") as f:
        f.write(ref_text)
    with open(l10np, "w", encoding="utf-8", newline="") as f:
        f.write(l10n_text)
    ref_file = File(refp, name, locale="")
    l10n_file = File(l10np, name, locale="xx")

    # the model's input: entity lists of the real parser
    reps, msgs = [], []
    p = P.getParser(name)
    p.readFile(ref_file)
    ref_ents = list(p.parse())
    p.readFile(l10n_file)
    l10n_ents = list(p.parse())
    dref = describe(ref_ents, reps, msgs)
    dl10n = describe(l10n_ents, reps, msgs)
    keymap = {}
    for e in ref_ents + l10n_ents:
        keymap[str(e.key)] = key_wire(e.key)

    filt = None
    if verdicts:
        def filt(file, entity=None):
            if isinstance(entity, str) and entity in verdicts:
                return verdicts[entity]
            return "error"
    obs = CountingObserver(filter=filt)
    cc = RecordingComparer()
    cc.observers.append(obs)
    cc.compare(ref_file, l10n_file, None)
    js = cc.observers.toJSON()
    details = js["details"]
    items = details.get(name, []) if isinstance(details, dict) else details
    notes, cerr, cwarn, unknown = canon_details(items, keymap, msgs)
    res = {
        "ref": dref, "l10n": dl10n,
        "canon": "ok " + show_updates(obs.calls) + " |" + "".join(" " + n for n in notes),
        "checker": [cerr, cwarn], "unknown": unknown, "hooks": cc.hooks,
        "summary": dict(js["summary"].get("xx", {})),
        "observer_summary": dict(obs.toJSON()["summary"].get("xx", {})),
        "ref_words": [[k, w] for (k, j, w, c, m) in dref if not j],
    }
    if add_text is not None:
        name2 = "b" + os.path.splitext(name)[1] if fmt != "android" else "more/strings.xml"
        os.makedirs(os.path.dirname(os.path.join(d, "en", name2)), exist_ok=True)
        ref2 = os.path.join(d, "en", name2)
        with open(ref2, "w", encoding="utf-8", newline="") as f:
            f.write(add_text)
        p.readFile(ref2)
        add_ents = list(p.parse())
        ncalls = len(obs.calls)
        cc.add(File(ref2, name2, locale=""), File(os.path.join(d, "l10n", name2), name2, locale="xx"), None)
        js2 = cc.observers.toJSON()
        det2 = js2["details"]
        # the Tree splits common path prefixes: look the second file up the way the Tree stores it
        items2 = cc.observers.details[name2]
        notes2, _, _, unk2 = canon_details(list(items2), {}, [])
        res["add"] = {
            "ents": describe(add_ents, [], []),
            "canon": "ok " + show_updates(obs.calls[ncalls:]) + " |" + "".join(" " + n for n in notes2),
            "summary": dict(js2["summary"].get("xx", {})),
            "unknown": unk2,
        }
    return res


def impl_words(fmt, raw):
    """count_words of the one entity of a file holding `raw`; returns [val, words]"""
    p = type(P.getParser(FNAME[fmt]))()
    p.readUnicode(raw)
    ents = [e for e in p.parse() if not isinstance(e, Junk)]
    if len(ents) != 1:
        return None
    return [ents[0].val, ents[0].count_words()]


def impl_words_literal(val):
    """Entry.count_words on a literal value (the base implementation, format independent)"""
    from compare_locales.parser.base import LiteralEntity
    return LiteralEntity("k", val, "k=" + val).count_words()

"""Adapter around the real ContentComparer; results in the canonical form of Ops/C03.lean.

Runs inside a pool worker (lib/pool.py).  Files are written below /tmp/wt/c03/run-<pid>/.
"""
import os
import re
import shutil
import warnings

warnings.filterwarnings("ignore")

from compare_locales import parser as P
from compare_locales.compare.content import ContentComparer
from compare_locales.compare.observer import Observer
from compare_locales.parser.base import Junk
from compare_locales.paths import File

FNAME = {"properties": "a.properties", "dtd": "a.dtd", "ini": "a.ini", "inc": "a.inc", "po": "a.po",
         "ftl": "a.ftl", "android": "strings.xml"}
ROOT = os.environ.get("C03_SCRATCH", "/tmp/wt/c03")
STAT_KEYS = ["missing", "missing_w", "report", "obsolete", "changed", "changed_w", "unchanged", "unchanged_w", "keys"]

_dir = None


def workdir():
    global _dir
    if _dir is None:
        _dir = os.path.join(ROOT, "run-%d" % os.getpid())
        shutil.rmtree(_dir, ignore_errors=True)
        os.makedirs(os.path.join(_dir, "en"))
        os.makedirs(os.path.join(_dir, "l10n"))
    return _dir


def codes(s):
    return ",".join(str(ord(c)) for c in s)


def key_wire(k):
    """entity key -> key token of the line protocol"""
    if isinstance(k, str):
        return "t:" + codes(k)
    msgid, ctxt = k
    return "p:" + codes(msgid) + "/" + ("-" if ctxt is None else codes(ctxt))


class CountingObserver(Observer):
    def __init__(self, **kw):
        super().__init__(**kw)
        self.calls = []

    def updateStats(self, file, stats):
        self.calls.append(dict(stats))
        super().updateStats(file, stats)


class RecordingComparer(ContentComparer):
    """the two hooks of ContentComparer tell which shared strings were classified changed / unchanged"""

    def __init__(self):
        super().__init__()
        self.hooks = {"changed": [], "unchanged": []}

    def doUnchanged(self, entity):
        self.hooks["unchanged"].append(key_wire(entity.key))

    def doChanged(self, file, ref_entity, l10n_entity):
        self.hooks["changed"].append(key_wire(ref_entity.key))


def describe(ents, reps, msgs):
    """entity list of the real parser -> [(key wire, junk, words, cls, msg)]
    cls: equality class under the real `equals` (reps: representatives seen so far, shared by both files)
    msg: index of junk.error_message() in msgs"""
    out = []
    for e in ents:
        if isinstance(e, Junk):
            m = e.error_message()
            if m not in msgs:
                msgs.append(m)
            out.append((key_wire(e.key), 1, 0, 0, msgs.index(m)))
            continue
        cls = None
        for i, r in enumerate(reps):
            try:
                same = type(r) is type(e) and r.equals(e)
            except Exception:
                same = False
            if same:
                cls = i + 1
                break
        if cls is None:
            reps.append(e)
            cls = len(reps)
        out.append((key_wire(e.key), 0, e.count_words(), cls, 0))
    return out


def show_updates(calls):
    return ";".join(",".join("%s=%d" % (k, v) for k, v in c.items()) for c in calls)


def canon_details(items, keymap, msgs):
    """details list of one file -> (canonical notes, number of checker errors, checker warnings, unknown items)"""
    notes = []
    cerr = cwarn = 0
    unknown = []
    for it in items:
        (cat, data), = it.items()
        if cat == "missingEntity":
            notes.append("M:" + key_wire(tuple(data) if isinstance(data, (list, tuple)) else data))
        elif cat == "obsoleteEntity":
            notes.append("O:" + key_wire(tuple(data) if isinstance(data, (list, tuple)) else data))
        elif cat == "missingFile":
            notes.append("F:" + data)
        elif cat in ("error", "warning"):
            lvl = "E" if cat == "error" else "W"
            m = re.match(r"^(.*) occurs (\d+) times$", data, re.S)
            if data == "Parser error in en-US":
                notes.append(lvl + ":refjunk")
            elif data in msgs:
                notes.append(lvl + ":junk:%d" % msgs.index(data))
            elif m and m.group(1) in keymap:
                notes.append(lvl + ":dup:%s:%s" % (keymap[m.group(1)], m.group(2)))
            elif re.search(r" at line \d+, column \d+ for ", data):
                if cat == "error":
                    cerr += 1
                else:
                    cwarn += 1
            else:
                unknown.append(it)
        else:
            unknown.append(it)
    return notes, cerr, cwarn, unknown


def impl_compare(fmt, ref_text, l10n_text, verdicts=None, add_text=None):
    """compare(ref, l10n) — optionally followed by add(second reference file) on the same comparer.

    verdicts: {key text: "warning" | "ignore"} answered by the observer's filter for that entity key.
    Returns everything the correspondence and the oracle need, computed from the real objects."""
    d = workdir()
    name = FNAME[fmt]
    refp = os.path.join(d, "en", name)
    l10np = os.path.join(d, "l10n", name)
    with open(refp, "w", encoding="utf-8", newline="") as f:
        f.write(ref_text)
    with open(l10np, "w", encoding="utf-8", newline="") as f:
        f.write(l10n_text)
    ref_file = File(refp, name, locale="")
    l10n_file = File(l10np, name, locale="xx")

    # the model's input: entity lists of the real parser
    reps, msgs = [], []
    p = P.getParser(name)
    p.readFile(ref_file)
    ref_ents = list(p.parse())
    p.readFile(l10n_file)
    l10n_ents = list(p.parse())
    dref = describe(ref_ents, reps, msgs)
    dl10n = describe(l10n_ents, reps, msgs)
    keymap = {}
    for e in ref_ents + l10n_ents:
        keymap[str(e.key)] = key_wire(e.key)

    filt = None
    if verdicts:
        def filt(file, entity=None):
            if isinstance(entity, str) and entity in verdicts:
                return verdicts[entity]
            return "error"
    obs = CountingObserver(filter=filt)
    cc = RecordingComparer()
    cc.observers.append(obs)
    cc.compare(ref_file, l10n_file, None)
    js = cc.observers.toJSON()
    details = js["details"]
    items = details.get(name, []) if isinstance(details, dict) else details
    notes, cerr, cwarn, unknown = canon_details(items, keymap, msgs)
    res = {
        "ref": dref, "l10n": dl10n, "ftl": ftl_line(ref_ents, l10n_ents, msgs) if fmt == "ftl" else None,
        "canon": "ok " + show_updates(obs.calls) + " |" + "".join(" " + n for n in notes),
        "checker": [cerr, cwarn], "unknown": unknown, "hooks": cc.hooks,
        "summary": dict(js["summary"].get("xx", {})),
        "observer_summary": dict(obs.toJSON()["summary"].get("xx", {})),
        "ref_words": [[k, w] for (k, j, w, c, m) in dref if not j],
    }
    if add_text is not None:
        name2 = "b" + os.path.splitext(name)[1] if fmt != "android" else "more/strings.xml"
        os.makedirs(os.path.dirname(os.path.join(d, "en", name2)), exist_ok=True)
        ref2 = os.path.join(d, "en", name2)
        with open(ref2, "w", encoding="utf-8", newline="") as f:
            f.write(add_text)
        p.readFile(ref2)
        add_ents = list(p.parse())
        ncalls = len(obs.calls)
        cc.add(File(ref2, name2, locale=""), File(os.path.join(d, "l10n", name2), name2, locale="xx"), None)
        js2 = cc.observers.toJSON()
        det2 = js2["details"]
        # the Tree splits common path prefixes: look the second file up the way the Tree stores it
        items2 = cc.observers.details[name2]
        notes2, _, _, unk2 = canon_details(list(items2), {}, [])
        res["add"] = {
            "ents": describe(add_ents, [], []),
            "canon": "ok " + show_updates(obs.calls[ncalls:]) + " |" + "".join(" " + n for n in notes2),
            "summary": dict(js2["summary"].get("xx", {})),
            "unknown": unk2,
        }
    return res


def impl_words(fmt, raw):
    """count_words of the one entity of a file holding `raw`; returns [val, words]"""
    p = type(P.getParser(FNAME[fmt]))()
    p.readUnicode(raw)
    ents = [e for e in p.parse() if not isinstance(e, Junk)]
    if len(ents) != 1:
        return None
    return [ents[0].val, ents[0].count_words()]


def impl_words_literal(val):
    """Entry.count_words on a literal value (the base implementation, format independent)"""
    from compare_locales.parser.base import LiteralEntity
    return LiteralEntity("k", val, "k=" + val).count_words()


# ====================================================================== round 4
# ---------------------------------------------------------------------- Fluent: the AST-level model (Ops/C03.lean c03.ftl*)
def ftl_items(ents, msgs):
    from impl.fluentcheck import ser_entry
    out = []
    for e in ents:
        if isinstance(e, Junk):
            m = e.error_message()
            if m not in msgs:
                msgs.append(m)
            out.append("J %s %d" % (key_wire(e.key), msgs.index(m)))
        else:
            out.append("E %s %s" % (key_wire(e.key), ser_entry(e.entry)))
    return out


def ftl_line(ref_ents, l10n_ents, msgs):
    """`c03.ftlcmp` line: the comparison of two Fluent files from their fluent.syntax ASTs alone"""
    msgs = list(msgs)
    return " ".join(["c03.ftlcmp", str(len(ref_ents)), str(len(l10n_ents))] + ftl_items(ref_ents, msgs) + ftl_items(l10n_ents, msgs))


def impl_ftl_pool(text):
    """every entity of one Fluent file: wire AST, count_words, and the matrix of `equals` / FluentAttribute.equals"""
    from impl.fluentcheck import ser_entry
    p = type(P.getParser("a.ftl"))()
    p.readUnicode(text)
    ents = [e for e in p.parse() if not isinstance(e, Junk)]
    out = {"keys": [e.key for e in ents], "ser": [ser_entry(e.entry) for e in ents], "words": [e.count_words() for e in ents],
           "eq": [], "attrs": []}
    for a in ents:
        row, arow = [], []
        for b in ents:
            row.append(1 if a.equals(b) else 0)
            arow.append([1 if x.equals(y) else 0 for x, y in zip(a.attributes, b.attributes)])
        out["eq"].append(row)
        out["attrs"].append(arow)
    return out


# ---------------------------------------------------------------------- one comparer, a sequence of jobs (c03.sess)
CAPS = {"properties": P.PropertiesParser.capabilities, "dtd": P.DTDParser.capabilities, "ini": P.IniParser.capabilities,
        "inc": P.DefinesParser.capabilities, "ftl": P.FluentParser.capabilities, "po": P.PoParser.capabilities,
        "android": P.AndroidParser.capabilities}
CHECK_RE = re.compile(r" at line \d+, column \d+ for (.*)$", re.S)


def data_wire(d):
    if d is None:
        return "-"
    if isinstance(d, (tuple, list)):
        return "T %d %s" % (len(d), " ".join("-" if x is None else "t:" + codes(x) for x in d))
    return "t:" + codes(d)


def mk_filter(files, rules):
    """rules: [[file index | -1, "*" | None | str | [msgid, msgctxt], verdict]]; first match wins, "error" otherwise"""
    def filt(file, entity=None):
        for fi, sel, ret in rules:
            if fi != -1:
                g = files[fi]
                if (g.file, g.module, g.locale) != (file.file, file.module, file.locale):
                    continue
            if sel != "*":
                want = tuple(sel) if isinstance(sel, list) else sel
                if not (type(entity) is type(want) and entity == want):
                    continue
            return ret
        return "error"
    return filt


def ents_wire(es):
    return " ".join("%s %d %d %d %d" % tuple(e) for e in es)


def note_of(cat, data, keymap, msgs):
    if cat == "missingEntity":
        return "M:" + key_wire(tuple(data) if isinstance(data, (list, tuple)) else data)
    if cat == "obsoleteEntity":
        return "O:" + key_wire(tuple(data) if isinstance(data, (list, tuple)) else data)
    if cat in ("missingFile", "obsoleteFile"):
        return ("F:" if cat == "missingFile" else "R:") + "file"
    lvl = "E" if cat == "error" else "W"
    m = re.match(r"^(.*) occurs (\d+) times$", data, re.S)
    if data == "Parser error in en-US":
        return lvl + ":refjunk"
    if data in msgs:
        return lvl + ":junk:%d" % msgs.index(data)
    if m and m.group(1) in keymap:
        return lvl + ":dup:%s:%s" % (keymap[m.group(1)], m.group(2))
    if CHECK_RE.search(data):
        return lvl + ":check"
    return lvl + ":other"


class _Session:
    """ONE ContentComparer (its ObserverList and project observers) and the jobs of `spec`, run one at a time (`job(n)`).

    Per job it records what the oracle needs — the notifications the comparer raised (at ObserverList.notify), the stats it
    pushed (ObserverList.updateStats), the classification hooks — and the tokens of the job for the driver line."""

    def __init__(self, spec, d):
        from compare_locales.compare import content as content_mod
        self.content_mod = content_mod
        self.spec, self.d = spec, d
        shutil.rmtree(d, ignore_errors=True)
        os.makedirs(d)
        self.files = files = []
        for f in spec["files"]:
            full = os.path.join(d, f["path"])
            if f.get("text") is not None:
                os.makedirs(os.path.dirname(full), exist_ok=True)
                with open(full, "w", encoding="utf-8", newline="") as fh:
                    fh.write(f["text"])
            elif f.get("dir"):
                os.makedirs(full, exist_ok=True)
            files.append(File(full, f["file"], module=f["module"], locale=f["locale"]))
        quiet = spec["quiet"]
        self.cc = cc = RecordingComparer()
        cc.observers.quiet = quiet
        for rules in spec["observers"]:
            cc.observers.append(Observer(quiet=quiet, filter=None if rules is None else mk_filter(files, rules)))
        self.log, self.pushes = log, pushes = [], []
        real_notify, real_update = cc.observers.notify, cc.observers.updateStats

        def notify(category, file, data):
            rv = real_notify(category, file, data)
            log.append((category, file, data, rv))
            return rv

        def update(file, stats):
            pushes.append((file, dict(stats)))
            return real_update(file, stats)
        cc.observers.notify, cc.observers.updateStats = notify, update

        toks = [str(quiet), "F", str(len(files))]
        for f in files:
            toks += ["t:" + codes(f.file), "-" if f.module is None else "t:" + codes(f.module), "-" if f.locale is None else "t:" + codes(f.locale)]
        toks += ["O", str(len(spec["observers"]))]
        for rules in spec["observers"]:
            if rules is None:
                toks.append("N")
            else:
                toks += ["R", str(len(rules))]
                for fi, sel, ret in rules:
                    toks += ["*" if fi == -1 else str(fi), "*" if sel == "*" else data_wire(sel), ret[0]]
        self.head = toks                      # comparer header of the driver line
        self.jtoks = {}                       # job number -> tokens
        self.jobs_out = {}                    # job number -> what the oracle looks at
        self.outcomes = {}                    # job number -> merge outcome
        self.order = []                       # job numbers in call order

    def job(self, n):
        from impl import pipeline as PL
        content_mod = self.content_mod
        files, cc, log, pushes, d = self.files, self.cc, self.log, self.pushes, self.d
        job = self.spec["jobs"][n]
        saved = (content_mod.shutil, content_mod.codecs)
        ref, l10n = files[job["ref"]], files[job["l10n"]]
        mergep = os.path.join(d, "merge-%d" % n, os.path.basename(l10n.file)) if job["merge"] else None
        P.Junk.junkid = 0
        keymap, msgs = {}, []
        jt = [job["op"], str(job["ref"]), str(job["l10n"]), "1" if job["merge"] else "0"]
        # ---- the model's input, computed BEFORE the real call from a parser of our own
        if job["op"] != "rm":
            try:
                parser = type(P.getParser(ref.file))()
            except UserWarning:
                parser = None
            if parser is None:
                jt.append("np")
            else:
                caps = parser.capabilities
                body = None
                try:
                    parser.readFile(ref)
                    ref_text = parser.ctx.contents
                    ref_ents = None if job["level"] == "text" else list(parser.parse())
                except Exception as e:
                    body = ["re"] + ([str(caps)] if job["op"] == "add" else []) + ["t:" + codes(str(e))]
                if body is None and job["op"] == "cmp":
                    try:
                        parser.readFile(l10n)
                        l10n_text = parser.ctx.contents
                        l10n_ents = None if job["level"] == "text" else list(parser.parse())
                    except Exception as e:
                        body = ["le", "t:" + codes(str(e))]
                if body is None and job["level"] == "text":
                    body = ["tx", job["fmt"], "t:" + codes(ref_text)] + (["t:" + codes(l10n_text)] if job["op"] == "cmp" else [])
                elif body is None and job["op"] == "add":
                    body = ["en", str(caps), str(len(ref_ents)), ents_wire(describe(ref_ents, [], []))]
                    for e in ref_ents:
                        keymap[str(e.key)] = key_wire(e.key)
                elif body is None:
                    reps = []
                    dref = describe(ref_ents, reps, msgs)
                    dl10n = describe(l10n_ents, reps, msgs)
                    for e in ref_ents + l10n_ents:
                        keymap[str(e.key)] = key_wire(e.key)
                    body = ["en", str(len(dref)), str(len(dl10n)), ents_wire(dref), ents_wire(dl10n), None]   # checks: after the call
                jt += body
        # ---- the real call
        P.Junk.junkid = 0
        nlog, npush = len(log), len(pushes)
        cc.hooks = {"changed": [], "unchanged": []}
        mlog = []
        content_mod.shutil, content_mod.codecs = PL._Shutil(mlog), PL._Codecs(mlog)
        try:
            if job["op"] == "cmp":
                cc.compare(ref, l10n, mergep)
            elif job["op"] == "add":
                cc.add(ref, l10n, mergep)
            else:
                cc.remove(ref, l10n, mergep)
        finally:
            content_mod.shutil, content_mod.codecs = saved
        l10n_bytes = b""
        if os.path.isfile(l10n.fullpath):
            with open(l10n.fullpath, "rb") as fh:
                l10n_bytes = fh.read()
        self.outcomes[n] = PL.merge_outcome(mlog, mergep, ref.fullpath, l10n.fullpath, l10n_bytes)
        mine = log[nlog:]
        if jt and jt[-1] is None:
            # the checker's messages, grouped by the reference key they name, in the order raised
            per = {}
            for cat, f, data, rv in mine:
                m = CHECK_RE.search(data) if (cat in ("error", "warning") and isinstance(data, str)) else None
                if m and m.group(1) in keymap:
                    per.setdefault(keymap[m.group(1)], []).append(("e" if cat == "error" else "w") + " t:" + codes(data))
            chk = [str(len(per))]
            for k, items in per.items():
                chk += [k, str(len(items))] + items
            jt[-1] = " ".join([str(len(msgs))] + ["t:" + codes(m) for m in msgs] + chk)
        self.jtoks[n] = jt
        self.order.append(n)
        self.jobs_out[n] = {
            "notes": [[files.index(f), note_of(cat, data, keymap, msgs), rv] for cat, f, data, rv in mine],
            "pushes": [[files.index(f), st] for f, st in pushes[npush:]],
            "hooks": cc.hooks, "body": jt[4] if len(jt) > 4 else "rm",
        }

    def observers_canon(self):
        from impl.observer import show_obs
        return "|L " + show_obs(self.cc.observers) + "".join(" |O " + show_obs(o) for o in self.cc.observers)

    def summary(self):
        return {"L": {str(k): dict(v) for k, v in self.cc.observers.summary.items()},
                "O": [{str(k): dict(v) for k, v in o.summary.items()} for o in self.cc.observers]}


def impl_session(spec):
    """ONE ContentComparer (its ObserverList and project observers) through the jobs of `spec`.

    Returns the driver line (`c03.sess`), the canonical final state, and per job what the oracle needs: the notifications the
    comparer raised (recorded at ObserverList.notify), the stats it pushed (ObserverList.updateStats), the classification hooks."""
    s = _Session(spec, os.path.join(workdir(), "sess"))
    for n in range(len(spec["jobs"])):
        s.job(n)
    toks = ["c03.sess"] + s.head + ["J", str(len(spec["jobs"]))]
    for n in s.order:
        toks += s.jtoks[n]
    canon = "ok m=" + ",".join(s.outcomes[n] for n in s.order) + " " + s.observers_canon()
    return {"line": " ".join(" ".join(toks).split()), "canon": canon, "jobs": [s.jobs_out[n] for n in s.order],
            "summary": s.summary()}


# ====================================================================== round 5: ONE PROCESS, a history of calls (c03.proc)
def impl_xhistory(specs, calls):
    """several comparers (`specs`, as for impl_session) in THIS process; `calls` = [[comparer, job number]] in call order.

    Returns the `c03.proc` driver line, the canonical final state of every comparer, and per comparer what impl_session
    returns (`jobs`: by job number; a job that was not called is None)."""
    root = os.path.join(workdir(), "proc")
    shutil.rmtree(root, ignore_errors=True)
    sessions = [_Session(spec, os.path.join(root, "c%d" % i)) for i, spec in enumerate(specs)]
    for c, n in calls:
        sessions[c].job(n)
    toks = ["c03.proc", "C", str(len(sessions))]
    for s in sessions:
        toks += s.head
    toks += ["H", str(len(calls))]
    for c, n in calls:
        toks += [str(c)] + sessions[c].jtoks[n]
    canon = "ok m=" + ",".join(sessions[c].outcomes[n] for c, n in calls) + "".join(" |C " + s.observers_canon() for s in sessions)
    return {"line": " ".join(" ".join(toks).split()), "canon": canon,
            "sessions": [{"jobs": [s.jobs_out.get(n) for n in range(len(s.spec["jobs"]))], "summary": s.summary()} for s in sessions]}


def _isolated(fn, args, mode, timeout=60.0):
    """run impl.compare.<fn>(*args) in a process that has executed NO job before.

    mode "fork": a child forked from this worker, which itself only imports and forks (it never parses, compares or counts);
    mode "spawn": a new interpreter.  Returns {"r": …} or {"exc": …} like the pool protocol."""
    import json
    import sys
    if mode == "spawn":
        import subprocess
        code = ("import sys, json, warnings\nwarnings.filterwarnings('ignore')\nfrom impl import compare as M\n"
                "a = json.load(sys.stdin)\nout = sys.stdout\nsys.stdout = sys.stderr\n"
                "try:\n    r = {'r': getattr(M, a[0])(*a[1])}\n"
                "except BaseException as e:\n    r = {'exc': type(e).__name__, 'msg': str(e)[:300]}\n"
                "M.drop_workdir()\nout.write(json.dumps(r))\n")
        env = dict(os.environ)
        env.pop("VERIF_IMPLCOV_DIR", None)
        try:
            p = subprocess.run([sys.executable, "-W", "ignore", "-c", code], input=json.dumps([fn, args]).encode(),
                               stdout=subprocess.PIPE, stderr=subprocess.DEVNULL, env=env, timeout=timeout)
            return json.loads(p.stdout)
        except subprocess.TimeoutExpired:
            return {"exc": "Hang", "msg": "no result within the deadline"}
        except ValueError:
            return {"exc": "Crash", "msg": "the fresh interpreter returned nothing"}
    import select
    r, w = os.pipe()
    pid = os.fork()
    if pid == 0:
        code = 1
        try:
            os.close(r)
            global _dir
            _dir = None
            try:
                res = {"r": globals()[fn](*args)}
            except BaseException as e:      # noqa: classify every failure, as the pool worker does
                res = {"exc": type(e).__name__, "msg": str(e)[:300]}
            data = json.dumps(res).encode()
            while data:
                data = data[os.write(w, data):]
            drop_workdir()
            covdir = os.environ.get("VERIF_IMPLCOV_DIR")
            if covdir:
                try:
                    from lib import implcov
                    implcov.dump(covdir)
                except Exception:
                    pass
            code = 0
        finally:
            os._exit(code)
    os.close(w)
    buf = b""
    import time
    deadline = time.monotonic() + timeout
    try:
        while True:
            left = deadline - time.monotonic()
            if left <= 0 or not select.select([r], [], [], left)[0]:
                os.kill(pid, 9)
                return {"exc": "Hang", "msg": "no result within the deadline"}
            chunk = os.read(r, 1 << 16)
            if not chunk:
                break
            buf += chunk
    finally:
        os.close(r)
        try:
            os.waitpid(pid, 0)
        except OSError:
            pass
    try:
        return json.loads(buf)
    except ValueError:
        return {"exc": "Crash", "msg": "the forked worker returned nothing"}


def drop_workdir():
    global _dir
    if _dir is not None:
        shutil.rmtree(_dir, ignore_errors=True)
        _dir = None


def impl_xcase(specs, calls, spawn=()):
    """a history in a process of its own, and every call of it ALONE in a process of its own (the same comparer configuration,
    the same files): `hist` = impl_xhistory(specs, calls), `fresh[i]` = the i-th call as the first call of a fresh process.
    `spawn`: positions of calls whose fresh process is a new interpreter instead of a fork of this (job-free) worker."""
    hist = _isolated("impl_xhistory", [specs, calls], "fork")
    fresh = []
    for i, (c, n) in enumerate(calls):
        one = dict(specs[c])
        one["jobs"] = [specs[c]["jobs"][n]]
        fresh.append(_isolated("impl_xhistory", [[one], [[0, 0]]], "spawn" if i in spawn else "fork"))
    return {"hist": hist, "fresh": fresh}


def impl_keyed(fmt, text, probes, nitems=None):
    """`x in entities`, `entities[x]` on the KeyedTuple of a parsed file, for str / tuple / int / entity-object / list arguments"""
    p = type(P.getParser(FNAME[fmt]))()
    p.readUnicode(text)
    ents = p.parse()
    p.readUnicode(text)
    other = p.parse()          # entity objects of another tuple
    desc = describe(list(ents), [], [])
    head = "c03.keyed %d %s" % (len(desc), ents_wire(desc))
    out = []
    for pr in probes:
        if pr[0] == "k":
            arg = tuple(pr[1]) if isinstance(pr[1], list) else pr[1]
            tok = "k " + key_wire(arg)
        elif pr[0] == "i":
            arg, tok = pr[1], "i %d" % pr[1]
        elif pr[0] == "o":
            arg = ents[pr[1]] if pr[1] < len(ents) else (other[0] if len(other) else object())
            tok = "o %d" % pr[1]
        else:
            arg, tok = ["unhashable"], "u"
        c = 1 if (arg in ents) else 0
        try:
            got = ents[arg]
            idx = next(i for i, e in enumerate(ents) if e is got)
            g = "item %d" % idx
        except (TypeError, IndexError) as e:
            g = type(e).__name__
        out.append([" ".join((head + " " + tok).split()), "%d %s" % (c, g), pr])
    return out

"""Adapters around the real parsers; results in the canonical form of Ops/C01.lean."""
import warnings

warnings.filterwarnings("ignore")

from compare_locales import parser as P
from compare_locales.parser.base import Entity, Comment, Whitespace, Junk
from compare_locales.parser.ini import IniSection
from compare_locales.parser.defines import DefinesInstruction

FNAME = {"properties": "a.properties", "dtd": "a.dtd", "ini": "a.ini", "inc": "a.inc", "po": "a.po",
         "ftl": "a.ftl", "android": "strings.xml"}


def get_parser(fmt):
    # a fresh parser object of the same class: the shared singletons are exercised by C18
    return type(P.getParser(FNAME[fmt]))()


def kind_of(e):
    if isinstance(e, Junk):
        return "J"
    if isinstance(e, Entity):
        return "E"
    if isinstance(e, IniSection):
        return "S"
    if isinstance(e, DefinesInstruction):
        return "I"
    if isinstance(e, Whitespace):
        return "W"
    if isinstance(e, Comment):
        return "C"
    return "?"


def span2(x):
    if x is None:
        return "-1 -1"
    return "%d %d" % (x[0], x[1])


def show_entry(e):
    k = kind_of(e)
    if k == "J":
        full = e.span[0]
    else:
        full = e._span_start()
    pc = getattr(e, "pre_comment", None)
    return "%s %d %d %d %s %s %s" % (
        k, full, e.span[0], e.span[1], span2(getattr(e, "key_span", None)),
        span2(getattr(e, "val_span", None)), span2(pc.span if pc is not None else None))


def impl_parse(fmt, text, loc=False, limit=None):
    p = get_parser(fmt)
    p.readUnicode(text)
    it = p.walk(only_localizable=True) if loc == "walk-loc" else (iter(p) if loc else p.walk())
    out = ["done"]
    n = 0
    limit = limit or (2 * len(text) + 8)
    for e in it:
        out.append(show_entry(e))
        n += 1
        if n > limit:          # a walk that yields more entries than characters does not terminate
            out[0] = "runaway"
            break
    return " | ".join(out)


def impl_parse_full(fmt, text):
    """full walk plus everything the C01 oracle needs, computed from the real objects"""
    p = get_parser(fmt)
    p.readUnicode(text)
    ents = []
    n = 0
    runaway = False
    for e in p.walk():
        ents.append(e)
        n += 1
        if n > 2 * len(text) + 8:
            runaway = True
            break
    alls = [e.all for e in ents]
    shown = [show_entry(e) for e in ents]
    loc = []
    if not runaway:
        p2 = get_parser(fmt)
        p2.readUnicode(text)
        loc = [show_entry(e) for e in p2]
    inside = True
    for e in ents:
        if kind_of(e) == "E":
            try:
                key = e.key
                rv = e.raw_val
                a = e.all
                ks = e.key_span
                if not (e.span[0] <= ks[0] <= ks[1] <= e.span[1]):
                    inside = False
                if rv is not None and rv not in a:
                    inside = False
            except Exception:
                inside = False
    return {"canon": " | ".join(["runaway" if runaway else "done"] + shown), "alls": alls, "loc": loc,
            "inside": inside}


def fluent_body(text):
    from fluent.syntax import FluentParser as FTLParser, ast as ftl
    res = FTLParser().parse(text)
    body = []
    contract = True
    last = 0
    for entry in res.body:
        s, e = entry.span.start, entry.span.end
        if not (last <= s <= e <= len(text)):
            contract = False
        last = e
        if isinstance(entry, ftl.Term):
            ks, ke = entry.id.span.start - 1, entry.id.span.end
            k = "T"
        elif isinstance(entry, ftl.Message):
            ks, ke = entry.id.span.start, entry.id.span.end
            k = "M"
        elif isinstance(entry, ftl.Junk):
            k = "J"
            ks = ke = -1
            if entry.content != text[s:e]:
                contract = False
        elif isinstance(entry, ftl.BaseComment):
            k = "C"
            ks = ke = -1
        else:
            k = "O"
            ks = ke = -1
        if k in "MT" and entry.value is not None:
            vs, ve = entry.value.span.start, entry.value.span.end
        else:
            vs = ve = -1
        body.append("%s %d %d %d %d %d %d" % (k, s, e, ks, ke, vs, ve))
    return body, contract


def impl_fluent(text):
    body, contract = fluent_body(text)
    full = impl_parse_full("ftl", text)
    full["body"] = " ".join(body)
    full["contract"] = contract
    return full


# ---------------------------------------------------------------- C01 round 4 (additive)
def impl_session(fmt, cmds):
    """one parser OBJECT over a call sequence: ["R", text] = readUnicode, ["W", 0|1] = walk / __iter__.
    Returns the canonical results of the walks (Ops/C01.lean opSess) and, per walk, what the oracle needs."""
    p = get_parser(fmt)
    walks = []
    text = None
    for c in cmds:
        if c[0] == "R":
            text = c[1]
            p.readUnicode(text)
            continue
        loc = bool(c[1])
        it = iter(p) if loc else p.walk()
        out = ["done"]
        n = 0
        limit = 2 * len(text or "") + 8
        kinds = []
        joined = []
        for e in it:
            out.append(show_entry(e))
            kinds.append(kind_of(e))
            joined.append(e.all)
            n += 1
            if n > limit:
                out[0] = "runaway"
                break
        walks.append({"canon": " | ".join(out), "loc": loc, "text": text, "n": n, "joined": "".join(joined),
                      "fel": getattr(p.ctx, "filter_empty_lines", None) if p.ctx is not None else None})
    return {"canon": " || ".join(w["canon"] for w in walks), "walks": walks}


def fluent_body_c(text):
    """body of fluent.syntax with the junk `content` strings, and the contract of Ops/C01.lean contractB,
    evaluated independently on the real AST"""
    from fluent.syntax import FluentParser as FTLParser, ast as ftl
    res = FTLParser().parse(text)
    toks = []
    ok = True
    last = 0
    for entry in res.body:
        s, e = entry.span.start, entry.span.end
        if not (last <= s <= e <= len(text)):
            ok = False
        last = e
        content = ""
        ks = ke = vs = ve = -1
        if isinstance(entry, ftl.Term):
            k = "T"
            ks, ke = entry.id.span.start - 1, entry.id.span.end
        elif isinstance(entry, ftl.Message):
            k = "M"
            ks, ke = entry.id.span.start, entry.id.span.end
        elif isinstance(entry, ftl.Junk):
            k = "J"
            content = entry.content
            if content != text[s:e]:
                ok = False
        elif isinstance(entry, ftl.BaseComment):
            k = "C"
        else:
            k = "O"
            if s != e:
                ok = False
        if k in "MT":
            if entry.value is not None:
                vs, ve = entry.value.span.start, entry.value.span.end
                if not (s <= vs <= ve <= e):
                    ok = False
            if not (s <= ks <= ke <= e):
                ok = False
        toks.append("%s %d %d %d %d %d %d t:%s" % (k, s, e, ks, ke, vs, ve, ",".join(str(ord(c)) for c in content)))
    return " ".join(toks), ok


def impl_fluent_c(text):
    full = impl_fluent(text)
    bodyc, ok = fluent_body_c(text)
    full["bodyc"] = bodyc
    full["contract2"] = ok
    return full


def impl_noctx(fmt):
    """walk()/iter() of a parser object that never loaded anything"""
    p = get_parser(fmt)
    return {"full": [show_entry(e) for e in p.walk()], "loc": [show_entry(e) for e in p]}


def _t(s):
    return "t:" + ",".join(str(ord(c)) for c in s)


def impl_po_strings(text):
    """evaluated msgid / msgctxt / msgstr of every PO entity, in the form of Ops/C01.lean opPoStrings"""
    p = get_parser("po")
    p.readUnicode(text)
    out = []
    n = 0
    for e in p.walk():
        n += 1
        if n > 2 * len(text) + 8:
            break
        if kind_of(e) == "E":
            msgid, msgctxt = e.stringlist_key
            out.append([e.span[0], "%s %s %s" % (_t(msgid), "None" if msgctxt is None else _t(msgctxt), _t(e.stringlist_val))])
    return out


# ---------------------------------------------------------------- round 5 (additive): HISTORIES on one parser object
# A history is a list of operations on ONE long-lived parser object; walk()/iter() results are generator OBJECTS that
# may be consumed partially, abandoned, kept suspended, interleaved.  Operations:
#   ["R", text] readUnicode      ["RC", text] readContents(utf-8 bytes)      ["RF", text] readFile(temp file)
#   ["W", v]                 a complete pass: list(p.walk()) (v=0), list(p) (v=1), list(p.walk(only_localizable=True)) (v=2)
#   ["P", v, k, how]         a NEW pass of which only k entries are consumed and which is then abandoned; how =
#                            next | close | keep | break | zip | zipl | islice   (zipl = zip(gen, range(k)): pulls k+1 entries)
#   ["K"]                    kt = p.parse(): the entries of the KeyedTuple and the key lookups on it
#   ["G", v] ["N", g, k] ["D", g] ["X", g]   generator object g (numbered in order of "G"): create, k x next, list(g), close
# Every consuming operation (W, P, K, N, D) gives one record: status part/done/runaway + the entries it obtained.
class _Rec:
    """records what is pulled out of a generator (zip(gen, shorter) pulls one more entry than it shows)"""

    def __init__(self, it):
        self.it, self.seen, self.stopped = it, [], False

    def __iter__(self):
        return self

    def __next__(self):
        try:
            e = next(self.it)
        except StopIteration:
            self.stopped = True
            raise
        self.seen.append(e)
        return e


_tmp = {"dir": None, "n": 0}


def _read_file(p, text):
    import os
    import tempfile
    if _tmp["dir"] is None:
        _tmp["dir"] = tempfile.mkdtemp(prefix="verif-hist-")
    _tmp["n"] += 1
    path = os.path.join(_tmp["dir"], "f%d" % _tmp["n"])
    with open(path, "w", encoding="utf-8", newline="") as f:
        f.write(text)
    try:
        p.readFile(path)
    finally:
        os.unlink(path)


def _make(p, v):
    if v == 0:
        return p.walk()
    if v == 1:
        return iter(p)
    return p.walk(only_localizable=True)


def run_history(fmt, ops, show, lookups=True):
    import itertools
    p = get_parser(fmt)
    gens, kept, recs = [], [], []
    maxlen = 0

    def drain(it):
        got, status = [], "done"
        limit = 2 * maxlen + 50
        for e in it:
            got.append(e)
            if len(got) > limit:
                status = "runaway"
                break
        return got, status

    def take(it, k):
        got = []
        for _ in range(k):
            try:
                got.append(next(it))
            except StopIteration:
                return got, "done"
        return got, "part"

    for i, op in enumerate(ops):
        tag = op[0]
        rec = None
        if tag in ("R", "RC", "RF"):
            maxlen = max(maxlen, len(op[1]))
            if tag == "R":
                p.readUnicode(op[1])
            elif tag == "RC":
                p.readContents(op[1].encode("utf-8"))
            else:
                _read_file(p, op[1])
        elif tag == "W":
            got, status = drain(_make(p, op[1]))
            rec = {"status": status, "ents": got}
        elif tag == "K":
            kt = p.parse()
            got = list(kt)
            rec = {"status": "done", "ents": got}
            if lookups:
                look = []
                for j, e in enumerate(got):
                    try:
                        key = e.key
                        hit = kt[key]
                        idx = [n for n, x in enumerate(got) if x is hit]
                        look.append([j, idx[0] if idx else -1, bool(key in kt)])
                    except Exception as ex:                       # noqa
                        look.append([j, "%s: %s" % (type(ex).__name__, ex), False])
                rec["lookups"] = look
                rec["keys"] = [repr(getattr(e, "key", None)) for e in got]
        elif tag == "P":
            v, k, how = op[1], op[2], op[3]
            it = _make(p, v)
            if how in ("next", "close", "keep"):
                got, status = take(it, k)
                if how == "close":
                    it.close()
                elif how == "keep":
                    kept.append(it)
            elif how == "break":
                got, status = [], "part"
                if k > 0:
                    for e in it:
                        got.append(e)
                        if len(got) == k:
                            break
                    else:
                        status = "done"
            else:
                r = _Rec(it)
                if how == "zip":
                    for _ in zip(range(k), r):
                        pass
                elif how == "zipl":
                    for _ in zip(r, range(k)):
                        pass
                else:
                    list(itertools.islice(r, k))
                got, status = r.seen, ("done" if r.stopped else "part")
                del r
            del it
            rec = {"status": status, "ents": got}
        elif tag == "G":
            gens.append(_make(p, op[1]))
        elif tag == "N":
            got, status = take(gens[op[1]], op[2])
            rec = {"status": status, "ents": got}
        elif tag == "D":
            got, status = drain(gens[op[1]])
            rec = {"status": status, "ents": got}
        elif tag == "X":
            gens[op[1]].close()
        if rec is not None:
            rec["i"] = i
            rec["shown"] = [show(e) for e in rec["ents"]]
            recs.append(rec)
    return p, recs


def impl_history(fmt, ops):
    """C01: spans of every entry obtained by every consuming operation + their source texts; plus, for every text the
    history read, the full and the localizable view of a FRESH parser object (differential reference)"""
    p, recs = run_history(fmt, ops, show_entry)
    out = []
    for r in recs:
        o = {"i": r["i"], "status": r["status"], "shown": r["shown"], "joined": "".join(e.all for e in r["ents"]),
             "kinds": "".join(kind_of(e) for e in r["ents"])}
        if "lookups" in r:
            o["lookups"], o["keys"] = r["lookups"], r["keys"]
        out.append(o)
    fresh = {}
    for op in ops:
        if op[0] in ("R", "RC", "RF") and op[1] not in fresh:
            q = get_parser(fmt)
            q.readUnicode(op[1])
            limit = 2 * len(op[1]) + 50
            full = []
            for e in q.walk():
                full.append(e)
                if len(full) > limit:
                    break
            q2 = get_parser(fmt)
            q2.readUnicode(op[1])
            loc = []
            for e in q2:
                loc.append(e)
                if len(loc) > limit:
                    break
            fresh[op[1]] = {"full": [show_entry(e) for e in full], "loc": [show_entry(e) for e in loc],
                            "joined": "".join(e.all for e in full)}
    canon = " || ".join(" | ".join([("stuck" if r["status"] == "runaway" else r["status"])] + r["shown"]) for r in out)
    return {"recs": out, "fresh": fresh, "canon": canon}

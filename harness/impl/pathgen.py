"""Generators and independent references for C11/C12 (path patterns).

Nothing in this file looks at the Lean model or calls compare_locales: expected results are
known *by construction* (a pattern is built from atoms, a path is built by filling the wildcards)
or come from the small reference functions below, which state the property and nothing else.
"""
from lib.common import enc

LIT_SEGS = ["browser", "locales", "en-US", "toolkit", "a.b", "x+y", "f(1)", "$x", "[z]", "a b", "é",
            "^c", "q?", "w|w", "b\\c", "-", "_", "chrome", "values"]
AFFIX = ["", "", ".ftl", ".properties", "foo", "-", "x.", "a", "strings-", ".xml"]
STAR_FILL = ["", "a", "main", "x.y", "a-b", "é", "a b", "foo", ".ftl", "ftl", "aboutDialog", "xx"]
DIRS = ["d", "x", "y", "browser", "en-US", "zz", "a.b"]
LOCALES = ["de", "en-US", "fr", "sr-Latn", "he", "id-ID", "zh-Hant-TW", "es-419", "yi", "pt-BR", "ast", "he-IL", "he-Hebr-IL", "id-Latn"]
VARNAMES = ["l10n_base", "v", "w", "mozilla", "_x1", "Q"]
ROOTS = ["/r", "/r/x", "/", "/home/user/c++/app", "/builds/(work)/tree", "/src/l10n.central", "/a[b]/$x", "/r^/{q}", "/w|w/a?"]


def alt_roots(root):
    """roots 'just outside': what an unescaped regex metacharacter in the root would also accept"""
    out = set()
    if "." in root:
        out.add(root.replace(".", "X"))
    if "+" in root:
        out.add(root.replace("++", "").replace("+", ""))
        out.add(root.replace("c++", "ccc"))
    if "(" in root:
        out.add(root.replace("(", "").replace(")", ""))
    if "[" in root:
        out.add(root.replace("[b]", "b"))
    if "$" in root:
        out.add(root.replace("$", ""))
    if "^" in root:
        out.add(root.replace("^", ""))
    if "|" in root:
        out.add(root.split("|")[0])
    if "?" in root:
        out.add(root.replace("a?", ""))
    if "{" in root:
        out.add(root.replace("{q}", "q"))
    out.discard(root)
    return sorted(out)

LEGACY = {"he": "iw", "id": "in", "yi": "ji"}


# ------------------------------------------------------------------ references
def ref_android(loc):
    """Android resource qualifier of a BCP 47 tag: legacy language codes, ll[-rRR], else b+ form"""
    parts = loc.split("-")
    parts[0] = LEGACY.get(parts[0], parts[0])
    if len(parts) == 1:
        return parts[0]
    if len(parts) == 2 and len(parts[1]) == 2 and parts[1].isascii() and parts[1].isalpha() and parts[1].isupper():
        return parts[0] + "-r" + parts[1]
    return "b+" + "+".join(parts)


def ref_expand(value, env, gone=()):
    """plain recursive substitution of {name}; only used on acyclic, fully bound environments"""
    out, i = "", 0
    while i < len(value):
        if value[i] == "{":
            j = value.index("}", i)
            name = value[i + 1:j].strip()
            assert name in env and name not in gone, (name, value)
            out += ref_expand(env[name], env, gone + (name,))
            i = j + 1
        else:
            out += value[i]
            i += 1
    return out


def ref_match(tokens, s):
    """Does the whole of `s` match?  tokens: ('L', text) | ('S',) one star: any run without '/' |
    ('D', '/') zero or more whole directories `name/` | ('D', '') trailing `**`: the rest of the path."""
    def go(i, pos):
        if i == len(tokens):
            return pos == len(s)
        t = tokens[i]
        if t[0] == "L":
            return s.startswith(t[1], pos) and go(i + 1, pos + len(t[1]))
        if t[0] == "S":
            end = pos
            while True:
                if go(i + 1, end):
                    return True
                if end < len(s) and s[end] != "/":
                    end += 1
                else:
                    return False
        if t[1] == "":
            return True         # trailing `**`: whatever is left
        # whole directories
        if go(i + 1, pos):
            return True
        end = pos
        while True:
            nxt = s.find("/", end)
            if nxt < 0 or nxt == end:
                return False
            end = nxt + 1
            if go(i + 1, end):
                return True
    return go(0, 0)


# ------------------------------------------------------------------ well-formed pairs
class Side:
    """one pattern of a pair: segments of atoms ('t', text) ('v', name) ('a',) ('s', i) ('d', i)"""

    def __init__(self):
        self.segs = []
        self.env = {}
        self.withenv = None
        self.root = None

    def pattern(self):
        def atom(a):
            if a[0] == "t":
                return a[1]
            if a[0] == "v":
                return "{%s}" % a[1]
            if a[0] == "a":
                return "{android_locale}"
            return "*" if a[0] == "s" else "**"
        return "/".join("".join(atom(a) for a in seg) for seg in self.segs)

    def full_env(self):
        e = dict(self.env)
        if self.withenv is not None:
            e.update(self.withenv)
        return e

    def spec(self, paths=()):
        return {"pat": self.pattern(), "env": sorted(self.env.items()), "root": self.root,
                "with": None if self.withenv is None else sorted(self.withenv.items()), "paths": list(paths)}

    def atoms(self):
        out = []
        for i, seg in enumerate(self.segs):
            if i:
                out.append(("t", "/"))
            out.extend(seg)
        return out

    def first_text(self, env):
        """expansion of what Python sees as the first node (None if that is a wildcard)"""
        ats = self.atoms()
        if not ats:
            return ""
        a = ats[0]
        if a[0] == "t":
            # the first node is the literal up to the first special
            out = ""
            for b in ats:
                if b[0] != "t":
                    break
                out += b[1]
            return out
        if a[0] == "v":
            return ref_expand(env[a[1]], env, (a[1],))
        if a[0] == "a":
            return ref_android(ref_expand(env["locale"], env, ()))
        return None

    def rootstr(self, env):
        if self.root is None:
            return ""
        ft = self.first_text(env)
        if ft is not None and ft.startswith("/"):
            return ""
        return "//" if self.root == "/" else self.root + "/"

    def normalize_fills(self, fills):
        """a star that is a whole segment is filled with a non-empty name (paths have no empty segments)"""
        for seg in self.segs:
            if len(seg) == 1 and seg[0][0] == "s" and fills.get(seg[0][1]) == "":
                fills[seg[0][1]] = "n"
        return fills

    def fill(self, fills, upto_first_wildcard=False):
        env = self.full_env()
        out = self.rootstr(env)
        ats = self.atoms()
        i = 0
        while i < len(ats):
            a = ats[i]
            if a[0] == "t":
                out += a[1]
            elif a[0] == "v":
                out += ref_expand(env[a[1]], env, (a[1],))
            elif a[0] == "a":
                out += ref_android(ref_expand(env["locale"], env, ()))
            else:
                if upto_first_wildcard:
                    return out
                out += fills[a[1]]
                if a[0] == "d" and i + 1 < len(ats):
                    i += 1          # the separator after `**` belongs to the wildcard
            i += 1
        return out

    def tokens(self):
        env = self.full_env()
        toks = []

        def lit(t):
            if toks and toks[-1][0] == "L":
                toks[-1] = ("L", toks[-1][1] + t)
            else:
                toks.append(("L", t))
        r = self.rootstr(env)
        if r:
            lit(r)
        ats = self.atoms()
        i = 0
        while i < len(ats):
            a = ats[i]
            if a[0] == "t":
                lit(a[1])
            elif a[0] == "v":
                lit(ref_expand(env[a[1]], env, (a[1],)))
            elif a[0] == "a":
                lit(ref_android(ref_expand(env["locale"], env, ())))
            elif a[0] == "s":
                toks.append(("S",))
            else:
                if i + 1 < len(ats):
                    assert ats[i + 1] == ("t", "/")
                    toks.append(("D", "/"))
                    i += 1
                else:
                    toks.append(("D", ""))
            i += 1
        return toks

    def expected_groups(self, fills):
        """groupdict by construction: wildcards as filled, every reachable variable -> its expansion"""
        env = self.full_env()
        d = {}
        nd = len([1 for a in self.atoms() if a[0] == "d"])
        for a in self.atoms():
            if a[0] == "s":
                d["s%d" % (a[1] + 1)] = fills[a[1]]
            elif a[0] == "d":
                d["s%d" % (a[1] + 1)] = fills[a[1]] or None

        def reach(name, gone):
            d[name] = ref_expand(env[name], env, gone + (name,))
            v = env[name]
            i = 0
            while "{" in v[i:]:
                i = v.index("{", i)
                j = v.index("}", i)
                reach(v[i + 1:j].strip(), gone + (name,))
                i = j
        android = False
        for a in self.atoms():
            if a[0] == "v" and a[1] not in d:
                reach(a[1], ())
            elif a[0] == "a":
                android = True
        if android:
            loc = ref_expand(env["locale"], env, ())
            d["android_locale"] = ref_android(loc)
            d.setdefault("locale", loc)
        return d


def _plain_atoms(rng, vars_avail, used, allow_android):
    n = rng.choice([1, 1, 1, 2, 3])
    out = []
    for _ in range(n):
        r = rng.random()
        if r < 0.55 or not vars_avail:
            out.append(("t", rng.choice(LIT_SEGS)))
        elif r < 0.65 and allow_android:
            out.append(("a",))
        else:
            out.append(("v", rng.choice(vars_avail)))
    return out


def gen_env(rng, side, names):
    """bind every used variable; acyclic, every name reachable at most once (top-level repeats are fine)"""
    env = {}
    locale = rng.choice(LOCALES)
    top = []
    for seg in side.segs:
        for a in seg:
            if a[0] == "v" and a[1] not in top:
                top.append(a[1])
    uses_android = any(a[0] == "a" for seg in side.segs for a in seg)
    reach = set(top)
    pool = [n for n in names if n not in reach]
    for name in top:
        if name == "locale":
            env[name] = locale
            continue
        r = rng.random()
        if r < 0.25 and pool:
            inner = pool.pop(rng.randrange(len(pool)))
            reach.add(inner)
            env[inner] = rng.choice(["q", "in/ner", locale, "m-c", "x.y"])
            env[name] = rng.choice(["{%s}x", "pre-{%s}", "{ %s }", "a/{%s}/b", "{%s}"]) % inner
        elif r < 0.45:
            env[name] = rng.choice(["/abs/l10n", "/abs", "rel/dir", "l10n-central", "../up"])
        else:
            env[name] = rng.choice(["val", "m-c", "x.y", "comm", "a+b", "(p)", locale])
    if uses_android or rng.random() < 0.3:
        if "locale" not in env:
            pool = [n for n in pool if n != "locale" and n not in env]
            if rng.random() < 0.15 and pool and "locale" not in reach:
                inner = pool.pop(rng.randrange(len(pool)))
                env[inner] = locale.split("-")[0]
                env["locale"] = "{%s}" % inner + locale[len(locale.split("-")[0]):]
            else:
                env["locale"] = locale
    return env


def gen_pair(rng, rooted_ok=True):
    """a pattern pair with the same wildcard sequence, environments, and the wildcard fills.
    kinds: 's' one star in a segment, 'd' `**` directory, 'x' two adjacent stars at the start of a segment (or right
    after a variable) followed by text, e.g. `**.ftl`, `{v}**-extra`: two single stars, NOT a directory wildcard"""
    nw = rng.choice([0, 1, 1, 2, 2, 2, 3])
    kinds = []
    for _ in range(nw):
        r = rng.random()
        if "d" not in kinds and r < 0.35:
            kinds.append("d")
        elif r < 0.5:
            kinds.append("x")
        else:
            kinds.append("s")
    trailing = bool(kinds) and kinds[-1] == "d" and rng.random() < 0.4
    names = VARNAMES + ["locale"]
    sides = []
    # wildcard indices: 'x' takes two
    widx = []
    n = 0
    for k in kinds:
        widx.append(n)
        n += 2 if k == "x" else 1
    for which in range(2):
        sd = Side()
        vars_avail = rng.sample(names, rng.randrange(0, 4))
        used = set()
        segs = []
        for j, k in enumerate(kinds):
            i = widx[j]
            lo = 0
            for _ in range(rng.choice([lo, 1, 1, 2]) if not (j == 0 and rng.random() < 0.1) else 0):
                segs.append(_plain_atoms(rng, vars_avail, used, True))
            if k == "d":
                # `**` may directly follow a variable (PATH_SPECIAL: "(?<![^/}])"), e.g. "{B}**/x" with B = "base/"
                segs.append([("v", "B"), ("d", i)] if rng.random() < 0.12 else [("d", i)])
            elif k == "x":
                pre = []
                r = rng.random()
                if r < 0.3 and vars_avail:
                    pre = [("v", rng.choice(vars_avail))]
                elif r < 0.4:
                    pre = [("t", rng.choice(["a", "foo", "x."]))]
                post = [("t", rng.choice([".ftl", "-extra", ".properties", ".x", "_y"]))]
                segs.append(pre + [("s", i), ("s", i + 1)] + post)
            else:
                pre = []
                post = []
                r = rng.random()
                if r < 0.5:
                    pre = [("t", rng.choice(AFFIX))]
                elif r < 0.6 and vars_avail:
                    pre = [("v", rng.choice(vars_avail)), ("t", rng.choice(["-", ".", "_"]))]
                r = rng.random()
                if r < 0.7:
                    post = [("t", rng.choice(AFFIX))]
                elif r < 0.8 and vars_avail:
                    post = [("t", rng.choice(["-", ".", "_"])), ("v", rng.choice(vars_avail))]
                segs.append([a for a in pre if a != ("t", "")] + [("s", i)] + [a for a in post if a != ("t", "")])
        if not (trailing and kinds):
            for _ in range(rng.choice([0, 1, 1, 2]) if kinds else rng.choice([1, 2, 3])):
                segs.append(_plain_atoms(rng, vars_avail, used, True))
        if not segs:
            segs.append([("t", "x")])
        if kinds and kinds[-1] == "d" and not trailing and segs[-1][-1] == ("d", widx[-1]):
            segs.append([("t", rng.choice(["f.ftl", "x"]))])
        sd.segs = segs
        env = gen_env(rng, sd, names)
        if "B" in env:
            env["B"] = rng.choice(["base/", "l10n/x/", "/abs/dir/"])
        # split into constructor env and with_env layer
        if rng.random() < 0.3 and env:
            ks = sorted(env)
            w = {k: env[k] for k in ks if rng.random() < 0.5}
            base = {k: v for k, v in env.items() if k not in w}
            for k in list(w):
                if rng.random() < 0.3:
                    base[k] = "overridden"
            sd.env, sd.withenv = base, w
        else:
            sd.env = env
        if rooted_ok and rng.random() < 0.35 and not first_is_wildcard(sd):
            sd.root = rng.choice(ROOTS)
        sides.append(sd)
    fills = {}
    for j, k in enumerate(kinds):
        i = widx[j]
        if k == "s":
            fills[i] = rng.choice(STAR_FILL)
        elif k == "x":
            # greedy: the first of two adjacent stars takes everything
            fills[i] = rng.choice(STAR_FILL)
            fills[i + 1] = ""
        elif trailing and j == len(kinds) - 1:
            fills[i] = rng.choice(["", "f", "x/y.ftl", "d/e/f", "a b"])
        else:
            fills[i] = "".join(rng.choice(DIRS) + "/" for _ in range(rng.choice([0, 1, 1, 2, 3])))
    return sides[0], sides[1], fills


def reachable_vars(side):
    """(direct, indirect) names the expansion of the pattern looks up"""
    env = side.full_env()
    direct, seen = [], []
    uses_android = False
    for a in side.atoms():
        if a[0] == "v" and a[1] not in direct:
            direct.append(a[1])
        elif a[0] == "a":
            uses_android = True

    def walk(name):
        if name in seen or name not in env:
            return
        seen.append(name)
        v = env[name]
        i = 0
        while "{" in v[i:]:
            i = v.index("{", i)
            j = v.index("}", i)
            walk(v[i + 1:j].strip())
            i = j
    for n in direct:
        walk(n)
    if uses_android:
        walk("locale")
    return direct, [n for n in seen if n not in direct]


def gen_sequence(rng):
    """a pair whose first side is rebound with `with_env` AFTER it has been used: returns
    (a0, a1, b, fills, rebound key) where a1 = a0.with_env({key: new value}); the key is preferably one the pattern
    uses only indirectly (through a nested variable or {android_locale})"""
    for _ in range(50):
        a0, b, fills = gen_pair(rng)
        if a0.withenv is not None:
            a0.env = a0.full_env()
            a0.withenv = None
        r = rng.random()
        if r < 0.5:
            # force the indirect use of `locale` through a nested variable
            if "l" in a0.env or "locale" in [x[1] for x in a0.atoms() if x[0] == "v"]:
                continue
            a0.segs.insert(rng.randrange(len(a0.segs)), [("v", "l")])
            if first_is_wildcard(a0):
                a0.root = None
            a0.env["l"] = rng.choice(["l10n/{locale}", "{locale}", "x-{ locale }-y", "{m}/q"])
            if "{m}" in a0.env["l"]:
                a0.env["m"] = "{locale}.d"
            a0.env.setdefault("locale", rng.choice(LOCALES))
        direct, indirect = reachable_vars(a0)
        cands = indirect if (indirect and rng.random() < 0.8) else direct + indirect
        cands = [c for c in cands if c != "B"]
        if not cands:
            continue
        key = rng.choice(cands)
        old = a0.env[key]
        if "{" in old:
            continue
        feeds_locale = False
        if "locale" in a0.env:
            todo, seen = [a0.env["locale"]], set()
            while todo:
                v = todo.pop()
                i = 0
                while "{" in v[i:]:
                    i = v.index("{", i)
                    j = v.index("}", i)
                    nm = v[i + 1:j].strip()
                    if nm not in seen and nm in a0.env:
                        seen.add(nm)
                        todo.append(a0.env[nm])
                    i = j
            feeds_locale = key in seen
        if key == "locale":
            new = rng.choice([x for x in LOCALES if x != old])
        elif feeds_locale:
            # the value becomes (part of) a locale code: keep it a language code
            new = rng.choice([x for x in ["fr", "nl", "ast", "de", "pt"] if x != old])
        else:
            new = rng.choice([x for x in ["other", "n.w", "zz-1", "q+q"] if x != old])
        a1 = Side()
        a1.segs = [list(sg) for sg in a0.segs]
        a1.env = dict(a0.env)
        a1.withenv = {key: new}
        a1.root = a0.root
        # the trailing segment check: inserting at the end must not follow a trailing `**`
        try:
            fl = b.normalize_fills(a0.normalize_fills(dict(fills)))
            if a0.fill(fl) == a1.fill(fl):
                continue
        except Exception:
            continue
        return a0, a1, b, fl, key
    return None


def first_is_wildcard(side):
    ats = side.atoms()
    return bool(ats) and ats[0][0] in ("s", "d")


def mutate_paths(rng, side, fills, path):
    """deliberately non-matching candidates (some still match: the reference decides)"""
    out = []
    slashes = [i for i, c in enumerate(path) if c == "/"]
    if slashes:
        i = rng.choice(slashes)
        out.append(("extra-dir", path[:i + 1] + "zz/" + path[i + 1:]))
    if not path.startswith("/"):
        out.append(("extra-dir-front", "zz/" + path))
    cand = [i for i, v in fills.items() if len(v) >= 2 and "/" not in v]
    if cand:
        i = rng.choice(cand)
        f2 = dict(fills)
        f2[i] = fills[i][:1] + "/" + fills[i][1:]
        out.append(("sep-in-star", side.fill(f2)))
    if path:
        out.append(("trunc-char", path[:-1]))
    if slashes:
        out.append(("trunc-seg", path[:slashes[-1]]))
        out.append(("trunc-seg-slash", path[:slashes[-1] + 1]))
    out.append(("ext-char", path + "x"))
    if not path.endswith("/"):
        out.append(("ext-seg", path + "/x"))
    if side.tokens()[-1:] != [("D", "")]:
        # (a trailing `**` takes whatever is left: no anchoring question there)
        out.append(("newline", path + "\n"))
    if path:
        i = rng.randrange(len(path))
        if path[i] not in "/\n":
            out.append(("changed-char", path[:i] + ("#" if path[i] != "#" else "%") + path[i + 1:]))
    if side.root is not None and side.root != "/" and path.startswith(side.root + "/"):
        for r in alt_roots(side.root):
            out.append(("root-meta", r + path[len(side.root):]))
        out.append(("root-outside", side.root + "x" + path[len(side.root):]))
    return [(k, p) for k, p in out if "//" not in p[1:] or "//" in path[1:]]


# ------------------------------------------------------------------ wild class (correspondence + generic laws)
WILD_TOK = ["a", "b/", "/", "*", "**", "**/", "{v}", "{ locale }", "{android_locale}", ".", "-", "{", "}", "x.ftl", "+",
            "(", "é", "{w}", "{v}", "{s1}", "{x", "en-US", "l10n/", "$", "\\", "{l10n_base}/"]
WILD_VAL = ["q", "de", "{w}", "{v}", "{v}x", "{locale}x", "a/*", "**/z", "{w}/{locale}", "/abs", "he", "sr-Latn",
            "{android_locale}", "en-US", "", "{ v }", "x{w}y{w}", "*"]
WILD_KEYS = ["v", "w", "locale", "l10n_base", "s1", "android_locale"]


def gen_wild(rng):
    import re
    while True:
        s = _gen_wild(rng)
        texts = [s["pat"]] + [v for _, v in s["env"]] + [v for _, v in (s["with"] or [])]
        # variable names outside ASCII are outside the model (str.isidentifier on non-ASCII)
        if not any(re.search(r"\{ *\w*[^\x00-\x7f]\w* *\}", t) for t in texts):
            return s


def _gen_wild(rng):
    n = rng.randrange(0, 7)
    toks = [rng.choice(WILD_TOK) for _ in range(n)]
    pat = "".join(toks)
    env = {}
    for _ in range(rng.choice([0, 1, 2, 2, 3])):
        env[rng.choice(WILD_KEYS)] = rng.choice(WILD_VAL)
    root = rng.choice([None, None, None, "/r", "/"])
    paths = []
    for _ in range(3):
        parts = []
        for t in toks:
            if t == "*":
                parts.append(rng.choice(["", "a", "xy", "a/b"]))
            elif t in ("**", "**/"):
                parts.append(rng.choice(["", "d/", "d/e/", "d"]))
            elif t.startswith("{") and t.endswith("}"):
                k = t[1:-1].strip()
                parts.append(rng.choice(["de", "q", "en-rUS", "b+sr+Latn", "iw", env.get(k, "zz"), "a/b"]))
            else:
                parts.append(t)
        p = "".join(parts)
        if root is not None and rng.random() < 0.7:
            p = ("//" if root == "/" else root + "/") + p
        if rng.random() < 0.1:
            p += "\n"
        paths.append(p)
    withenv = None
    if rng.random() < 0.2:
        withenv = {rng.choice(WILD_KEYS): rng.choice(WILD_VAL)}
    return {"pat": pat, "env": sorted(env.items()), "root": root, "with": None if withenv is None else sorted(withenv.items()),
            "paths": paths}


# ------------------------------------------------------------------ protocol lines
def margs(spec):
    root = spec.get("root")
    if root is None:
        r = "-"
    else:
        r = enc("//" if root == "/" else root + "/")
    env = spec.get("env") or []
    s = "%s %s %d" % (r, enc(spec["pat"]), len(env))
    for k, v in env:
        s += " %s %s" % (enc(k), enc(v))
    w = spec.get("with")
    if w is None:
        s += " -"
    else:
        s += " %d" % len(w)
        for k, v in w:
            s += " %s %s" % (enc(k), enc(v))
    return s


def paths_arg(paths):
    return "".join(" " + enc(p) for p in paths)

"""seedmatrix.py : run every seed against every check whose property is anchored in a file the seed changes
(in addition to the seed's own property, which seedbatch.py already ran); records outcomes in meta.json."""
import glob
import json
import os
import re
import subprocess
import sys

VERIF = os.path.dirname(os.path.dirname(os.path.abspath(__file__)))
anch = {}
for line in open(os.path.join(VERIF, "properties.jsonl")):
    p = json.loads(line)
    anch[p["id"]] = set(p["anchors"]["files"])
plan = []
for d in sorted(glob.glob(os.path.join(VERIF, "seeded", "*"))):
    m = json.load(open(os.path.join(d, "meta.json")))
    files = set(re.findall(r"^\+\+\+ b/(\S+)", open(os.path.join(d, "patch.diff")).read(), re.M))
    others = sorted(p for p, fs in anch.items() if fs & files and p != m["property"] and p not in m["caught_by"])
    if others:
        plan.append((d, m["property"], others))
print(sum(len(o) for _, _, o in plan), "runs planned")
if "--dry" in sys.argv:
    sys.exit(0)
for d, own, others in plan:
    out = subprocess.run([os.path.join(VERIF, "harness", "seedtest.sh"), own, d + "/patch.diff", d + "/demo.py"] + others,
                         stdout=subprocess.PIPE, stderr=subprocess.STDOUT).stdout.decode(errors="replace")
    m = json.load(open(os.path.join(d, "meta.json")))
    for c in others:
        mm = re.search(r"== check %s\n(.*?)(?=\n== |\Z)" % c, out, re.S)
        body = mm.group(1) if mm else ""
        if "VIOLATION" in body and "no-failing-input-found" in body:
            m["caught_by"][c] = "VIOLATION no-failing-input-found (proof/correspondence broke)"
        elif "VIOLATION" in body:
            m["caught_by"][c] = "VIOLATION with concrete failing input"
        elif "INFRA" in body:
            m["caught_by"][c] = "INFRA error"
        else:
            m["caught_by"][c] = "not affected / not caught (rc=0)"
    json.dump(m, open(os.path.join(d, "meta.json"), "w"), indent=1)
    print(os.path.basename(d), {c: m["caught_by"][c][:40] for c in others}, flush=True)

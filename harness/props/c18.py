"""C18 — Results do not depend on what was processed before."""
import hashlib
import itertools
import json
import os
import re
import shutil
import tempfile
from concurrent.futures import ThreadPoolExecutor

from lib import common as C
from lib import pool
from lib.runner import Outcome

ID = "C18"
LEAN_TARGETS = ["CLModel.Props.C18"]
M = "CLModel.Props.C18"
THEOREMS = [
    (M, "C18.junkKey_injective", "the key string of a Junk determines the counter value and the span it was built from"),
    (M, "C18.junk_keys_distinct", "all Junk objects returned by the parses of one run (any history, any start state) have pairwise distinct keys"),
    (M, "C18.junkid_only_in_keys", "a parse started with a higher counter yields the same entries with the junk ids shifted, nothing else changes"),
    (M, "C18.compare_natural", "the compare report (Counter, AddRemove, keyed lookups, action loop) commutes with every renaming of keys that is injective on the keys of the two files"),
    (M, "C18.report_independent", "under NoJunkLikeKeys the report of a file pair is string for string the same in every global state"),
    (M, "C18.out_independent", "outputs modulo junk-key renaming are independent of the global state (parse; compare under NoJunkLikeKeys)"),
    (M, "C18.run_independent", "the same for whole histories: the outputs of a history do not depend on the state it is started in"),
    (M, "C18.multi_file_union", "every compare of a multi-file run returns the report the pair gets alone in a fresh interpreter; any order of the files gives a permutation of the same reports"),
    (M, "C18.entities_survive", "what can be read off an entry (key, value, all, positions) is not changed by any later operations; re-reading it later returns the same"),
    (M, "C18.parsed_entities_survive", "in particular for the entries a parse of a singleton parser has just returned"),
    (M, "C18.report_depends_on_history_when_keys_clash", "negation witness: without NoJunkLikeKeys the report differs between a fresh and a used interpreter (finding F8)"),
]
PARTIAL = [
    "out_independent covers the operations of the model (parse for properties/dtd/ini/inc/po, compare for the formats with the base "
    "Checker); lint, merge, serialize, Fluent, Android, the DTD/properties checkers and the paths caches are covered by the "
    "history oracle only (fresh interpreter vs. used interpreter)",
    "multi_file_union is proved for the model's compare operation; the Observer's aggregation (details tree, summary sums), "
    "compareProjects and the filter cache are checked by the oracle only (all 24 orders of 4-file projects, two-locale projects)",
]
LEVEL_TEXT = ("Lean 4 theorems over an explicit model of the process-wide state (Junk.junkid, parser singletons, Context objects): "
              "reports are independent of the reachable state when no real key has the shape of a junk key, junk keys are pairwise "
              "distinct, the counter only shows in junk keys, entries survive later parses; the model is tied to the Python by "
              "running whole histories through both; an independent oracle compares every operation of 2-6 step histories over all "
              "seven formats with the same operation in a fresh interpreter, all orders of 4-file projects with the union of the "
              "single-file reports, and held entity objects before/after the parser is reused")
LEVEL_NOTE = ("trusted: Lean kernel; hand-written state model (CLModel/History/State.lean) validated by history correspondence; "
              "state outside the model (checker classes, sax handlers, regex caches, ProjectConfig cache, fluent/minidom parsers) is "
              "covered by execution only; hypothesis NoClash is necessary (negation witness + the real code shows finding F8 there)")
TECHNIQUE = "Lean 4 proof over an explicit global-state model + history-vs-fresh-interpreter differential oracle"
TRUSTED = [
    "hand-written model CLModel/History/State.lean of Junk.junkid, parser singletons, Context objects, findDuplicates and "
    "ContentComparer.compare with the base Checker (tied by the `c18.run` history correspondence)",
    "P.walk of CLModel/Parser (C01) for the entries of one parse",
]
ASSUMPTIONS = [
    "one Observer without filter per ContentComparer (an empty ObserverList ignores everything)",
    "texts contain no carriage returns; files are read and written as UTF-8",
]

FINDING = "F8-junk-key-counter-collision"
FNAME_ = {"properties": "a.properties", "dtd": "a.dtd", "ini": "a.ini", "inc": "a.inc", "po": "a.po",
          "ftl": "a.ftl", "android": "strings.xml"}
FORMATS = ["properties", "dtd", "ini", "inc", "po", "ftl", "android"]
MODEL_PARSE = ["properties", "dtd", "ini", "inc", "po"]
MODEL_COMPARE = ["ini", "inc"]
EXT = {"properties": "properties", "dtd": "dtd", "ini": "ini", "inc": "inc", "po": "po", "ftl": "ftl"}
KEYS = ["a", "b", "c", "key_d", "accesskey", "e.f"]
VALS = {
    None: ["1", "two words", "x \ufffd y", "12", "<b>bold</b> text", "", "three more words"],
    "properties": ["%S and %1$S", "#1 file;#1 files", "line\\\n  cont", "\\u0041bc"],
    "dtd": ["a &amp; b", "&foo; bar", "width: 10em", "it's", "unclosed <b>", "&bar;&foo;", "say \\u0022hi"],
    "ftl": ["{ $x } items", "{ -term }", "{ a }"],
    "android": ["%1$s done", "it\\'s", "it's", "%d of %d"],
    "po": ["quote \\\" q", "tab\\t"],
    "ini": ["k=v=w"],
    "inc": ["<em:contributor>X</em:contributor>"],
}
SPECIAL = {
    "properties": ["# comment\n", "\n", "junk line\n", "# License\n", "! bang\n"],
    "dtd": ["<!-- comment -->\n", "\n", "junk <\n", '<!ENTITY % brandDTD SYSTEM "chrome://b/l.dtd">\n%brandDTD;\n',
            "<!-- License -->\n"],
    "ini": ["; comment\n", "\n", "junk\n", "[Sec]\n", "# License\n"],
    "inc": ["# comment\n", "\n", "junk\n", "#filter emptyLines\n", "#unfilter emptyLines\n", "\n\n", "#expand x\n"],
    "po": ["# comment\n", "junk\n", 'msgctxt "c"\nmsgid "a"\nmsgstr "ctx"\n\n', "\n"],
    "ftl": ["# comment\n", "\n", "junk {\n", "-term = T\n", "k =\n    .attr = v\n", "## group\n"],
    "android": ["  <!-- comment -->\n", "\n", '  <plurals name="p"/>\n', "  <string>noname</string>\n"],
}


# names WITHOUT a parser that share an extension or a substring with a supported name
NEAR = {
    "android": ["values.xml", "strings.xml.txt", "string.xml", "res/values.xml"],
    "dtd": ["a.dtd.bak", "a.dtdx", "dtd"],
    "properties": ["foo.properties.orig", "a.propertiesx", "properties"],
    "ini": ["a.ini.bak", "a.init"],
    "inc": ["a.inc.orig", "a.incl"],
    "ftl": ["a.ftl.txt", "a.ftlx"],
    "po": ["a.po.bak", "a.pox", "a.potx"],
}
# other names WITH a parser
ALIAS = {
    "android": ["mystrings.xml", "strings-v2.xml", "res/strings.xml"],
    "dtd": ["b.dtd"], "properties": ["x.y.properties"], "ini": ["b.ini"], "inc": ["defines.inc"],
    "ftl": ["b.ftl"], "po": ["a.pot", "b.po"],
}
EMPTY = ["", " \n", "\n", "\t"]


def entity(fmt, k, v):
    if fmt == "properties":
        return "%s=%s\n" % (k, v)
    if fmt == "dtd":
        return '<!ENTITY %s "%s">\n' % (k, v)
    if fmt == "ini":
        return "%s=%s\n" % (k, v)
    if fmt == "inc":
        return "#define %s %s\n" % (k.replace(".", "_"), v)
    if fmt == "po":
        return 'msgid "%s"\nmsgstr "%s"\n\n' % (k, v)
    if fmt == "ftl":
        return "%s = %s\n" % (k.replace(".", "-"), v if v else "{\"\"}")
    if fmt == "android":
        return '  <string name="%s">%s</string>\n' % (k, v)
    raise ValueError(fmt)


def wrap(fmt, items, rng=None):
    body = "".join(items)
    if fmt == "android":
        return '<?xml version="1.0" encoding="utf-8"?>\n<resources>\n' + body + "</resources>\n"
    if fmt == "ini" and items and rng is not None and rng.random() < 0.5:
        return "[Strings]\n" + body
    return body


def val_of(rng, fmt):
    pool_ = VALS[None] + VALS.get(fmt, [])
    if fmt == "android" and rng.random() < 0.9:
        pool_ = [v for v in pool_ if "&" not in v and "<" not in v] + VALS["android"]
    return rng.choice(pool_)


def gen_items(rng, fmt, n=None):
    """list of (kind, key, text) items"""
    items = []
    n = rng.randrange(1, 6) if n is None else n
    for _ in range(n):
        if rng.random() < 0.7:
            k = rng.choice(KEYS)
            items.append(("e", k, entity(fmt, k, val_of(rng, fmt))))
        else:
            items.append(("s", None, rng.choice(SPECIAL[fmt])))
    return items


def derive(rng, fmt, items):
    """a localization of a reference: keep / change / drop / break items, maybe add some"""
    out = []
    for kind, k, text in items:
        r = rng.random()
        if kind == "e":
            if r < 0.55:
                out.append(text)
            elif r < 0.75:
                out.append(entity(fmt, k, val_of(rng, fmt)))
            elif r < 0.88:
                pass
            else:
                out.append(rng.choice(SPECIAL[fmt]))
        elif r < 0.7:
            out.append(text)
    if rng.random() < 0.4:
        for kind, k, text in gen_items(rng, fmt, rng.randrange(1, 3)):
            out.insert(rng.randrange(len(out) + 1), text)
    if fmt == "android" and rng.random() < 0.08:
        return '<?xml version="1.0"?>\n<resources>\n  <string name="a">broken\n'
    return wrap(fmt, out, rng)


def gen_pair(rng, fmt):
    items = gen_items(rng, fmt)
    ref = wrap(fmt, [t for _, _, t in items], rng)
    l10n = derive(rng, fmt, items)
    r = rng.random()
    if r < 0.05:
        l10n = rng.choice(EMPTY)            # zero-byte / white-space only localization
    elif r < 0.09:
        ref = rng.choice(EMPTY)             # ... reference
    return ref, l10n


def gen_op(rng, kind=None, fmt=None):
    kind = kind or rng.choice(["parse", "parse", "compare", "compare", "compare", "lint", "merge", "serialize",
                               "mozmatch", "project", "files", "add", "hasparser"])
    fmt = fmt or rng.choice(FORMATS)

    def rename(op):
        # sometimes another file name: one without a parser that looks like a supported one, or another supported one
        r = rng.random()
        if r < 0.12:
            op["name"] = rng.choice(NEAR[fmt])
        elif r < 0.2:
            op["name"] = rng.choice(ALIAS[fmt])
        return op
    if kind == "parse":
        ref, l10n = gen_pair(rng, fmt)
        op = {"op": "parse", "fmt": fmt, "text": rng.choice([ref, l10n])}
        if rng.random() < 0.3:
            op["via"] = "file"
            if rng.random() < 0.3:
                rename(op)
        if fmt not in MODEL_PARSE and rng.random() < 0.3:
            op["keyed"] = True
        return op
    if kind in ("compare", "merge"):
        ref, l10n = gen_pair(rng, fmt)
        op = {"op": kind, "fmt": fmt, "ref": ref, "l10n": l10n}
        if fmt == "dtd" and rng.random() < 0.4:
            op["extra"] = ["android-dtd"]
        return rename(op)
    if kind == "lint":
        ref, l10n = gen_pair(rng, fmt)
        op = {"op": "lint", "fmt": fmt, "cur": l10n, "ref": ref if rng.random() < 0.6 else None}
        if fmt == "dtd" and rng.random() < 0.4:
            op["extra"] = ["android-dtd"]
        return rename(op)
    if kind == "add":
        ref, l10n = gen_pair(rng, fmt)
        return rename({"op": "add", "fmt": fmt, "ref": ref})
    if kind == "hasparser":
        names = [FNAME_[fmt]] + NEAR[fmt] + ALIAS[fmt]
        rng.shuffle(names)
        return {"op": "hasparser", "names": names}
    if kind == "serialize":
        ref, l10n = gen_pair(rng, fmt)
        new = {}
        for k in rng.sample(KEYS, rng.randrange(0, 3)):
            new[k] = None if rng.random() < 0.3 else val_of(rng, fmt)
        return {"op": "serialize", "fmt": fmt, "ref": ref, "old": l10n, "new": sorted(new.items())}
    if kind == "mozmatch":
        pats = ["foo/*", "foo/**", "**/bar", "foo/**/baz", "foo/*/baz", "*.dtd", "browser/**", "foo/bar", "f*o/*/x"]
        paths = ["foo/bar", "foo", "foo/x/baz", "a.dtd", "browser/a/b.ftl", "fxo/y/x", "foo/baz", "foo/x/y/baz", "foo/a/b"]
        return {"op": "mozmatch", "pattern": rng.choice(pats), "paths": paths}
    if kind == "project":
        return gen_project(rng)
    if kind == "files":
        files = gen_files(rng, rng.randrange(1, 4))
        order = list(range(len(files)))
        rng.shuffle(order)
        return {"op": "files", "files": files, "order": order}
    raise ValueError(kind)


def gen_files(rng, n):
    files = []
    used = set()
    while len(files) < n:
        fmt = rng.choice(FORMATS)
        d = rng.choice(["", "browser/", "browser/chrome/", "toolkit/"])
        rel = d + ("strings.xml" if fmt == "android" else "f%d.%s" % (len(files), EXT[fmt]))
        if rel in used:
            continue
        used.add(rel)
        ref, l10n = gen_pair(rng, fmt)
        files.append([rel, ref, l10n])
    return files


def gen_project(rng, files=None, locales=("de", "fr")):
    files = files if files is not None else gen_files(rng, rng.randrange(1, 4))
    proj = {}
    for rel, ref, l10n in files:
        loc = {}
        for l in locales:
            r = rng.random()
            if r < 0.75:
                loc[l] = l10n if l == locales[0] else ref
            elif r < 0.85:
                loc[l] = ref
        proj[rel] = [None if rng.random() < 0.08 and loc else ref, loc]
    filters = []
    if rng.random() < 0.7:
        rel = rng.choice(files)[0]
        filters.append([rel, rng.choice(KEYS), rng.choice(["ignore", "warning"])])
    return {"op": "project", "locales": list(locales), "files": proj, "filters": filters}


# ---------------------------------------------------------------- the deliberately constructed collision
def collision_probes():
    """A real key that IS the key string a Junk of the same file pair will get for one value of the counter:
    `<key>=1\\n<junk>` where <key> = "_junk_<n>_<a>-<b>" and (a, b) is the span of <junk> (a fixed point, since
    the span depends on the length of the key).  n = the counter value in a fresh interpreter."""
    probes = []

    def fix(mk, junk, n):
        a = b = 0
        for _ in range(20):
            key = "_junk_%d_%d-%d" % (n, a, b)
            text = mk(key)
            a2 = len(text)
            b2 = a2 + len(junk)
            if (a2, b2) == (a, b):
                return key, text + junk
            a, b = a2, b2
        return None

    for fmt, mk, junk in [
        ("properties", lambda k: "%s=1\n" % k, "zzz"),
        ("ini", lambda k: "%s=1\n" % k, "zzz"),
        ("ini", lambda k: "[Strings]\nb=2\n%s=1\n" % k, "junk junk"),
        ("dtd", lambda k: '<!ENTITY %s "1">\n' % k, "zz <"),
    ]:
        r = fix(mk, junk, 1)
        if r:
            key, l10n = r
            ref = entity(fmt, "a", "1")
            probes.append({"op": "compare", "fmt": fmt, "ref": ref, "l10n": l10n, "probe": "dup"})
            probes.append({"op": "lint", "fmt": fmt, "ref": None, "cur": l10n, "probe": "dup"})
    # the reference's junk collides with a real key of the localization: `Junk.equals` does not exist
    probes.append({"op": "compare", "fmt": "ini", "ref": "zzz", "l10n": "_junk_1_0-3=1\n", "probe": "equal"})
    probes.append({"op": "merge", "fmt": "properties", "ref": "zzz", "l10n": "_junk_1_0-3=1\n", "probe": "equal"})
    return probes


JUNK_SHAPE = re.compile(r"_junk_(\d+)_(\d+)-(\d+)\Z")


def clash_rootcause(op, jid_ranges):
    """root-cause predicate of F8: a real entity key of the shape `_junk_<n>_<a>-<b>` where (a, b) is the span
    of a Junk of the same operation and n is a counter value handed out during one of the two runs"""
    if "fmt" not in op:
        return False
    from compare_locales.parser import getParser
    from compare_locales.parser.base import Junk, Entity
    from impl.history import FNAME
    real, spans = set(), set()
    for f in ("ref", "l10n", "text", "cur", "old"):
        t = op.get(f)
        if not isinstance(t, str):
            continue
        p = type(getParser(FNAME[op["fmt"]]))()
        p.readUnicode(t)
        for e in p.walk():
            if isinstance(e, Junk):
                spans.add(tuple(e.span))
            elif isinstance(e, Entity) and isinstance(e.key, str):
                m = JUNK_SHAPE.match(e.key)
                if m:
                    real.add(tuple(int(x) for x in m.groups()))
    for n, a, b in real:
        if (a, b) in spans and any(lo < n <= hi for lo, hi in jid_ranges):
            return True
    return False


# ---------------------------------------------------------------- process handling
def fresh_calls(base, op_lists, timeout=30.0, jobs=14):
    """run_ops(base, ops) for every ops list, EACH IN ITS OWN FRESH INTERPRETER"""
    def one(ops):
        w = pool.Worker()
        try:
            r = w.call([["impl.history", "run_ops", [base, ops]]], timeout + 0.5 * len(ops))
        finally:
            w.kill()
        if r is None:
            return None
        r = r[0]
        if "r" not in r:
            return {"adapter_exc": r}
        return r["r"]
    if not op_lists:
        return []
    with ThreadPoolExecutor(min(jobs, os.cpu_count() or 4)) as ex:
        return list(ex.map(one, op_lists))


def opkey(op):
    return hashlib.sha256(json.dumps(op, sort_keys=True).encode()).hexdigest()[:20]


def model_line(ops):
    toks = ["c18.run"]
    for o in ops:
        if o["op"] == "parse":
            toks += ["parse", o["fmt"], C.enc(o["text"])]
        else:
            toks += ["compare", o["fmt"], C.enc(o["ref"]), C.enc(o["l10n"])]
    return " ".join(toks)


def model_ok(op):
    if op.get("name"):
        return False
    if op["op"] == "parse":
        return op["fmt"] in MODEL_PARSE and not op.get("keyed")
    return op["op"] == "compare" and op["fmt"] in MODEL_COMPARE and not op.get("extra")


def near_and_empty_histories(ctx, rng):
    """(a) files whose names have NO parser but look like supported ones, before and after real files of that
    format; (b) zero-byte and white-space only files as reference / localization / linted file, read through
    Parser.readFile AFTER the same singleton parser has read a non-empty file"""
    hs = []
    for fmt in FORMATS:
        ref, l10n = gen_pair(rng, fmt)
        while len(ref) < 8 or len(l10n) < 8:
            ref, l10n = gen_pair(rng, fmt)
        real = [{"op": "compare", "fmt": fmt, "ref": ref, "l10n": l10n},
                {"op": "lint", "fmt": fmt, "cur": l10n, "ref": None},
                {"op": "parse", "fmt": fmt, "text": ref, "via": "file"}]
        names = NEAR[fmt] + ALIAS[fmt]
        if ctx.tier == "quick":
            names = NEAR[fmt][:3] + ALIAS[fmt][:1]
        for name in names:
            near = [{"op": "hasparser", "names": [name]},
                    {"op": "compare", "fmt": fmt, "ref": ref, "l10n": l10n, "name": name},
                    {"op": "lint", "fmt": fmt, "cur": l10n, "ref": ref, "name": name},
                    {"op": "add", "fmt": fmt, "ref": ref, "name": name},
                    {"op": "parse", "fmt": fmt, "text": ref, "via": "file", "name": name}]
            hs.append(("near", [rng.choice(real)] + near))              # real file first, then the look-alikes
            hs.append(("near", near[:2] + [rng.choice(real)] + near))   # look-alike, real, look-alike again
            for n in near:
                hs.append(("near", [rng.choice(real), n]))
        empties = EMPTY if ctx.tier != "quick" else EMPTY[:2]
        for e in empties:
            eops = [{"op": "compare", "fmt": fmt, "ref": e, "l10n": l10n},
                    {"op": "compare", "fmt": fmt, "ref": ref, "l10n": e},
                    {"op": "compare", "fmt": fmt, "ref": e, "l10n": e},
                    {"op": "merge", "fmt": fmt, "ref": ref, "l10n": e},
                    {"op": "lint", "fmt": fmt, "cur": e, "ref": None},
                    {"op": "lint", "fmt": fmt, "cur": e, "ref": ref},
                    {"op": "lint", "fmt": fmt, "cur": l10n, "ref": e},
                    {"op": "add", "fmt": fmt, "ref": e},
                    {"op": "parse", "fmt": fmt, "text": e, "via": "file"},
                    {"op": "serialize", "fmt": fmt, "ref": ref, "old": e, "new": []}]
            for o in eops:
                hs.append(("empty", [rng.choice(real), o]))
            hs.append(("empty", [real[0]] + eops))
    return hs


def strip(op):
    return {k: v for k, v in op.items() if k != "probe"}


def union_reports(reports):
    """by construction: the report of a multi-file run = details of every file, summaries added up"""
    details, summary = {}, {}
    for r in reports:
        for path, items in r["details"].items():
            details.setdefault(path, [])
            details[path] += items
        for loc, s in r["summary"].items():
            t = summary.setdefault(loc, {})
            for k, v in s.items():
                t[k] = t.get(k, 0) + v
    return {"details": details, "summary": summary}


def nonzero(report):
    """summaries without the all-zero rows and zero entries (a locale without findings has no row in a single-file run)"""
    return {"details": {k: v for k, v in report["details"].items() if v},
            "summary": {l: {k: v for k, v in s.items() if v} for l, s in report["summary"].items()
                        if any(s.values())}}


# ---------------------------------------------------------------- run
def run(ctx):
    out = Outcome()
    out.rule = ("histories: all ordered pairs over a core set of operations (every kind x format once), seeded random histories "
                "of 3-6 operations (parse, compare, lint, merge, serialize, mozpath.match, compareProjects, multi-file "
                "ContentComparer) over properties/dtd/ini/inc/po/ftl/android, every operation's result compared with the same "
                "operation in a fresh interpreter; 4-file projects in all 24 orders vs. the union of single-file runs; held "
                "entity objects re-read after the parser was reused; model histories through Hist.run. "
                "non-trivial = an operation evaluated after the junk counter had moved (state really differs from a fresh "
                "interpreter) whose result is not empty; distinct = distinct canonical results among those")
    base = tempfile.mkdtemp(prefix="verif-c18-")
    try:
        _run(ctx, out, base)
    finally:
        shutil.rmtree(base, ignore_errors=True)
    return out


def _run(ctx, out, base):
    rng = ctx.rng("c18")
    # ---- operation pool
    core = []
    for fmt in FORMATS:
        core.append(gen_op(rng, "parse", fmt))
        core.append(gen_op(rng, "compare", fmt))
    for kind in ("lint", "merge", "serialize"):
        for fmt in rng.sample(FORMATS, 2 if ctx.tier == "quick" else 5):
            core.append(gen_op(rng, kind, fmt))
    core.append(gen_op(rng, "mozmatch"))
    core.append(gen_op(rng, "project"))
    core.append(gen_op(rng, "files"))
    core.append({"op": "compare", "fmt": "dtd", "ref": '<!ENTITY a "x">\n<!ENTITY b "&foo; y">\n',
                 "l10n": '<!ENTITY a "it\'s \\u00zz">\n<!ENTITY b "&bar; y">\n', "extra": ["android-dtd"]})
    core.append({"op": "lint", "fmt": "dtd", "ref": None, "cur": '<!ENTITY q "say \\u0022hi it\'s">\n<!ENTITY r "plain">\n',
                 "extra": ["android-dtd"]})
    core.append({"op": "parse", "fmt": "inc", "text": "#filter emptyLines\n\n\n#define a 1\n"})
    core.append({"op": "parse", "fmt": "inc", "text": "#define a 1\n\n\n#define b 2\n"})
    pool_ops = list(core)
    for _ in range(ctx.n(170, 1400)):
        pool_ops.append(gen_op(rng))
    probes = collision_probes()
    model_pool = [o for o in pool_ops if model_ok(o)]
    while len(model_pool) < ctx.n(80, 500):
        o = gen_op(rng, rng.choice(["parse", "compare"]), rng.choice(MODEL_PARSE))
        if model_ok(o):
            model_pool.append(o)
            pool_ops.append(o)
    junky = [o for o in pool_ops if o["op"] == "parse" and ("junk" in o["text"] or "zz" in o["text"])]

    # ---- histories
    histories = []                     # (tag, [ops])
    pair_core = core if ctx.tier != "quick" else core[:14] + core[-6:]
    for a, b in itertools.product(pair_core, repeat=2):
        histories.append(("pair", [a, b]))
    for _ in range(ctx.n(150, 1500)):
        n = rng.randrange(3, 7)
        histories.append(("random", [rng.choice(pool_ops) for _ in range(n)]))
    for _ in range(ctx.n(120, 1500)):
        n = rng.randrange(2, 7)
        histories.append(("model", [rng.choice(model_pool) for _ in range(n)]))
    # mozpath.match keeps a module-level cache of compiled patterns: every ordered pair of patterns
    mpaths = ["foo/bar", "foo", "foo/x/baz", "a.dtd", "browser/a/b.ftl", "fxo/y/x", "foo/baz", "foo/x/y/baz", "foo/a/b"]
    mpats = ["foo/*", "foo/**", "**/bar", "foo/**/baz", "foo/*/baz", "*.dtd", "browser/**", "foo/bar", "f*o/*/x"]
    for a, b in itertools.product(mpats, repeat=2):
        if a != b:
            histories.append(("mozpair", [{"op": "mozmatch", "pattern": a, "paths": mpaths},
                                          {"op": "mozmatch", "pattern": b, "paths": mpaths}]))
    histories += near_and_empty_histories(ctx, rng)
    for p in probes:
        pre = rng.choice(junky) if junky else {"op": "parse", "fmt": "ini", "text": "zzz"}
        histories.append(("probe", [pre, p]))
        histories.append(("probe", [p, p]))
    # entity objects held across a history
    hold_hist = []
    for i in range(ctx.n(40, 300)):
        fmt = rng.choice(FORMATS)
        ref, l10n = gen_pair(rng, fmt)
        hold = {"op": "hold", "fmt": fmt, "text": rng.choice([ref, l10n]), "id": 1, "walk": rng.random() < 0.6}
        mid = [gen_op(rng, rng.choice(["parse", "compare", "lint", "serialize", "merge"]), fmt)]
        mid += [rng.choice(pool_ops) for _ in range(rng.randrange(0, 3))]
        rng.shuffle(mid)
        hold_hist.append([hold] + mid + [{"op": "reobs", "id": 1}])

    all_ops = {}
    for _, h in histories:
        for o in h:
            all_ops.setdefault(opkey(strip(o)), strip(o))
    for h in hold_hist:
        o = h[0]
        all_ops.setdefault(opkey(o), o)
    keys = list(all_ops)
    fresh_res = fresh_calls(base, [[all_ops[k]] for k in keys])
    fresh = {}
    for k, r in zip(keys, fresh_res):
        fresh[k] = r[0] if isinstance(r, list) else r
    hist_res = fresh_calls(base, [[strip(o) for o in h] for _, h in histories])
    out.count("processes", len(keys) + len(histories) + len(hold_hist))

    viol_budget = [12]

    def report(what, hist, idx, fr, hr, finding=None):
        v = {"what": what, "input": {"history": hist[:idx + 1], "index": idx},
             "fresh": (fr or {}).get("canon", fr) if isinstance(fr, dict) else fr,
             "after_history": (hr or {}).get("canon", hr) if isinstance(hr, dict) else hr,
             "finding": finding}
        # a two-operation reproducer, if one exists
        if finding is None and idx > 1 and viol_budget[0] > 0:
            viol_budget[0] -= 1
            pairs = [[hist[j], hist[idx]] for j in range(idx)]
            rs = fresh_calls(base, pairs)
            for p, r in zip(pairs, rs):
                if isinstance(r, list) and isinstance(fr, dict) and r[1].get("canon") != fr.get("canon"):
                    v["input"] = {"history": p, "index": 1}
                    v["after_history"] = r[1].get("canon")
                    break
        out.violations.append(v)

    model_lines, model_expect = [], []
    for (tag, h), res in zip(histories, hist_res):
        hs = [strip(o) for o in h]
        if not isinstance(res, list):
            out.violations.append({"what": "history did not finish / adapter failed: %r" % (res,),
                                   "input": {"history": hs, "index": len(hs) - 1}, "finding": None})
            continue
        seen_junk = []
        for i, (o, r) in enumerate(zip(hs, res)):
            out.evaluations += 1
            fr = fresh.get(opkey(o))
            out.count("op." + o["op"])
            out.count("hist." + tag)
            if not isinstance(fr, dict) or "canon" not in fr:
                out.violations.append({"what": "operation failed in a fresh interpreter: %r" % (fr,),
                                       "input": {"history": [o], "index": 0}, "finding": None})
                continue
            if r.get("jid", [0, 0])[0] > 0 and len(r["canon"]) > 20:
                out.nontrivial.add(hashlib.sha256(r["canon"].encode()).hexdigest()[:16])
            if r["canon"] != fr["canon"]:
                finding = FINDING if clash_rootcause(o, [fr["jid"], r["jid"]]) else None
                if h[i].get("probe"):
                    out.count("probe.%s.differs" % h[i]["probe"])
                report("result of %s (%s) depends on what was processed before" % (o["op"], o.get("fmt", "-")),
                       hs, i, fr, r, finding)
            elif h[i].get("probe"):
                out.count("probe.%s.same" % h[i]["probe"])
            seen_junk += r.get("junk", [])
            if len(out.samples) < 6 and i >= 2 and r["jid"][0] > 3 and "Unparsed" in r["canon"] and o["op"] != "parse":
                out.samples.append({"history": [(x["op"], x.get("fmt")) for x in hs[:i + 1]], "junkid_before": r["jid"][0],
                                    "result": r["canon"][:300], "equals_fresh": True})
        if len(seen_junk) != len(set(seen_junk)):
            out.violations.append({"what": "two Junk objects of one run share a key", "finding": None,
                                   "input": {"history": hs, "index": len(hs) - 1, "keys": seen_junk}})
        if tag == "model":
            model_lines.append(model_line(hs))
            model_expect.append((hs, [r.get("model") for r in res]))

    # ---- held entities
    hold_res = fresh_calls(base, hold_hist)
    for h, res in zip(hold_hist, hold_res):
        out.evaluations += 1
        if not isinstance(res, list) or "raw" not in res[0] or "raw" not in res[-1]:
            out.violations.append({"what": "hold/reobs history failed: %r" % (str(res)[:300],),
                                   "input": {"history": h, "index": len(h) - 1}, "finding": None})
            continue
        out.count("hold")
        if res[-1]["jid"][0] > res[0]["jid"][1]:
            out.nontrivial.add("hold" + hashlib.sha256(res[0]["raw"].encode()).hexdigest()[:16])
        if res[0]["raw"] != res[-1]["raw"]:
            out.violations.append({"what": "entity objects changed after the same parser read another file",
                                   "input": {"history": h, "index": len(h) - 1}, "before": res[0]["raw"],
                                   "after": res[-1]["raw"], "finding": None})
        fr = fresh.get(opkey(h[0]))
        if isinstance(fr, dict) and fr.get("canon") != res[0]["canon"]:
            out.violations.append({"what": "fresh interpreters disagree (nondeterministic parse)",
                                   "input": {"history": [h[0]], "index": 0}, "finding": None})

    # ---- multi-file projects: all orders = union of the single-file runs
    nproj = ctx.n(8, 50)
    jobs, meta = [], []
    for pi in range(nproj):
        files = gen_files(rng, 4)
        perms = list(itertools.permutations(range(4)))
        rng.shuffle(perms)
        jobs.append([{"op": "files", "files": files, "order": list(p)} for p in perms])
        meta.append(("perms", files, perms))
        for i in range(4):
            jobs.append([{"op": "files", "files": files, "order": [i]}])
            meta.append(("single", files, i))
        proj = gen_project(rng, files)
        jobs.append([proj])
        meta.append(("project", proj, None))
        for rel in proj["files"]:
            for loc in proj["locales"]:
                one = dict(proj, files={rel: proj["files"][rel]}, locales=[loc], all_locales=proj["locales"])
                jobs.append([one])
                meta.append(("project1", one, (rel, loc)))
    res = fresh_calls(base, jobs, timeout=60.0)
    i = 0
    while i < len(jobs):
        kind, files, perms = meta[i]
        assert kind == "perms"
        singles = res[i + 1:i + 5]
        permres = res[i]
        ok = isinstance(permres, list) and all(isinstance(s, list) for s in singles)
        if not ok:
            out.violations.append({"what": "multi-file run failed: %r" % (str(permres)[:200],),
                                   "input": {"files": files}, "finding": None})
        else:
            sj = [json.loads(s[0]["canon"]) for s in singles]
            if any(s["exc"] for s in sj):
                out.count("files.single_exc")
            expected = union_reports([s["obs"] for s in sj])
            for p, r in zip(perms, permres):
                out.evaluations += 1
                got = json.loads(r["canon"])
                if r["jid"][0] > 0:
                    out.nontrivial.add("perm" + hashlib.sha256(r["canon"].encode()).hexdigest()[:16])
                if got["obs"] != expected or bool(got["exc"]) != any(s["exc"] for s in sj):
                    out.violations.append({"what": "multi-file report is not the union of the single-file reports",
                                           "input": {"files": files, "order": list(p)}, "got": got["obs"],
                                           "expected": expected, "finding": None})
                    break
            out.count("files.permutations", len(perms))
        j = i + 5
        projres = res[j]
        proj = meta[j][1]
        k = j + 1
        ones = []
        while k < len(jobs) and meta[k][0] == "project1":
            ones.append(res[k])
            k += 1
        out.evaluations += 1
        if not isinstance(projres, list) or not all(isinstance(o, list) for o in ones):
            out.violations.append({"what": "compareProjects run failed: %r" % (str(projres)[:200],),
                                   "input": {"project": proj}, "finding": None})
        else:
            got = json.loads(projres[0]["canon"])
            oj = [json.loads(o[0]["canon"]) for o in ones]
            if got["exc"] or any(o["exc"] for o in oj):
                out.count("project.exc")
                if bool(got["exc"]) != any(o["exc"] for o in oj):
                    out.violations.append({"what": "compareProjects raises in the multi-file run only (or in a single run only)",
                                           "input": {"project": proj}, "got": got["exc"], "finding": None})
            else:
                expected = nonzero(union_reports([o["report"]["obs"][0] for o in oj]))
                if nonzero(got["report"]["obs"][0]) != expected:
                    out.violations.append({"what": "compareProjects report is not the union of the single-file, single-locale reports",
                                           "input": {"project": proj}, "got": nonzero(got["report"]["obs"][0]),
                                           "expected": expected, "finding": None})
                out.count("project.union")
                out.nontrivial.add("proj" + hashlib.sha256(projres[0]["canon"].encode()).hexdigest()[:16])
        i = k

    # ---- correspondence: whole histories through the Lean model (Hist.run from G.init)
    # plus a bounded-exhaustive family of compares in long histories
    blocks = {"ini": ["a=1\n", "a=2\n", "b=x y\n", "zz\n", "akey=1\n", "u=\ufffd\n"],
              "inc": ["#define a 1\n", "#define a 2\n", "#define b x y\n", "zz\n", "\n", "#filter emptyLines\n"]}
    L = 2
    for fmt, bl in blocks.items():
        texts = ["".join(t) for n in range(L + 1) for t in itertools.product(bl, repeat=n)]
        pairs = [(r, l) for r in texts for l in texts]
        if ctx.tier == "quick":
            pairs = rng.sample(pairs, 600)
        for s in range(0, len(pairs), 40):
            hs = [{"op": "compare", "fmt": fmt, "ref": r, "l10n": l} for r, l in pairs[s:s + 40]]
            model_lines.append(model_line(hs))
            model_expect.append((hs, None))
    pending = [i for i, (_, exp) in enumerate(model_expect) if exp is None]
    pres = fresh_calls(base, [model_expect[i][0] for i in pending], timeout=60.0)
    for i, r in zip(pending, pres):
        model_expect[i] = (model_expect[i][0], [x.get("model") for x in r] if isinstance(r, list) else None)
    mres = C.run_driver_parallel(model_lines) if ctx.model_ok else [None] * len(model_lines)
    for (hs, exp), mo in zip(model_expect, mres):
        if mo is None:
            continue
        if exp is None:
            out.disagreements.append({"op": "c18.run", "history": hs, "impl": "failed", "model": mo[:200]})
            continue
        got = mo.split(" || ")
        out.count("model.histories")
        for i, (o, e, g) in enumerate(zip(hs, exp, got)):
            out.evaluations += 1
            out.count("model.ops")
            if e != g:
                out.disagreements.append({"op": "c18.run", "history": hs[:i + 1], "index": i, "impl": e, "model": g})
                break
            if i > 0 and ("J " in g or "error" in g):
                out.nontrivial.add("m" + hashlib.sha256(g.encode()).hexdigest()[:16])
    if not out.distribution.get("probe.dup.differs") and not out.distribution.get("probe.equal.differs"):
        out.notes.append("collision probes did not change any report")
    out.contracts["collision_probes"] = {k: v for k, v in out.distribution.items() if k.startswith("probe.")}


def classify(v):
    return v.get("finding")


def replay(payload):
    res = []
    base = tempfile.mkdtemp(prefix="verif-c18-")
    try:
        for v in payload.get("violations", []):
            i = v.get("input", {})
            if "history" not in i:
                res.append({"input": i, "violates": None, "note": "replay supports history inputs only"})
                continue
            h = [strip(o) for o in i["history"]]
            if any(o["op"] == "reobs" for o in h):
                r = fresh_calls(base, [h])[0]
                bad = isinstance(r, list) and r[0].get("raw") != r[-1].get("raw")
                res.append({"input": i, "violates": bool(bad)})
                continue
            idx = i.get("index", len(h) - 1)
            a, b = fresh_calls(base, [h, [h[idx]]])
            bad = not (isinstance(a, list) and isinstance(b, list)) or a[idx]["canon"] != b[0]["canon"]
            res.append({"input": i, "violates": bool(bad),
                        "after_history": a[idx]["canon"] if isinstance(a, list) else a,
                        "fresh": b[0]["canon"] if isinstance(b, list) else b})
    finally:
        shutil.rmtree(base, ignore_errors=True)
    return {"violates": any(r["violates"] for r in res), "cases": res}

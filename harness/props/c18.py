"""C18 — Results do not depend on what was processed before."""
import hashlib
import itertools
import json
import os
import re
import shutil
import tempfile
from concurrent.futures import ThreadPoolExecutor

from lib import common as C
from lib import pool
from lib.runner import Outcome

ID = "C18"
LEAN_TARGETS = ["CLModel.Props.C18"]
M = "CLModel.Props.C18"
THEOREMS = [
    (M, "C18.junkKey_injective", "the key string of a Junk determines the counter value and the span it was built from"),
    (M, "C18.junk_keys_distinct", "all Junk objects returned by the parses of one run (any history, any start state) have pairwise distinct keys"),
    (M, "C18.junkid_only_in_keys", "a parse started with a higher counter yields the same entries with the junk ids shifted, nothing else changes"),
    (M, "C18.compare_natural", "the compare report (Counter, AddRemove, keyed lookups, action loop) commutes with every renaming of keys that is injective on the keys of the two files"),
    (M, "C18.report_independent", "under NoJunkLikeKeys the report of a file pair is string for string the same in every global state"),
    (M, "C18.out_independent", "outputs modulo junk-key renaming are independent of the global state (parse; compare under NoJunkLikeKeys)"),
    (M, "C18.run_independent", "the same for whole histories: the outputs of a history do not depend on the state it is started in"),
    (M, "C18.multi_file_union", "every compare of a multi-file run returns the report the pair gets alone in a fresh interpreter; any order of the files gives a permutation of the same reports"),
    (M, "C18.entities_survive", "what can be read off an entry (key, value, all, positions) is not changed by any later operations; re-reading it later returns the same"),
    (M, "C18.parsed_entities_survive", "in particular for the entries a parse of a singleton parser has just returned"),
    (M, "C18.report_depends_on_history_when_keys_clash", "negation witness: without NoJunkLikeKeys the report differs between a fresh and a used interpreter (finding F8)"),
    # round 4: the whole state machine (CLModel/History/Machine.lean)
    (M, "C18.memo_coherent_reachable", "in every state the tools can reach every memo (mozpath.re_cache, Matcher._cached_re, ProjectConfig._all_locales/_cache with the regexes of its with_env matchers, DTDChecker.__known_entities) holds what a fresh computation returns"),
    (M, "C18.out_independent_all", "out_independent for ALL modelled operations: parse, compare, lint, merge (l10n-merge), serialize, merge_channels, getParser/hasParser, mozpath.match, Matcher new/with_env/match/sub, ProjectConfig new/set_locales/add_rules/add_paths/filter/all_locales, DTDChecker known_entities/text handler — in every reachable state the output is the cache-free, counter-free reference semantics of the arguments and of the objects named (junk ids of parse listings shifted)"),
    (M, "C18.out_same_in_any_two_states", "two reachable states in which the same objects are alive return the same result for every closed operation, whatever their counters, contexts and caches hold"),
    (M, "C18.run_independent_all", "whole histories of the extended machine: results do not depend on the state the history is started in"),
    (M, "C18.view_independent_of_caches", "what the live objects are (pattern/env of a Matcher, locales/paths/rules of a ProjectConfig, flags/reference of a DTDChecker) evolves independently of what they have cached; queries never change it"),
    (M, "C18.filter_ignores_caches", "config.filter(file, entity) is the verdict of the cache-free model FiltM.filterS whatever was asked before (other files, other locales, all_locales, set_locales)"),
    (M, "C18.match_ignores_cached_re", "matcher.match(path) is PM.Matcher.match of its pattern and environment with or without a compiled regex from an earlier call; with_env starts without one"),
    (M, "C18.mozmatch_ignores_re_cache", "mozpath.match(path, pattern) is PM.mozMatch whatever the module-level re_cache holds"),
    (M, "C18.getparser_stateless", "getParser/hasParser read no mutable state: look-alike names and unknown extensions are answered the same before and after real files were parsed; the answer depends on the path and the installed entry points only"),
    (M, "C18.texthandler_reset_before_use", "what processAndroidContent is called with is the character data of THIS value (android checks) or nothing, whatever the class-level DTDChecker.texthandler held before"),
    (M, "C18.inc_flag_fresh_per_read", "after reading any .inc text the filter flag of the DefinesParser singleton's Context is the one a walk from a fresh Context ends with; the flag before does not matter"),
    (M, "C18.read_replaces_context", "every readUnicode/readFile/readContents REPLACES the per-parse Context: whatever the shared parser held before (any text, a filled line cache, the .inc filter switched on), afterwards it holds a new Context with the given contents, no line cache, filter_empty_lines False; counter and older Contexts untouched"),
    (M, "C18.parse_is_read_then_walk", "parse = read followed by a walk of the new Context (same listing, counter, contexts, filter flag): a walk right after a read never sees anything of the text read before, even when it is the same text"),
    (M, "C18.parse_twice_same_listing", "reading the same text twice in a row through the same parser gives the listing of the first parse again (fresh junk ids), every format and text, also an .inc text that ends with the filter switched on"),
    (M, "C18.rewalk_same_listing", "walking the Context a parser holds once more returns the same listing with fresh junk ids, for EVERY format including .inc (DefinesParser.walk resets filter_empty_lines when a pass starts)"),
    (M, "C18.rewalk_ignores_flag", "the filter flag a walk left on the DefinesParser's Context plays no role for the next walk of that Context"),
    (M, "C18.rewalk_inc_same_as_first_walk", "evaluated on .inc texts that end with the filter switched on ('#define a\\n\\n#filter emptyLines\\n', '#a b\\n\\n#filter emptyLines'): the second walk of the same Context lists what the parse listed (blank line = Junk both times)"),
    (M, "C18.filter_stale_after_add_rules", "negation witness for Op.safe: a rule added after a filter query of the same locale is not seen (Python never resets _cache): error instead of ignore"),
    (M, "C18.lint_depends_on_history_when_keys_clash", "negation witness: without NoJunkLike1 the linter reports a duplicate in a fresh interpreter only (finding F8, lint face)"),
    (M, "C18.multi_file_union_observer_order", "the Observer's aggregation (C10 model: details tree + summaries) of a multi-file run is the same for every order of the file pairs: same details under every path, same number in every summary cell, every quiet level and filter"),
    (M, "C18.multi_file_union_observer", "the aggregated report is the union of the single-file reports: under a file's path the details of the run over that pair alone, every summary number the sum over the single-file runs"),
    (M, "C18.warm_reachable", "non-vacuity: a reachable state with re_cache, a compiled matcher regex, both ProjectConfig memos filled and a moved junk counter"),
    # round 5: the file system is part of the state (CLModel/History/World.lean)
    (M, "C18.out_independent_world", "out_independent_all with an explicit world fs : Path -> file | link: in every reachable world the output of an operation (readFile, compare [+ merge file], add, lint on PATHS; write / remove / rename / copy / symlink; every operation of the machine) is a function of its arguments, of what is at each path NOW and of the objects it names — never of earlier contents of a path"),
    (M, "C18.out_same_in_any_two_worlds", "two reachable worlds that hold the same files now return the same result, whatever histories led to them"),
    (M, "C18.out_equals_fresh_interpreter_on_current_files", "the oracle's statement for the model: the result of an operation on files in any reachable world is the result of a fresh interpreter started on the files as they are now"),
    (M, "C18.state_forgets_paths", "no component of the process state is keyed by a path: the state after an operation is a function of the state before and of the PATH-FREE operation it resolves to (texts read now)"),
    (M, "C18.state_keyed_by_contents_only", "the same contents under other paths, in another world, leave the process in the same state"),
    (M, "C18.fs_ops_leave_process", "write / remove / rename / copy / symlink (and a read whose first open fails) leave the process state untouched"),
    (M, "C18.world_moves_by_lookStep", "how the world moves is a function of the world before and of the operation: only the five file-system operations and l10n-merge (its target is a file of the world) change it"),
    (M, "C18.reads_leave_world", "readFile, compare without merge file, add and lint leave every file as it is"),
    (M, "C18.run_independent_world", "whole histories (reads, writes, renames, links, merges interleaved): two reachable worlds with the same files and live objects return the same results"),
    (M, "C18.compare_after_rewrite", "the seeded regression as a theorem: compare, rewrite the reference path, compare the same paths again — the second report is the reference semantics of the NEW contents"),
    (M, "C18.compare_sees_the_current_files", "evaluated witness: reference a=1,b=2 vs a=1 reports b missing; after rewriting the reference PATH to a=1 the compare of the same paths reports nothing missing (a path-keyed cache would be wrong by one string)"),
    (M, "C18.reads_see_the_current_files", "evaluated history: rewrite, swap by renames, remove, symbolic link followed / re-targeted / dangling / cyclic, copy: add (strings, words) and lint with reference report the files as they are at that moment"),
]
PARTIAL = [
    "round 5 (world): compare / lint / merge / add on PATHS are tied to the code for ini and inc (base Checker; add counts the words of the "
    "raw value, which is Entity.val for these formats only), readFile for properties/dtd/ini/inc/po; the other formats, other "
    "spellings of a path, project directories with TOML includes and compareProjects are covered by the fresh-interpreter oracle "
    "on the files as they are; directories are implicit, links point to files, a merge target is never a link",
    "out_independent_all covers every operation of the extended machine; compare / lint / merge are modelled with the base Checker "
    "(ini, inc; parse for properties/dtd/ini/inc/po); serialize and merge_channels re-use the C16/C15 models, in which a Junk is "
    "identified by its position (the F8 collision of a junk key with a real key is outside those two models); Fluent, Android, "
    "the PropertiesChecker and the XML part of the DTDChecker (expat) are covered by the history oracle only",
    "ProjectConfig objects are modelled without children and excludes (the recursion of _filter is C14's); add_rules/add_paths "
    "after a filter query are modelled exactly (stale _cache) and excluded from the invariant by Op.safe, with a negation witness; "
    "run_independent_all is stated for histories without these two mutators",
    "rewalk (walking a Context again) and reobs are not closed operations: their argument is the Context / entry the parser or "
    "tool holds, i.e. a piece of the state; they have their own theorems (rewalk_same_listing for all formats, "
    "rewalk_ignores_flag, entities_survive)",
    "multi_file_union is proved for the model's compare operation; the Observer's aggregation (details tree, summary sums) is "
    "checked by the oracle against the C10 model (all orders of small projects), compareProjects and the filter cache by the "
    "oracle (two-locale projects = union of the single-file single-locale projects)",
]
LEVEL_TEXT = ("Lean 4 theorems over an explicit model of ALL process-wide and instance-wide mutable state (Junk.junkid, parser "
              "singletons, Context objects with line cache and inc filter flag, getParser entry points, mozpath.re_cache, "
              "Matcher._cached_re, ProjectConfig._all_locales/_cache, DTDChecker.__known_entities and the class-level text "
              "handler): every memo of a reachable state is coherent and every modelled operation returns its cache-free "
              "reference semantics; "
              "reports are independent of the reachable state when no real key has the shape of a junk key, junk keys are pairwise "
              "distinct, the counter only shows in junk keys, entries survive later parses; the model is tied to the Python by "
              "running whole histories through both; an independent oracle compares every operation of 2-6 step histories over all "
              "seven formats with the same operation in a fresh interpreter, all orders of 4-file projects with the union of the "
              "single-file reports, and held entity objects before/after the parser is reused")
LEVEL_NOTE = ("trusted: Lean kernel; hand-written state models (CLModel/History/State.lean, Machine.lean) validated by history "
              "correspondence of results AND of a digest of every real state component after every operation; state outside "
              "the model (PropertiesChecker/FluentChecker/AndroidChecker instances, expat, fluent/minidom parsers, the re module's "
              "own cache) is covered by execution only; hypotheses NoJunkLikeKeys / Op.safe are necessary (negation witnesses; "
              "the real code shows finding F8 resp. the stale filter cache there)")
TECHNIQUE = "Lean 4 proof over an explicit global-state model + history-vs-fresh-interpreter differential oracle"
TRUSTED = [
    "hand-written model CLModel/History/World.lean of the file system (regular files and symbolic links under opaque path texts, "
    "directories implicit, merge targets never links) and of readFile / compare / add / lint on paths (tied by the `c18.wrun` "
    "correspondence: result, junk counter, inc flag and every file of the world after every operation)",
    "hand-written model CLModel/History/State.lean of Junk.junkid, parser singletons, Context objects, findDuplicates and "
    "ContentComparer.compare with the base Checker (tied by the `c18.run` history correspondence)",
    "hand-written model CLModel/History/Machine.lean of the remaining state (inc flag, getParser with entry points, re_cache, "
    "Matcher/ProjectConfig/DTDChecker objects with their memos) and of lint / merge with the base Checker (tied by the "
    "`c18.mrun` correspondence: result and state digest after every operation)",
    "the pure models it wraps: PM.* (C11/C12), FiltM.* (C14), Ser.* (C16), Merge.* (C04, C15), Dtd.entitiesForValue (C07)",
    "P.walk of CLModel/Parser (C01) for the entries of one parse",
]
ASSUMPTIONS = [
    "world histories: no path of the pool is a directory prefix of another one, symbolic links point to files (never to "
    "directories), a merge target is never a symbolic link; the root directory is private to one history",
    "one Observer without filter per ContentComparer (an empty ObserverList ignores everything)",
    "texts contain no carriage returns; files are read and written as UTF-8",
]

FINDING = "F8-junk-key-counter-collision"
FNAME_ = {"properties": "a.properties", "dtd": "a.dtd", "ini": "a.ini", "inc": "a.inc", "po": "a.po",
          "ftl": "a.ftl", "android": "strings.xml"}
FORMATS = ["properties", "dtd", "ini", "inc", "po", "ftl", "android"]
MODEL_PARSE = ["properties", "dtd", "ini", "inc", "po"]
MODEL_COMPARE = ["ini", "inc"]
EXT = {"properties": "properties", "dtd": "dtd", "ini": "ini", "inc": "inc", "po": "po", "ftl": "ftl"}
KEYS = ["a", "b", "c", "key_d", "accesskey", "e.f"]
VALS = {
    None: ["1", "two words", "x \ufffd y", "12", "<b>bold</b> text", "", "three more words"],
    "properties": ["%S and %1$S", "#1 file;#1 files", "line\\\n  cont", "\\u0041bc"],
    "dtd": ["a &amp; b", "&foo; bar", "width: 10em", "it's", "unclosed <b>", "&bar;&foo;", "say \\u0022hi",
            "10em", "12", "&bar;", "<b>open\n", "100%", "two\nlines <", "width: 1ch; height: 2em", "'quoted \\u00zz'"],
    "ftl": ["{ $x } items", "{ -term }", "{ a }"],
    "android": ["%1$s done", "it\\'s", "it's", "%d of %d"],
    "po": ["quote \\\" q", "tab\\t"],
    "ini": ["k=v=w"],
    "inc": ["<em:contributor>X</em:contributor>"],
}
SPECIAL = {
    "properties": ["# comment\n", "\n", "junk line\n", "# License\n", "! bang\n"],
    "dtd": ["<!-- comment -->\n", "\n", "junk <\n", '<!ENTITY % brandDTD SYSTEM "chrome://b/l.dtd">\n%brandDTD;\n',
            "<!-- License -->\n"],
    "ini": ["; comment\n", "\n", "junk\n", "[Sec]\n", "# License\n"],
    "inc": ["# comment\n", "\n", "junk\n", "#filter emptyLines\n", "#unfilter emptyLines\n", "\n\n", "#expand x\n"],
    "po": ["# comment\n", "junk\n", 'msgctxt "c"\nmsgid "a"\nmsgstr "ctx"\n\n', "\n"],
    "ftl": ["# comment\n", "\n", "junk {\n", "-term = T\n", "k =\n    .attr = v\n", "## group\n"],
    "android": ["  <!-- comment -->\n", "\n", '  <plurals name="p"/>\n', "  <string>noname</string>\n"],
}


# names WITHOUT a parser that share an extension or a substring with a supported name
NEAR = {
    "android": ["values.xml", "strings.xml.txt", "string.xml", "res/values.xml"],
    "dtd": ["a.dtd.bak", "a.dtdx", "dtd"],
    "properties": ["foo.properties.orig", "a.propertiesx", "properties"],
    "ini": ["a.ini.bak", "a.init"],
    "inc": ["a.inc.orig", "a.incl"],
    "ftl": ["a.ftl.txt", "a.ftlx"],
    "po": ["a.po.bak", "a.pox", "a.potx"],
}
# other names WITH a parser
ALIAS = {
    "android": ["mystrings.xml", "strings-v2.xml", "res/strings.xml"],
    "dtd": ["b.dtd"], "properties": ["x.y.properties"], "ini": ["b.ini"], "inc": ["defines.inc"],
    "ftl": ["b.ftl"], "po": ["a.pot", "b.po"],
}
EMPTY = ["", " \n", "\n", "\t"]


def entity(fmt, k, v):
    if fmt == "properties":
        return "%s=%s\n" % (k, v)
    if fmt == "dtd":
        return '<!ENTITY %s "%s">\n' % (k, v)
    if fmt == "ini":
        return "%s=%s\n" % (k, v)
    if fmt == "inc":
        return "#define %s %s\n" % (k.replace(".", "_"), v)
    if fmt == "po":
        return 'msgid "%s"\nmsgstr "%s"\n\n' % (k, v)
    if fmt == "ftl":
        return "%s = %s\n" % (k.replace(".", "-"), v if v else "{\"\"}")
    if fmt == "android":
        return '  <string name="%s">%s</string>\n' % (k, v)
    raise ValueError(fmt)


def wrap(fmt, items, rng=None):
    body = "".join(items)
    if fmt == "android":
        return '<?xml version="1.0" encoding="utf-8"?>\n<resources>\n' + body + "</resources>\n"
    if fmt == "ini" and items and rng is not None and rng.random() < 0.5:
        return "[Strings]\n" + body
    return body


def val_of(rng, fmt):
    pool_ = VALS[None] + VALS.get(fmt, [])
    if fmt == "android" and rng.random() < 0.9:
        pool_ = [v for v in pool_ if "&" not in v and "<" not in v] + VALS["android"]
    return rng.choice(pool_)


def gen_items(rng, fmt, n=None):
    """list of (kind, key, text) items"""
    items = []
    n = rng.randrange(1, 6) if n is None else n
    for _ in range(n):
        if rng.random() < 0.7:
            k = rng.choice(KEYS)
            items.append(("e", k, entity(fmt, k, val_of(rng, fmt))))
        else:
            items.append(("s", None, rng.choice(SPECIAL[fmt])))
    return items


def derive(rng, fmt, items):
    """a localization of a reference: keep / change / drop / break items, maybe add some"""
    out = []
    for kind, k, text in items:
        r = rng.random()
        if kind == "e":
            if r < 0.55:
                out.append(text)
            elif r < 0.75:
                out.append(entity(fmt, k, val_of(rng, fmt)))
            elif r < 0.88:
                pass
            else:
                out.append(rng.choice(SPECIAL[fmt]))
        elif r < 0.7:
            out.append(text)
    if rng.random() < 0.4:
        for kind, k, text in gen_items(rng, fmt, rng.randrange(1, 3)):
            out.insert(rng.randrange(len(out) + 1), text)
    if fmt == "android" and rng.random() < 0.08:
        return '<?xml version="1.0"?>\n<resources>\n  <string name="a">broken\n'
    return wrap(fmt, out, rng)


def gen_pair(rng, fmt):
    items = gen_items(rng, fmt)
    ref = wrap(fmt, [t for _, _, t in items], rng)
    l10n = derive(rng, fmt, items)
    r = rng.random()
    if r < 0.05:
        l10n = rng.choice(EMPTY)            # zero-byte / white-space only localization
    elif r < 0.09:
        ref = rng.choice(EMPTY)             # ... reference
    return ref, l10n


def gen_op(rng, kind=None, fmt=None):
    kind = kind or rng.choice(["parse", "parse", "compare", "compare", "compare", "lint", "merge", "serialize",
                               "mozmatch", "project", "files", "add", "hasparser", "chan", "getparser", "matcherq", "cfgq",
                               "mozfn", "rewalk", "walk2"])
    fmt = fmt or rng.choice(FORMATS)

    def rename(op):
        # sometimes another file name: one without a parser that looks like a supported one, or another supported one
        r = rng.random()
        if r < 0.12:
            op["name"] = rng.choice(NEAR[fmt])
        elif r < 0.2:
            op["name"] = rng.choice(ALIAS[fmt])
        return op
    if kind == "parse":
        ref, l10n = gen_pair(rng, fmt)
        op = {"op": "parse", "fmt": fmt, "text": rng.choice([ref, l10n])}
        if rng.random() < 0.3:
            op["via"] = "file"
            if rng.random() < 0.3:
                rename(op)
        if fmt not in MODEL_PARSE and rng.random() < 0.3:
            op["keyed"] = True
        return op
    if kind in ("compare", "merge"):
        ref, l10n = gen_pair(rng, fmt)
        op = {"op": kind, "fmt": fmt, "ref": ref, "l10n": l10n}
        if fmt == "dtd" and rng.random() < 0.4:
            op["extra"] = ["android-dtd"]
        return rename(op)
    if kind == "lint":
        ref, l10n = gen_pair(rng, fmt)
        op = {"op": "lint", "fmt": fmt, "cur": l10n, "ref": ref if rng.random() < 0.6 else None}
        if fmt == "dtd" and rng.random() < 0.4:
            op["extra"] = ["android-dtd"]
        return rename(op)
    if kind == "add":
        ref, l10n = gen_pair(rng, fmt)
        return rename({"op": "add", "fmt": fmt, "ref": ref})
    if kind == "hasparser":
        names = [FNAME_[fmt]] + NEAR[fmt] + ALIAS[fmt]
        rng.shuffle(names)
        return {"op": "hasparser", "names": names}
    if kind == "serialize":
        ref, l10n = gen_pair(rng, fmt)
        new = {}
        for k in rng.sample(KEYS, rng.randrange(0, 3)):
            new[k] = None if rng.random() < 0.3 else val_of(rng, fmt)
        return {"op": "serialize", "fmt": fmt, "ref": ref, "old": l10n, "new": sorted(new.items())}
    if kind == "mozmatch":
        pats = ["foo/*", "foo/**", "**/bar", "foo/**/baz", "foo/*/baz", "*.dtd", "browser/**", "foo/bar", "f*o/*/x"]
        paths = ["foo/bar", "foo", "foo/x/baz", "a.dtd", "browser/a/b.ftl", "fxo/y/x", "foo/baz", "foo/x/y/baz", "foo/a/b"]
        return {"op": "mozmatch", "pattern": rng.choice(pats), "paths": paths}
    if kind == "project":
        return gen_project(rng)
    if kind == "chan":
        return {"op": "chan", "fmt": fmt, "texts": [rng.choice(gen_pair(rng, fmt)) for _ in range(rng.randrange(1, 4))]}
    if kind == "getparser":
        names = [FNAME_[fmt]] + NEAR[fmt] + ALIAS[fmt] + ["unknown.xyz", "q.c18x", "", "README", "a.dtd.properties"]
        return {"op": "getparser", "path": rng.choice(names)}
    if kind == "rewalk":
        # walks whatever Context the shared parser holds: a disturbance for the others, not compared itself
        return {"op": "rewalk", "fmt": fmt, "nocmp": True}
    if kind == "walk2":
        ref, l10n = gen_pair(rng, fmt)
        return {"op": "walk2", "fmt": fmt, "text": rng.choice([ref, l10n] + STATEFUL.get(fmt, []))}
    if kind == "matcherq":
        return gen_matcherq(rng)
    if kind == "cfgq":
        return gen_cfgq(rng)
    if kind == "mozfn":
        return {"op": "mozfn", "paths": rng.sample(["foo/bar/baz", "/a/b/../c", "a//b/", "x.y.ftl", "", "/", "foo\\bar", "a/b/c.d/e"], 4),
                "bases": rng.sample(["foo", "foo/bar", "", "/a", "a/b"], 3)}
    if kind == "files":
        files = gen_files(rng, rng.randrange(1, 4))
        order = list(range(len(files)))
        rng.shuffle(order)
        return {"op": "files", "files": files, "order": order}
    raise ValueError(kind)


def gen_matcherq(rng):
    """one Matcher object used several times (match, sub, prefix, with_env): every answer must be the one a freshly
    built Matcher gives"""
    steps = []
    for _ in range(rng.randrange(2, 7)):
        r = rng.random()
        if r < 0.55:
            steps.append(["match", rng.choice(M_PATHS)])
        elif r < 0.7:
            steps.append(["with", rng.choice(M_WITH)])
        elif r < 0.85:
            steps.append(["sub", rng.choice(M_PATTERNS), rng.choice(M_ENVS), rng.choice(M_PATHS)])
        else:
            steps.append(["prefix"])
    return {"op": "matcherq", "pattern": rng.choice(M_PATTERNS), "env": rng.choice(M_ENVS),
            "root": rng.choice([None, None, "/r"]), "steps": steps}


def gen_cfgq(rng):
    """one ProjectConfig (with an included and an excluded configuration, or a legacy filter.py) asked several times,
    set_locales / all_locales in between: every answer must be the one a freshly built configuration gives"""
    cfg = gen_cfg(rng, 1)
    spec = {k: cfg[k] for k in ("locales", "env", "root", "paths", "rules")}
    if rng.random() < 0.4:
        spec["children"] = [{k: gen_cfg(rng, 1)[k] for k in ("locales", "env", "root", "paths", "rules")}]
    if rng.random() < 0.25:
        spec["excludes"] = [{"locales": ["de", "fr"], "env": [], "root": None, "paths": [["/l/{locale}/b/**", None]], "rules": []}]
    if rng.random() < 0.15:
        spec["filter_py"] = rng.choice(["ignore-b", "raise", "report"])
        spec["rules"] = []
    steps = []
    if rng.random() < 0.4 and not spec.get("filter_py"):
        # the configuration still grows after `all_locales` was asked (never after a filter query: Python keeps the
        # FilterCache of a locale across add_paths / add_rules, see C18.filter_stale_after_add_rules)
        steps += [["all_locales"], ["add_paths", [["/l/{locale}/**", ["he"]]]], ["all_locales"]]
    for _ in range(rng.randrange(3, 9)):
        r = rng.random()
        if r < 0.7:
            steps.append(["filter"] + list(gen_query(rng)))
        elif r < 0.8:
            steps.append(["all_locales"])
        elif r < 0.9:
            steps.append(["set_locales", rng.choice([None, ["de"], ["fr"], ["de", "fr", "he"]]), rng.random() < 0.5])
        else:
            steps.append(["same"])
    return {"op": "cfgq", "spec": spec, "steps": steps}


def gen_files(rng, n):
    files = []
    used = set()
    while len(files) < n:
        fmt = rng.choice(FORMATS)
        d = rng.choice(["", "browser/", "browser/chrome/", "toolkit/"])
        rel = d + ("strings.xml" if fmt == "android" else "f%d.%s" % (len(files), EXT[fmt]))
        if rel in used:
            continue
        used.add(rel)
        ref, l10n = gen_pair(rng, fmt)
        files.append([rel, ref, l10n])
    return files


def gen_project(rng, files=None, locales=("de", "fr")):
    files = files if files is not None else gen_files(rng, rng.randrange(1, 4))
    proj = {}
    for rel, ref, l10n in files:
        loc = {}
        for l in locales:
            r = rng.random()
            if r < 0.75:
                loc[l] = l10n if l == locales[0] else ref
            elif r < 0.85:
                loc[l] = ref
        proj[rel] = [None if rng.random() < 0.08 and loc else ref, loc]
    filters = []
    if rng.random() < 0.7:
        rel = rng.choice(files)[0]
        filters.append([rel, rng.choice(KEYS), rng.choice(["ignore", "warning"])])
    op = {"op": "project", "locales": list(locales), "files": proj, "filters": filters}
    tops = sorted({rel.split("/")[0] for rel in proj if "/" in rel})
    if tops and rng.random() < 0.6:
        # l10n.ini style: some top-level directories are legacy modules, the rest is covered by a plain entry
        op["modules"] = rng.sample(tops, rng.randrange(1, len(tops) + 1))
    return op


# ---------------------------------------------------------------- the deliberately constructed collision
def collision_probes():
    """A real key that IS the key string a Junk of the same file pair will get for one value of the counter:
    `<key>=1\\n<junk>` where <key> = "_junk_<n>_<a>-<b>" and (a, b) is the span of <junk> (a fixed point, since
    the span depends on the length of the key).  n = the counter value in a fresh interpreter."""
    probes = []

    def fix(mk, junk, n):
        a = b = 0
        for _ in range(20):
            key = "_junk_%d_%d-%d" % (n, a, b)
            text = mk(key)
            a2 = len(text)
            b2 = a2 + len(junk)
            if (a2, b2) == (a, b):
                return key, text + junk
            a, b = a2, b2
        return None

    for fmt, mk, junk in [
        ("properties", lambda k: "%s=1\n" % k, "zzz"),
        ("ini", lambda k: "%s=1\n" % k, "zzz"),
        ("ini", lambda k: "[Strings]\nb=2\n%s=1\n" % k, "junk junk"),
        ("dtd", lambda k: '<!ENTITY %s "1">\n' % k, "zz <"),
    ]:
        r = fix(mk, junk, 1)
        if r:
            key, l10n = r
            ref = entity(fmt, "a", "1")
            probes.append({"op": "compare", "fmt": fmt, "ref": ref, "l10n": l10n, "probe": "dup"})
            probes.append({"op": "lint", "fmt": fmt, "ref": None, "cur": l10n, "probe": "dup"})
    # the reference's junk collides with a real key of the localization: `Junk.equals` does not exist
    probes.append({"op": "compare", "fmt": "ini", "ref": "zzz", "l10n": "_junk_1_0-3=1\n", "probe": "equal"})
    probes.append({"op": "merge", "fmt": "properties", "ref": "zzz", "l10n": "_junk_1_0-3=1\n", "probe": "equal"})
    return probes


JUNK_SHAPE = re.compile(r"_junk_(\d+)_(\d+)-(\d+)\Z")


def clash_rootcause(op, jid_ranges):
    """root-cause predicate of F8: a real entity key of the shape `_junk_<n>_<a>-<b>` where (a, b) is the span
    of a Junk of the same operation and n is a counter value handed out during one of the two runs"""
    if "fmt" not in op:
        return False
    from compare_locales.parser import getParser
    from compare_locales.parser.base import Junk, Entity
    from impl.history import FNAME
    real, spans = set(), set()
    for f in ("ref", "l10n", "text", "cur", "old"):
        t = op.get(f)
        if not isinstance(t, str):
            continue
        p = type(getParser(FNAME[op["fmt"]]))()
        p.readUnicode(t)
        for e in p.walk():
            if isinstance(e, Junk):
                spans.add(tuple(e.span))
            elif isinstance(e, Entity) and isinstance(e.key, str):
                m = JUNK_SHAPE.match(e.key)
                if m:
                    real.add(tuple(int(x) for x in m.groups()))
    for n, a, b in real:
        if (a, b) in spans and any(lo < n <= hi for lo, hi in jid_ranges):
            return True
    return False


# ---------------------------------------------------------------- process handling
def fresh_calls(base, op_lists, timeout=30.0, jobs=14):
    """run_ops(base, ops) for every ops list, EACH IN ITS OWN FRESH INTERPRETER"""
    def one(ops):
        w = pool.Worker()
        try:
            r = w.call([["impl.history", "run_ops", [base, ops]]], timeout + 0.5 * len(ops))
        finally:
            w.close()       # end of input: the worker writes its coverage dump, then it is reaped
        if r is None:
            return None
        r = r[0]
        if "r" not in r:
            return {"adapter_exc": r}
        return r["r"]
    if not op_lists:
        return []
    with ThreadPoolExecutor(min(jobs, os.cpu_count() or 4)) as ex:
        return list(ex.map(one, op_lists))


def opkey(op):
    return hashlib.sha256(json.dumps(op, sort_keys=True).encode()).hexdigest()[:20]


def model_line(ops):
    toks = ["c18.run"]
    for o in ops:
        if o["op"] == "parse":
            toks += ["parse", o["fmt"], C.enc(o["text"])]
        else:
            toks += ["compare", o["fmt"], C.enc(o["ref"]), C.enc(o["l10n"])]
    return " ".join(toks)


def model_ok(op):
    if op.get("name"):
        return False
    if op["op"] == "parse":
        return op["fmt"] in MODEL_PARSE and not op.get("keyed")
    return op["op"] == "compare" and op["fmt"] in MODEL_COMPARE and not op.get("extra")


# ---------------------------------------------------------------- round 4: histories of the whole state machine (HistM)
M_FMT_TEXT = ["ini", "inc"]                       # compare / lint / merge of the model: base Checker
M_FMT_SER = ["ini", "properties", "inc", "dtd"]
M_MOZ_PATS = ["foo/*", "foo/**", "**/bar", "foo/**/baz", "*.dtd", "browser/**", "foo/bar", "", "f*o/*/x"]
M_MOZ_PATHS = ["foo/bar", "foo", "foo/x/baz", "a.dtd", "browser/a/b.ftl", "fxo/y/x", "foo/baz", "foo/x/y/baz"]
M_PATTERNS = ["{l}/**", "{l10n_base}/{locale}/**", "/l/{locale}/*.ini", "/l/{locale}/b/**/c.ftl", "/l/{locale}/a.ini",
              "x/{android_locale}/s.xml", "/l/*/{locale}", "{l10n_base}/{locale}/b/*", "/l/**", "/l/{locale}/"]
M_ENVS = [[], [["l", "x/{locale}"]], [["l10n_base", "/l"]], [["locale", "de"]], [["l10n_base", "/l"], ["l", "{l10n_base}/{locale}"]]]
M_WITH = [[["locale", "de"]], [["locale", "fr"]], [["locale", "he"]], [["l10n_base", "/m"]], []]
M_PATHS = ["/l/de/a.ini", "/l/fr/a.ini", "/l/de/b/x/c.ftl", "/l/de/b/c.ftl", "x/de/q", "x/iw/s.xml", "x/b+sr+Latn/s.xml",
           "/l/q/de", "/l/de/b/z", "/m/de/a.ini", "/l/de/", "nope"]
M_LOCALES = ["de", "fr", "he", "xx"]
M_KEYS = ["a", "key_d", "b"]
M_REFVALS = ["&foo; x", "&bar;&amp;", "plain", "&brandShortName; and &foo;", "width: 10em"]
M_TEXTS = ["plain", "it\\'s", "say &amp; go", "x &lt; y", "two\nlines", "\\u0041bc", ""]
M_QUERIES = [("/l/de/a.ini", "de"), ("/l/fr/a.ini", "fr"), ("/l/de/b/x", "de"), ("/l/de/b/x/c.ftl", "de"), ("/m/de/a.ini", "de"),
             ("/m/fr/a.ini", "fr"), ("/l/fr/b/z", "fr"), ("/l/he/a.ini", "he"), ("/proj/src/l/de/a.ini", "de")]
PLUGIN_RE = r"c18.*\.c18x$"
PLUGIN_NAMES = ["c18a.c18x", "other.c18x", "c18b.c18x", "c18a.c18x.bak", "a.properties", "dir/c18/x.c18x"]


def gen_query(rng):
    """a (fullpath, locale, key) the generated configurations have something to say about"""
    pth, loc = rng.choice(M_QUERIES)
    if rng.random() < 0.12:
        loc = rng.choice(M_LOCALES)
    return pth, loc, rng.choice([None, None] + M_KEYS)


def xml_text(v):
    return v.replace("&lt;", "<").replace("&gt;", ">").replace("&amp;", "&")


def m_root(root, base=None):
    """what `Matcher` stores: mozpath.abspath(root) + "/" """
    if root is None:
        return None
    if base is not None:
        root = os.path.join(base, root)
    return os.path.abspath(root).replace(os.sep, "/") + "/"


def compiled_rules(rules):
    """_compile_rule: one rule per (path, key), path-major; key literal | re:regex | absent"""
    out = []
    for r in rules:
        paths = [r["path"]] if isinstance(r["path"], str) else list(r["path"])
        for pth in paths:
            if r.get("key") is None:
                out.append((pth, None, r["action"]))
            else:
                keys = [r["key"]] if isinstance(r["key"], str) else list(r["key"])
                for k in keys:
                    out.append((pth, k, r["action"]))
    return out


def m_rules_toks(rules):
    import translate
    toks = []
    comp = compiled_rules(rules)
    toks.append(str(len(comp)))
    for pth, k, act in comp:
        toks.append(C.enc(pth))
        if k is None:
            toks.append("-")
        elif k.startswith("re:"):
            toks += ["X", translate.wire_pattern(k[3:])[0]]
        else:
            toks += ["L", C.enc(k)]
        toks.append(act[0])
    return toks


def m_locs(locs):
    return ["N"] if locs is None else [str(len(locs))] + [C.enc(l) for l in locs]


def m_env(env):
    env = env or []
    return [str(len(env))] + [C.enc(x) for kv in env for x in kv]


def m_paths_toks(paths):
    toks = [str(len(paths))]
    for pat, locs in paths:
        toks += [C.enc(pat)] + m_locs(locs)
    return toks


def m_tokens(o):
    k = o["op"]
    if k == "parse":
        return ["parse", o["fmt"], C.enc(o["text"])]
    if k == "compare":
        return ["compare", o["fmt"], C.enc(o["ref"]), C.enc(o["l10n"])]
    if k == "rewalk":
        return ["rewalk", o["fmt"]]
    if k == "read":
        return ["read", o["fmt"], C.enc(o["text"])]
    if k == "lint":
        return ["lint", o["fmt"], "-" if o.get("ref") is None else C.enc(o["ref"]), C.enc(o["cur"])]
    if k == "merge":
        return ["merge", o["fmt"], C.enc(o["ref"]), C.enc(o["l10n"])]
    if k == "serialize":
        toks = ["serialize", o["fmt"], C.enc(o["ref"]), C.enc(o["old"]), str(len(o["new"]))]
        for key, v in o["new"]:
            toks += [C.enc(key), "-" if v is None else C.enc(v)]
        return toks
    if k == "chan":
        return ["chan", o["fmt"], str(len(o["texts"]))] + [C.enc(t) for t in o["texts"]]
    if k == "getparser":
        return ["getparser", C.enc(o["path"])]
    if k == "moz":
        return ["moz", C.enc(o["path"]), C.enc(o["pattern"])]
    if k == "mnew":
        r = m_root(o.get("root"))
        return ["mnew", str(o["id"]), C.enc(o["pattern"])] + m_env(o.get("env")) + ["-" if r is None else C.enc(r)]
    if k == "mwith":
        return ["mwith", str(o["id"]), str(o["new"])] + m_env(o.get("env"))
    if k == "mmatch":
        return ["mmatch", str(o["id"]), C.enc(o["path"])]
    if k == "msub":
        return ["msub", str(o["id"]), str(o["other"]), C.enc(o["path"])]
    if k == "cnew":
        r = m_root(o.get("root"), "/proj")
        return (["cnew", str(o["id"])] + m_locs(o.get("locales")) + m_env(o.get("env")) + ["-" if r is None else C.enc(r)]
                + m_paths_toks(o.get("paths") or []) + m_rules_toks(o.get("rules") or []))
    if k == "csetloc":
        return ["csetloc", str(o["id"])] + m_locs(o.get("locales"))
    if k == "caddrules":
        return ["caddrules", str(o["id"])] + m_rules_toks(o["rules"])
    if k == "caddpaths":
        return ["caddpaths", str(o["id"])] + m_paths_toks(o["paths"])
    if k == "cfilter":
        return ["cfilter", str(o["id"]), C.enc(o["fullpath"]), C.enc(o["locale"]), "-" if o.get("key") is None else C.enc(o["key"])]
    if k == "calllocales":
        return ["calllocales", str(o["id"])]
    if k == "dnew":
        return ["dnew", str(o["id"]), "1" if o.get("android") else "0"] + m_locs(o.get("reference"))
    if k == "dknown":
        return ["dknown", str(o["id"]), C.enc(o["value"])]
    if k == "dtext":
        return ["dtext", str(o["id"]), C.enc(o["ref"]), "1", C.enc(xml_text(o["text"]))]
    raise ValueError(k)


def m_line(ops):
    """c18.mrun line of a machine history (first op = env)"""
    import translate
    ep = ops[0].get("ep", "none")
    if ep == "nopkg":
        toks = ["U"]
    elif ep == "plugin":
        toks = ["P", "1", translate.wire_pattern(PLUGIN_RE)[0], C.enc("PluginParser")]
    else:
        toks = ["P", "0"]
    for o in ops[1:]:
        toks += m_tokens(o)
    return "c18.mrun " + " ".join(toks)


# texts that leave state behind on the Context they were read into (inc: filter switched on at the end, blank lines
# before it; BOM; files ending in junk or in a comment without newline)
STATEFUL = {
    "inc": ["#define a 1\n\n\n#define b 2\n#filter emptyLines\n", "#define a\n\n#filter emptyLines\n", "#a b\n\n#filter emptyLines",
            "# c\n\n\n#define a 1\n#filter emptyLines\n\n\n#define b 2\n", "#filter emptyLines\n\n\n#define a 1\n#unfilter emptyLines\n\n\n"],
    "dtd": ['\ufeff<!ENTITY a "x">\n<!ENTITY b "y">\n', '<!ENTITY a "x">\n<!-- trailing', '<!ENTITY a "x">\njunk <'],
    "properties": ["\ufeffa=1\nb=2\n", "a=1\n# trailing comment", "a=1\nzzz", "a=line\\\n"],
    "ini": ["[Strings]\na=1\n; trailing", "a=1\nzzz", "\ufeff[S]\na=1\n"],
    "po": ['msgid "a"\nmsgstr "b"\n\n# trailing', 'msgid "a"\nmsgstr "b"\n\njunk'],
    "ftl": ["a = 1\n# trailing", "a = 1\njunk {", "\ufeffa = 1\n"],
    "android": ['<?xml version="1.0" encoding="utf-8"?>\n<resources>\n  <string name="a">x</string>\n</resources>\n<!-- after -->'],
}


def repeat_histories(ctx, rng):
    """the SAME (format, text) twice in a row through the same shared parser: parse-parse, parse-compare, compare(A, A),
    compare(A, B) after parse B then parse A, lint after parse, read through a file — every format, texts that leave
    state on their Context included"""
    hs = []
    for fmt in FORMATS:
        texts = list(STATEFUL.get(fmt, []))
        for _ in range(2 if ctx.tier == "quick" else 6):
            texts.append(rng.choice(gen_pair(rng, fmt)))
        if ctx.tier == "quick":
            keep = list(STATEFUL["inc"][:3]) if fmt == "inc" else []       # the texts that end with the filter switched on
            texts = keep + rng.sample(texts, 1 if keep else min(len(texts), 3))
        for a in texts:
            b = rng.choice(gen_pair(rng, fmt))
            pa = {"op": "parse", "fmt": fmt, "text": a}
            pb = {"op": "parse", "fmt": fmt, "text": b}
            cab = {"op": "compare", "fmt": fmt, "ref": a, "l10n": b}
            caa = {"op": "compare", "fmt": fmt, "ref": a, "l10n": a}
            cba = {"op": "compare", "fmt": fmt, "ref": b, "l10n": a}
            la = {"op": "lint", "fmt": fmt, "cur": a, "ref": None}
            lra = {"op": "lint", "fmt": fmt, "cur": a, "ref": a}
            fa = {"op": "parse", "fmt": fmt, "text": a, "via": "file"}
            ma = {"op": "merge", "fmt": fmt, "ref": b, "l10n": a}
            w2 = {"op": "walk2", "fmt": fmt, "text": a}
            shapes = [[pa, pa], [pa, cab], [pb, pa, cab], [pa, caa], [pa, la], [pa, lra], [pa, fa, fa], [pa, ma],
                      [pa, {"op": "rewalk", "fmt": fmt, "nocmp": True}, pa], [w2, pa], [pa, w2]]
            if ctx.tier != "quick":
                shapes += [[caa, caa], [la, la], [pa, cba], [cba, pa]]
            for h in shapes:
                hs.append(("repeat", h))
    return hs


def gen_mtext(rng, fmt):
    ref, l10n = gen_pair(rng, fmt)
    return ref, l10n


def gen_cfg(rng, cid):
    paths = []
    for _ in range(rng.randrange(1, 3)):
        paths.append([rng.choice(["{l10n_base}/{locale}/**", "/l/{locale}/**", "/l/{locale}/**", "/l/{locale}/b/**",
                                  "/m/{locale}/*.ini", "l/{locale}/**"]),
                      rng.choice([None, None, None, ["de"], ["de", "fr"]])])
    rules = [gen_rule(rng) for _ in range(rng.randrange(0, 4))]
    return {"op": "cnew", "id": cid, "locales": rng.choice([None, ["de"], ["de", "fr"], ["de", "fr"], ["fr", "de", "fr"]]),
            "env": rng.choice([[["l10n_base", "/l"]], [["l10n_base", "/m"]], []]), "root": rng.choice([None, None, "src"]),
            "paths": paths, "rules": rules}


def gen_rule(rng):
    pth = rng.choice(["/l/{locale}/a.ini", "/l/{locale}/**", "{l10n_base}/{locale}/b/*", "/l/de/*.ini", "/l/{locale}/b/**/c.ftl"])
    if rng.random() < 0.2:
        pth = [pth, rng.choice(["/m/{locale}/a.ini", "/l/fr/**"])]
    r = rng.random()
    key = None if r < 0.4 else rng.choice(M_KEYS) if r < 0.7 else "re:" + rng.choice(["key_.*", "[ab]$", "a"]) if r < 0.85 \
        else [rng.choice(M_KEYS), "re:k.*"]
    return {"path": pth, "key": key, "action": rng.choice(["ignore", "warning", "error"])}


M_KINDS = ["parse", "compare", "lint", "merge", "rewalk", "read", "serialize", "chan", "getparser", "moz", "matcher", "config", "dtd"]
M_FOCUS = {"text": ["parse", "compare", "lint", "merge", "rewalk", "rewalk", "read", "again", "again", "serialize", "chan"], "matcher": ["matcher"],
           "config": ["config"], "dtd": ["dtd"], "lookup": ["getparser", "moz", "moz"], "mixed": M_KINDS}


def gen_mop(rng, st):
    """one operation of the state machine; `st` = ids of the live objects, focus of the history"""
    k = rng.choice(M_FOCUS[st["focus"]]) if rng.random() < 0.65 else rng.choice(M_KINDS)
    if k in ("matcher", "config", "dtd") and not st[k[0]] and st["focus"] not in (k, "mixed"):
        k = rng.choice(["moz", "getparser", "parse", "rewalk"])       # objects are created in the histories about them
    if k == "again":
        # the SAME text once more through the same shared parser, as parse / read / reference / localization / linted file
        last = st.get("last")
        if last is None:
            k = "parse"
        else:
            fmt, t = last
            other = rng.choice(gen_mtext(rng, fmt))
            r = rng.random()
            if r < 0.3 or fmt not in M_FMT_TEXT:
                return {"op": rng.choice(["parse", "parse", "read"]), "fmt": fmt, "text": t}
            if r < 0.5:
                return {"op": rng.choice(["compare", "merge"]), "fmt": fmt, "ref": t, "l10n": rng.choice([t, other])}
            if r < 0.7:
                return {"op": "compare", "fmt": fmt, "ref": other, "l10n": t}
            return {"op": "lint", "fmt": fmt, "cur": t, "ref": rng.choice([None, t, other])}
    if k in ("parse", "read"):
        fmt = rng.choice(MODEL_PARSE + ["inc", "inc"])
        t = rng.choice(list(gen_mtext(rng, fmt)) + STATEFUL.get(fmt, []))
        st["last"] = (fmt, t)
        return {"op": k, "fmt": fmt, "text": t}
    if k in ("compare", "merge"):
        fmt = rng.choice(M_FMT_TEXT)
        ref, l10n = gen_mtext(rng, fmt)
        return {"op": k, "fmt": fmt, "ref": ref, "l10n": l10n}
    if k == "lint":
        fmt = rng.choice(M_FMT_TEXT)
        ref, l10n = gen_mtext(rng, fmt)
        return {"op": "lint", "fmt": fmt, "cur": l10n, "ref": ref if rng.random() < 0.6 else None}
    if k == "rewalk":
        return {"op": "rewalk", "fmt": rng.choice(MODEL_PARSE + ["inc", "inc"])}
    if k == "serialize":
        fmt = rng.choice(M_FMT_SER)
        ref, l10n = gen_mtext(rng, fmt)
        new = {}
        for key in rng.sample(KEYS, rng.randrange(0, 3)):
            new[key] = None if rng.random() < 0.3 else val_of(rng, fmt)
        return {"op": "serialize", "fmt": fmt, "ref": ref, "old": l10n, "new": sorted(new.items())}
    if k == "chan":
        fmt = rng.choice(M_FMT_SER)
        return {"op": "chan", "fmt": fmt, "texts": [rng.choice(gen_mtext(rng, fmt)) for _ in range(rng.randrange(1, 4))]}
    if k == "getparser":
        fmt = rng.choice(FORMATS)
        return {"op": "getparser", "path": rng.choice([FNAME_[fmt]] + NEAR[fmt] + ALIAS[fmt] + ["q.c18x", "a.c18x.bak", "unknown.xyz", ""] + PLUGIN_NAMES)}
    if k == "moz":
        return {"op": "moz", "path": rng.choice(M_MOZ_PATHS), "pattern": rng.choice(M_MOZ_PATS)}
    if k == "matcher":
        ids = st["m"]
        r = rng.random()
        if not ids or r < 0.2:
            i = rng.randrange(1, 4)
            ids.add(i)
            return {"op": "mnew", "id": i, "pattern": rng.choice(M_PATTERNS), "env": rng.choice(M_ENVS),
                    "root": rng.choice([None, None, None, "/r", "/r.x/y"])}
        i = rng.choice(sorted(ids) + ([9] if rng.random() < 0.05 else []))
        if r < 0.4:
            j = rng.randrange(1, 5)
            if i in ids:
                ids.add(j)
            return {"op": "mwith", "id": i, "new": j, "env": rng.choice(M_WITH)}
        if r < 0.8:
            return {"op": "mmatch", "id": i, "path": rng.choice(M_PATHS)}
        return {"op": "msub", "id": i, "other": rng.choice(sorted(ids)), "path": rng.choice(M_PATHS)}
    if k == "config":
        ids = st["c"]
        r = rng.random()
        if not ids or r < 0.15:
            i = rng.randrange(1, 3)
            ids.add(i)
            return gen_cfg(rng, i)
        i = rng.choice(sorted(ids) + ([9] if rng.random() < 0.05 else []))
        if r < 0.25:
            return {"op": "csetloc", "id": i, "locales": rng.choice([None, ["de"], ["fr"], ["de", "fr", "he"]])}
        if r < 0.33:
            return {"op": "calllocales", "id": i}
        if r < 0.38 and st.get("mutate"):
            return {"op": "caddrules", "id": i, "rules": [gen_rule(rng)]}
        if r < 0.42 and st.get("mutate"):
            return {"op": "caddpaths", "id": i, "paths": [["/l/{locale}/**", rng.choice([None, ["he"]])]]}
        pth, loc, key = gen_query(rng)
        return {"op": "cfilter", "id": i, "fullpath": pth, "locale": loc, "key": key}
    if k == "dtd":
        ids = st["d"]
        r = rng.random()
        if not ids or r < 0.25:
            i = rng.randrange(1, 3)
            ids.add(i)
            return {"op": "dnew", "id": i, "android": rng.random() < 0.5,
                    "reference": rng.choice([None, [], rng.sample(M_REFVALS, 2), M_REFVALS[:1]])}
        i = rng.choice(sorted(ids))
        if r < 0.6:
            return {"op": "dknown", "id": i, "value": rng.choice(M_REFVALS)}
        return {"op": "dtext", "id": i, "ref": rng.choice(M_REFVALS), "text": rng.choice(M_TEXTS)}
    raise ValueError(k)


def gen_mhistory(rng, n, mutate=False):
    st = {"m": set(), "c": set(), "d": set(), "mutate": mutate, "focus": rng.choice(sorted(M_FOCUS))}
    ops = [{"op": "env", "ep": rng.choice(["none", "none", "plugin", "nopkg"])}]
    for _ in range(n):
        ops.append(gen_mop(rng, st))
    return ops


def machine_correspondence(ctx, out, base, rng):
    """histories of the whole state machine through the real code (one fresh interpreter each) and through
    HistM.step (`c18.mrun`): results AND the digest of every state component after every operation"""
    hs = [gen_mhistory(rng, rng.randrange(4, 13), mutate=rng.random() < 0.3) for _ in range(ctx.n(96, 900))]
    # directed: cache hits after with_env / set_locales, the inc flag, the entry-point branch
    hs.append([{"op": "env", "ep": "plugin"}, {"op": "getparser", "path": "q.c18x"}, {"op": "getparser", "path": "q.c18x"},
               {"op": "getparser", "path": "a.ini"}, {"op": "getparser", "path": "values.xml"},
               {"op": "parse", "fmt": "inc", "text": "#filter emptyLines\n\n\n#define a 1\n"}, {"op": "rewalk", "fmt": "inc"},
               {"op": "parse", "fmt": "inc", "text": "#define a 1\n\n\n#define b 2\n#filter emptyLines\n"},
               {"op": "rewalk", "fmt": "inc"}, {"op": "rewalk", "fmt": "inc"}, {"op": "rewalk", "fmt": "ini"}])
    hs.append([{"op": "env", "ep": "nopkg"}, {"op": "getparser", "path": "q.c18x"}, {"op": "getparser", "path": "x"},
               {"op": "rewalk", "fmt": "dtd"}, {"op": "rewalk", "fmt": "po"}])
    cfg = {"op": "cnew", "id": 1, "locales": ["de", "fr"], "env": [["l10n_base", "/l"]], "root": None,
           "paths": [["{l10n_base}/{locale}/**", None], ["/m/{locale}/*.ini", ["fr"]]],
           "rules": [{"path": "/l/{locale}/a.ini", "key": "a", "action": "ignore"},
                     {"path": ["/l/{locale}/**", "/m/{locale}/a.ini"], "key": ["b", "re:key_.*"], "action": "warning"},
                     {"path": "/l/de/b/*", "key": None, "action": "ignore"}]}
    qs = [{"op": "cfilter", "id": 1, "fullpath": p, "locale": l, "key": k}
          for p, l, k in [("/l/de/a.ini", "de", "a"), ("/l/de/a.ini", "de", None), ("/l/fr/a.ini", "fr", "b"),
                          ("/l/de/a.ini", "de", "key_d"), ("/m/fr/a.ini", "fr", "b"), ("/m/de/a.ini", "de", "b"),
                          ("/l/de/b/z", "de", None), ("/l/de/a.ini", "xx", None), ("/l/de/a.ini", "de", "a")]]
    hs.append([{"op": "env", "ep": "none"}, cfg] + qs + [{"op": "calllocales", "id": 1},
              {"op": "csetloc", "id": 1, "locales": ["de"]}] + qs[:4] + [{"op": "calllocales", "id": 1}])
    lines = [m_line(h) for h in hs]
    pres = fresh_calls(base, hs, timeout=60.0)
    mres = C.run_driver_parallel(lines) if ctx.model_ok else [None] * len(lines)
    for h, r, mo in zip(hs, pres, mres):
        if mo is None:
            continue
        if not isinstance(r, list):
            out.disagreements.append({"op": "c18.mrun", "history": h, "impl": "failed: %r" % (r,), "model": mo[:200]})
            continue
        got = mo.split(" || ")
        out.count("machine.histories")
        for i, (o, e) in enumerate(zip(h[1:], r[1:])):
            out.evaluations += 1
            out.count("machine." + o["op"])
            exp = "%s @@ %s" % (e.get("model"), e.get("state"))
            g = got[i] if i < len(got) else "<missing>"
            if exp != g:
                out.disagreements.append({"op": "c18.mrun", "history": h[:i + 2], "index": i + 1, "impl": exp, "model": g})
                break
            res = exp.split(" @@ ")[0]
            if i > 0 and res not in ("ok", "no-object", "done", "none", "None", "-"):
                out.nontrivial.add("M" + hashlib.sha256(exp.encode()).hexdigest()[:16])


def obs_line(blocks):
    """`obs` line (C10 model of Observer / ObserverList) for the event blocks of a multi-file run, one unfiltered observer"""
    files, idx = [], {}
    for b in blocks:
        for ev in b:
            f = tuple(ev[2] if ev[0] == "n" else ev[1])
            if f not in idx:
                idx[f] = len(files)
                files.append(f)
    opt = lambda t: "-" if t is None else C.enc(t)
    toks = ["obs", "0", "0", "F", str(len(files))]
    for file, module, locale in files:
        toks += [C.enc(file), opt(module), opt(locale)]
    toks += ["O", "1", "N"]
    evs = [ev for b in blocks for ev in b]
    toks += ["E", str(len(evs))]
    for ev in evs:
        if ev[0] == "n":
            d = ev[3]
            data = ["-"] if d is None else (["T", str(len(d))] + [opt(x) for x in d]) if isinstance(d, list) else [C.enc(d)]
            toks += ["n", ev[1], str(idx[tuple(ev[2])])] + data
        else:
            toks += ["s", str(idx[tuple(ev[1])]), str(len(ev[2]))] + [str(x) for kv in ev[2] for x in kv]
    return " ".join(toks)


def observer_union_stream(ctx, out, projects):
    """multi_file_union on the Observer's aggregation: for every order of a small project the details tree and the
    summaries the REAL Observer ends with (`show_obs`) against the C10 model (`obs`) fed with the event blocks the
    single-file runs recorded, concatenated in that order"""
    lines, expect = [], []
    for files, perms, singles, permres in projects:
        blocks = [s[0].get("events") for s in singles]
        if any(b is None for b in blocks):
            continue
        for p, r in zip(perms, permres):
            if "c10" not in r:
                continue
            lines.append(obs_line([blocks[i] for i in p]))
            expect.append((files, list(p), r["c10"]))
    mres = C.run_driver_parallel(lines) if (ctx.model_ok and lines) else [None] * len(lines)
    for (files, order, real), mo in zip(expect, mres):
        if mo is None:
            continue
        out.evaluations += 1
        out.count("observer.orders")
        seg = [x for x in mo.split(" |") if x.startswith("O ")]
        got = seg[0][2:] if seg else mo
        if got != real:
            out.disagreements.append({"op": "obs", "files": files, "order": order, "impl": real[:600], "model": got[:600]})
        else:
            out.nontrivial.add("O" + hashlib.sha256(real.encode()).hexdigest()[:16])


def plugin_stream(ctx, out, base, rng):
    """the entry-point branch of getParser under the history oracle: in a process where a distribution registers a
    parser plugin (files `c18*.c18x`), getParser / hasParser / compare / lint / add on plugin names, look-alikes and
    built-in names; every result against the same operation as the first one of such a process"""
    env = {"op": "env", "ep": "plugin"}

    def mk():
        name = rng.choice(PLUGIN_NAMES)
        ref, l10n = gen_pair(rng, "properties")
        k = rng.choice(["getparser", "hasparser", "compare", "lint", "add", "parse"])
        if k == "getparser":
            return {"op": "getparser", "path": name}
        if k == "hasparser":
            return {"op": "hasparser", "names": rng.sample(PLUGIN_NAMES, 3)}
        if k == "compare":
            return {"op": "compare", "fmt": "properties", "ref": ref, "l10n": l10n, "name": name}
        if k == "lint":
            return {"op": "lint", "fmt": "properties", "cur": l10n, "ref": ref, "name": name}
        if k == "add":
            return {"op": "add", "fmt": "properties", "ref": ref, "name": name}
        return {"op": "parse", "fmt": "properties", "text": ref, "via": "file", "name": name}
    hs = [[env] + [mk() for _ in range(rng.randrange(2, 6))] for _ in range(ctx.n(14, 120))]
    hs.append([env, {"op": "getparser", "path": "c18a.c18x"}, {"op": "getparser", "path": "other.c18x"},
               {"op": "hasparser", "names": ["other.c18x", "c18b.c18x"]}, {"op": "getparser", "path": "c18a.c18x"}])
    ops = {}
    for h in hs:
        for o in h[1:]:
            ops.setdefault(opkey(o), o)
    keys = list(ops)
    fr = dict(zip(keys, fresh_calls(base, [[env, ops[k]] for k in keys])))
    for h, res in zip(hs, fresh_calls(base, hs)):
        if not isinstance(res, list):
            out.violations.append({"what": "plugin history failed: %r" % (res,), "input": {"history": h, "index": len(h) - 1}, "finding": None})
            continue
        for i, (o, r) in enumerate(zip(h, res)):
            if i == 0:
                continue
            f = fr.get(opkey(o))
            out.evaluations += 1
            out.count("plugin." + o["op"])
            if not isinstance(f, list):
                out.violations.append({"what": "operation failed in a fresh interpreter: %r" % (f,), "input": {"history": [env, o], "index": 1}, "finding": None})
            elif f[1]["canon"] != r["canon"]:
                out.violations.append({"what": "result of %s depends on what was processed before (entry-point parsers)" % o["op"],
                                       "input": {"history": h[:i + 1], "index": i}, "fresh": f[1]["canon"][:600],
                                       "after_history": r["canon"][:600], "finding": None})
            elif i > 1:
                out.nontrivial.add("P" + hashlib.sha256(r["canon"].encode()).hexdigest()[:16])


def junkkey_correspondence(ctx, out, base, rng):
    """`Junk.key` of the real constructor vs. `Hist.junkKey` (`"%d"` of counter and span) through `c18.junkkey`"""
    cases = [[1, 0, 0], [9, 9, 10], [10, 99, 100], [1, 16, 19], [12345678901, 0, 1]]
    for _ in range(ctx.n(150, 1500)):
        mag = rng.choice([10, 100, 10 ** 4, 10 ** 9, 10 ** 15])
        a = rng.randrange(mag)
        cases.append([rng.randrange(1, mag + 1), a, a + rng.randrange(1, mag)])
    r = fresh_calls(base, [[{"op": "junkkey", "cases": cases}]])[0]
    if not isinstance(r, list) or "keys" not in r[0]:
        out.disagreements.append({"op": "c18.junkkey", "impl": "failed: %r" % (r,), "model": None})
        return
    mres = C.run_driver_parallel(["c18.junkkey %d %d %d" % tuple(c) for c in cases]) if ctx.model_ok else [None] * len(cases)
    for c, k, mo in zip(cases, r[0]["keys"], mres):
        if mo is None:
            continue
        out.evaluations += 1
        out.count("junkkey")
        if C.enc(k) != mo:
            out.disagreements.append({"op": "c18.junkkey", "case": c, "impl": k, "model": mo})


def near_and_empty_histories(ctx, rng):
    """(a) files whose names have NO parser but look like supported ones, before and after real files of that
    format; (b) zero-byte and white-space only files as reference / localization / linted file, read through
    Parser.readFile AFTER the same singleton parser has read a non-empty file"""
    hs = []
    for fmt in FORMATS:
        ref, l10n = gen_pair(rng, fmt)
        while len(ref) < 8 or len(l10n) < 8:
            ref, l10n = gen_pair(rng, fmt)
        real = [{"op": "compare", "fmt": fmt, "ref": ref, "l10n": l10n},
                {"op": "lint", "fmt": fmt, "cur": l10n, "ref": None},
                {"op": "parse", "fmt": fmt, "text": ref, "via": "file"}]
        names = NEAR[fmt] + ALIAS[fmt]
        if ctx.tier == "quick":
            names = NEAR[fmt][:2] + ALIAS[fmt][:1]
        for name in names:
            near = [{"op": "hasparser", "names": [name]},
                    {"op": "compare", "fmt": fmt, "ref": ref, "l10n": l10n, "name": name},
                    {"op": "lint", "fmt": fmt, "cur": l10n, "ref": ref, "name": name},
                    {"op": "add", "fmt": fmt, "ref": ref, "name": name},
                    {"op": "parse", "fmt": fmt, "text": ref, "via": "file", "name": name}]
            hs.append(("near", [rng.choice(real)] + near))              # real file first, then the look-alikes
            hs.append(("near", near[:2] + [rng.choice(real)] + near))   # look-alike, real, look-alike again
            for n in near:
                hs.append(("near", [rng.choice(real), n]))
        empties = EMPTY if ctx.tier != "quick" else EMPTY[:2]
        for e in empties:
            eops = [{"op": "compare", "fmt": fmt, "ref": e, "l10n": l10n},
                    {"op": "compare", "fmt": fmt, "ref": ref, "l10n": e},
                    {"op": "compare", "fmt": fmt, "ref": e, "l10n": e},
                    {"op": "merge", "fmt": fmt, "ref": ref, "l10n": e},
                    {"op": "lint", "fmt": fmt, "cur": e, "ref": None},
                    {"op": "lint", "fmt": fmt, "cur": e, "ref": ref},
                    {"op": "lint", "fmt": fmt, "cur": l10n, "ref": e},
                    {"op": "add", "fmt": fmt, "ref": e},
                    {"op": "parse", "fmt": fmt, "text": e, "via": "file"},
                    {"op": "serialize", "fmt": fmt, "ref": ref, "old": e, "new": []}]
            for o in (eops if ctx.tier != "quick" else rng.sample(eops, 6)):
                hs.append(("empty", [rng.choice(real), o]))
            hs.append(("empty", [real[0]] + eops))
    return hs


# ---------------------------------------------------------------- round 5: FILE IDENTITY (a world of paths)
W_MODEL_CMP = ("ini", "inc")
W_TOML_MAIN = """basepath = "."
locales = %(locales)s
[[paths]]
  reference = "en/main/**"
  l10n = "{l10n_base}/{locale}/main/**"
%(filters)s%(includes)s"""
W_TOML_SUB = """basepath = ".."
%(locales)s[[paths]]
  reference = "en/browser/%(glob)s"
  l10n = "{l10n_base}/{locale}/browser/%(glob)s"
%(filters)s"""


def w_write(rel, text, **opts):
    return {"op": "wfs", "do": [["write", rel, text] + ([opts] if opts else [])], "nocmp": True}


def w_act(*act):
    return {"op": "wfs", "do": [list(act)], "nocmp": True}


def w_swap(a, b):
    """the contents of two paths change places (three renames: the entries themselves move)"""
    return [w_act("rename", a, "swap.tmp"), w_act("rename", b, a), w_act("rename", "swap.tmp", b)]


def same_size(text, rng):
    """another text of the same length (a cache validated by the size of the file does not notice)"""
    idx = [i for i, c in enumerate(text) if c.isalnum()]
    if not idx:
        return text
    i = idx[-1] if rng.random() < 0.6 else rng.choice(idx)
    c = "x" if text[i] != "x" else "y"
    return text[:i] + c + text[i + 1:]


class WGen:
    """histories over a small pool of paths of ONE format: the same path carries different contents at different
    times.  Unit = [compare-locales operation on paths; file-system change of one of ITS paths; the operation (or
    another one on the same paths) again]."""

    def __init__(self, rng, fmt, model=False):
        self.rng, self.fmt, self.model = rng, fmt, model
        name = FNAME_[fmt]
        self.name = name
        self.refs = ["ref/" + name, "ref2/" + name, "ref/sub/" + name]
        self.l10ns = ["l10n/" + name, "l10n2/" + name]
        self.link = "lnk/" + name
        self.merge = "merge/" + name
        self.vers = []
        for _ in range(4):
            ref, l10n = gen_pair(rng, fmt)
            self.vers.append((ref, l10n))
        self.ops = []
        self.ver = {}          # path -> index of the version it holds (None: something else)

    def text(self, role, avoid=None):
        i = self.rng.randrange(len(self.vers))
        t = self.vers[i][0 if role == "ref" else 1]
        if t == avoid:
            t = self.vers[(i + 1) % len(self.vers)][0 if role == "ref" else 1]
        if t == avoid:
            t2 = same_size(t, self.rng)
            t = t2 if t2 != t else t + "\n"
        return t

    def role(self, path):
        return "ref" if path.startswith(("ref", "lnk")) else "l10n"

    def setup(self):
        rng = self.rng
        self.cur = {}          # path -> text we last wrote (best effort; only used to pick DIFFERENT contents)
        for pth in self.refs[:2] + self.l10ns[:1]:
            t = self.text(self.role(pth), avoid=self.cur.get(self.refs[0]) if pth == self.refs[1] else None)
            self.cur[pth] = t
            self.ops.append(w_write(pth, t))

    def cl_op(self, kind=None, ref=None, l10n=None):
        rng, fmt = self.rng, self.fmt
        ref = ref or self.refs[0]
        l10n = l10n or self.l10ns[0]
        kind = kind or rng.choice(["wcompare"] * 5 + ["wadd", "wadd", "wlint", "wlint", "wread", "wmerge"])
        extra = ["android-dtd"] if (fmt == "dtd" and rng.random() < 0.3) else None
        if self.model and kind == "wread" and rng.random() < 0.5:
            kind = "wmerge"
        if kind in ("wcompare", "wmerge"):
            op = {"op": "wcompare", "fmt": fmt, "ref": ref, "l10n": l10n}
            if kind == "wmerge":
                op["merge"] = self.merge
            if rng.random() < 0.3:
                op["cc"] = "shared"
            if extra:
                op["extra"] = extra
            return op
        if kind == "wadd":
            op = {"op": "wadd", "fmt": fmt, "ref": ref}
            if rng.random() < 0.25 and not self.model:
                op["merge"] = self.merge
            if rng.random() < 0.3:
                op["cc"] = "shared"
            return op
        if kind == "wlint":
            op = {"op": "wlint", "fmt": fmt, "cur": l10n, "ref": ref if rng.random() < 0.75 else None}
            if rng.random() < 0.3:
                op["linter"] = "shared"
            if extra:
                op["extra"] = extra
            return op
        return {"op": "wread", "fmt": fmt, "path": rng.choice([ref, l10n])}

    def paths_of(self, op):
        return [op[k] for k in ("ref", "l10n", "cur", "path") if op.get(k)]

    def respell(self, op):
        """the same file under another spelling of its path"""
        op = dict(op)
        k = self.rng.choice([k for k in ("ref", "l10n", "cur", "path") if op.get(k)])
        d, b = op[k].rsplit("/", 1)
        op[k] = self.rng.choice([d + "/./" + b, d + "//" + b, d + "/x/../" + b, "./" + op[k]])
        if op["op"] in ("wcompare", "wadd") and k != "ref":
            pass
        op["respelled"] = True
        return op

    def unit(self):
        """[c; change one of c's files; c again (or a sibling operation on the same paths)]"""
        rng = self.rng
        c = self.cl_op()
        self.ops.append(c)
        tgt = rng.choice(self.paths_of(c))
        role = self.role(tgt)
        others = [p for p in (self.refs if role == "ref" else self.l10ns) if p != tgt]
        c2 = dict(c)
        k = rng.choice(["rewrite"] * 4 + ["samesize", "keepmtime", "swap", "recreate", "remove", "otherdir", "symlink",
                                          "retarget", "replace", "copyback", "respell" if not self.model else "cycle"])
        new = self.text(role, avoid=self.cur.get(tgt))
        if k == "rewrite":
            self.ops.append(w_write(tgt, new))
        elif k == "samesize":
            old = self.cur.get(tgt)
            new = same_size(old, rng) if old else new
            self.ops.append(w_write(tgt, new))
        elif k == "keepmtime":
            old = self.cur.get(tgt)
            if old and rng.random() < 0.5:
                new = same_size(old, rng)
            self.ops.append(w_write(tgt, new, keep_mtime=True))
        elif k == "swap":
            o = others[0]
            if o not in self.cur or self.cur[o] == self.cur.get(tgt):
                self.cur[o] = self.text(role, avoid=self.cur.get(tgt))
                self.ops.append(w_write(o, self.cur[o]))
            self.ops += w_swap(tgt, o)
            new, self.cur[o] = self.cur[o], self.cur.get(tgt)
        elif k == "recreate":
            self.ops.append(w_act("remove", tgt))
            if rng.random() < 0.4:
                self.ops.append(dict(c))           # the operation on the missing file, too
            self.ops.append(w_write(tgt, new))
        elif k == "remove":
            self.ops.append(w_act("remove", tgt))
            new = None
        elif k == "otherdir":
            # the same base name in another directory, other contents: the second operation names THAT path
            o = others[0]
            self.cur[o] = self.text(role, avoid=self.cur.get(tgt))
            self.ops.append(w_write(o, self.cur[o]))
            for key in ("ref", "l10n", "cur", "path"):
                if c2.get(key) == tgt:
                    c2[key] = o
            new = self.cur.get(tgt)
        elif k in ("symlink", "retarget"):
            # the path becomes a symbolic link to a file with other contents (then to yet another one)
            o = others[0]
            self.cur[o] = self.text(role, avoid=self.cur.get(tgt))
            self.ops.append(w_write(o, self.cur[o]))
            self.ops.append(w_act("symlink", tgt, o))
            new = self.cur[o]
            if k == "retarget":
                self.ops.append(dict(c))
                o2 = others[-1]
                self.cur[o2] = self.text(role, avoid=new)
                self.ops.append(w_write(o2, self.cur[o2]))
                self.ops.append(w_act("symlink", tgt, o2))
                new = self.cur[o2]
        elif k == "replace":
            # another file is renamed onto the path
            self.ops.append(w_write("incoming.tmp", new))
            self.ops.append(w_act("rename", "incoming.tmp", tgt))
        elif k == "copyback":
            # the old contents survive under another path; the path itself gets new contents
            self.ops.append(w_act("copy", tgt, others[0]))
            self.cur[others[0]] = self.cur.get(tgt)
            self.ops.append(w_write(tgt, new))
        elif k == "respell":
            self.ops.append(w_write(tgt, new))
            c2 = self.respell(c2)
        elif k == "cycle":
            # a link to nothing, then a cycle of two links
            self.ops.append(w_act("symlink", tgt, "nowhere/" + self.name))
            self.ops.append(dict(c))
            self.ops.append(w_act("symlink", "nowhere/" + self.name, tgt))
            new = None
        self.cur[tgt] = new
        if c["op"] == "wcompare" and c.get("merge") and rng.random() < 0.5:
            # the staged file of the first run is an input of the second
            c2 = rng.choice([{"op": "wread", "fmt": self.fmt, "path": self.merge},
                             {"op": "wcompare", "fmt": self.fmt, "ref": c["ref"], "l10n": self.merge},
                             dict(c, l10n=self.merge, merge=self.merge + ".2")])
        elif rng.random() < 0.3:
            # another operation on the same paths: compare after add (the regression's "counted as a missing file"), ...
            c2 = self.cl_op(ref=c2.get("ref") or self.refs[0], l10n=c2.get("l10n") or c2.get("cur") or self.l10ns[0])
        self.ops.append(c2)

    def history(self, units):
        self.setup()
        for _ in range(units):
            self.unit()
        return self.ops


def w_directed(fmt, rng):
    """the seeded regression and its nearest relatives, once per format: compare / add / lint / readFile of a path, the
    reference rewritten, the same operation again; across ContentComparer instances and on one instance"""
    name = FNAME_[fmt]
    R, L = "ref/" + name, "l10n/" + name
    (r0, l0), (r1, l1) = gen_pair(rng, fmt), gen_pair(rng, fmt)
    while r1 == r0:
        r1, l1 = gen_pair(rng, fmt)
    cmp_ = {"op": "wcompare", "fmt": fmt, "ref": R, "l10n": L}
    add = {"op": "wadd", "fmt": fmt, "ref": R}
    lint = {"op": "wlint", "fmt": fmt, "cur": L, "ref": R}
    rd = {"op": "wread", "fmt": fmt, "path": R}
    return [w_write(R, r0), w_write(L, l0), cmp_, add, lint, rd, w_write(R, r1), cmp_, add, lint, rd,
            w_write(L, l1), dict(cmp_, cc="shared"), lint, w_write(R, r0), dict(cmp_, cc="shared"), dict(add, cc="shared"),
            # the same size and the same modification time as before, other contents
            w_write(R, same_size(r0, rng), keep_mtime=True), cmp_, add, lint,
            # the reference disappears and comes back (os.path.isfile / exists answers change)
            w_act("remove", R), lint, cmp_, w_write(R, r1), lint, cmp_]


def w_filter(pth, key, action):
    return '[[filters]]\n  path = "{l10n_base}/{locale}/%s"\n  key = "%s"\n  action = "%s"\n' % (pth, key, action)


def w_main_toml(v):
    """variants of the main configuration that differ observably: locales, a key filter, the include"""
    return W_TOML_MAIN % {"locales": json.dumps([["de", "fr"], ["de"], ["de", "fr"], ["de", "fr"]][v % 4]),
                          "filters": ["", "", w_filter("main/**", KEYS[(v // 4) % len(KEYS)], "ignore"), ""][v % 4],
                          "includes": "" if v % 4 == 3 else '[[includes]]\n  path = "sub/l10n.toml"\n'}


def w_sub_toml(v, exts):
    """variants of the INCLUDED configuration: all of browser/, only one locale, only one file type, a key filter"""
    k = v % 4
    return W_TOML_SUB % {"locales": 'locales = ["de"]\n' if k == 1 else "",
                         "glob": ("**/*." + exts[(v // 4) % len(exts)]) if k == 2 else "**",
                         "filters": "".join(w_filter("browser/**", key, "ignore") for key in KEYS[:3]) if k == 3 else ""}


def w_project_history(rng):
    """a project directory (TOML with an INCLUDED TOML, reference and two locales) that is compared, changed, compared
    again: references and localizations rewritten / removed / added / swapped, both configuration files rewritten.
    The main configuration covers main/, the included one browser/: what the included file says is observable."""
    files = []
    for i, (rel, ref, l10n) in enumerate(gen_files(rng, 4)):
        base_ = rel.split("/")[-1]
        files.append([("browser/" if i % 2 == 0 else "main/") + base_, ref, l10n])
    exts = sorted({rel.rsplit(".", 1)[-1] for rel, _, _ in files if rel.startswith("browser/")})
    mv, sv = rng.randrange(64), rng.randrange(64)
    ops = [w_write("l10n.toml", w_main_toml(mv)), w_write("sub/l10n.toml", w_sub_toml(sv, exts))]
    have = {}
    for rel, ref, l10n in files:
        ops.append(w_write("en/" + rel, ref))
        have["en/" + rel] = ref
        for loc in ("de", "fr"):
            if rng.random() < 0.8:
                t = l10n if loc == "de" else ref
                ops.append(w_write("l/%s/%s" % (loc, rel), t))
                have["l/%s/%s" % (loc, rel)] = t
    proj = {"op": "wproject", "config": "l10n.toml", "l10n_base": "l", "locales": ["de", "fr"]}
    if rng.random() < 0.3:
        proj["merge"] = "stage"
    ops.append(proj)
    for _ in range(rng.randrange(2, 5)):
        rel, ref, l10n = rng.choice(files)
        fmt = next(f for f in FORMATS if FNAME_[f].rsplit(".", 1)[-1] == rel.rsplit(".", 1)[-1] or
                   (f == "android" and rel.endswith("strings.xml")))
        k = rng.choice(["ref", "ref", "ref", "l10n", "rm-l10n", "rm-l10n", "rm-ref", "new", "new", "new-l10n", "toml", "subtoml",
                        "subtoml", "rm-sub", "swap", "cmp"])
        nref, nl10n = gen_pair(rng, fmt)
        if k == "ref":
            ops.append(w_write("en/" + rel, nref if nref != have.get("en/" + rel) else nref + "\n"))
        elif k == "l10n":
            ops.append(w_write("l/de/" + rel, nl10n))
        elif k == "rm-l10n":
            # the file becomes a MISSING file (ContentComparer.add counts the reference) — and the reference changes
            ops.append(w_act("remove", "l/%s/%s" % (rng.choice(["de", "fr"]), rel)))
            if rng.random() < 0.5:
                ops.append(dict(proj))
                ops.append(w_write("en/" + rel, nref))
        elif k == "rm-ref":
            ops.append(w_act("remove", "en/" + rel))
        elif k == "new":
            d, b_ = rel.rsplit("/", 1)
            ops.append(w_write("en/%s/new-%s" % (d, b_) if fmt != "android" else "en/%s/new/%s" % (d, b_), nref))
        elif k == "new-l10n":
            # a file appears in the localization only (obsolete file), later also in the reference
            d, b_ = rel.rsplit("/", 1)
            extra_ = "%s/extra-%s" % (d, b_) if fmt != "android" else "%s/extra/%s" % (d, b_)
            ops.append(w_write("l/de/" + extra_, nl10n))
            if rng.random() < 0.5:
                ops.append(dict(proj))
                ops.append(w_write("en/" + extra_, nref))
        elif k == "toml":
            mv += rng.randrange(1, 4)
            ops.append(w_write("l10n.toml", w_main_toml(mv)))
        elif k == "subtoml":
            sv += rng.randrange(1, 4)
            ops.append(w_write("sub/l10n.toml", w_sub_toml(sv, exts)))
        elif k == "rm-sub":
            ops.append(w_act("remove", "sub/l10n.toml"))
            if rng.random() < 0.5:
                ops.append(dict(proj, ignore_missing=True))
                sv += rng.randrange(1, 4)
                ops.append(w_write("sub/l10n.toml", w_sub_toml(sv, exts)))
        elif k == "swap":
            ops += w_swap("en/" + rel, "l/de/" + rel)
        elif k == "cmp":
            # one file of the project through ContentComparer directly, then the reference changes
            ops.append({"op": "wcompare", "fmt": fmt, "ref": "en/" + rel, "l10n": "l/de/" + rel, "name": rel})
            ops.append(w_write("en/" + rel, nref))
        ops.append(dict(proj))
    return ops


def w_tokens(o):
    """`c18.wrun` tokens of one operation, or None when the model does not cover it"""
    k = o["op"]
    if k == "wfs":
        if len(o["do"]) != 1:
            return None
        a = o["do"][0]
        if a[0] == "write":
            return ["write", C.enc(a[1]), C.enc(a[2])]
        if a[0] == "remove":
            return ["remove", C.enc(a[1])]
        if a[0] in ("rename", "copy", "symlink"):
            return [a[0], C.enc(a[1]), C.enc(a[2])]
        return None
    if o.get("respelled") or o.get("extra") or o.get("name"):
        return None
    if any(isinstance(o.get(f), str) and os.path.normpath(o[f]) != o[f] for f in ("ref", "l10n", "cur", "path", "merge")):
        return None         # another spelling of a path: paths are opaque texts in the model
    if k == "wcompare" and o["fmt"] in W_MODEL_CMP:
        return ["wcompare", o["fmt"], C.enc(o["ref"]), C.enc(o["l10n"]), C.enc(o["merge"]) if o.get("merge") else "-"]
    if k == "wadd" and o["fmt"] in W_MODEL_CMP and not o.get("merge"):      # word counts: `val` is `raw_val` for ini / inc only
        return ["wadd", o["fmt"], C.enc(o["ref"])]
    if k == "wlint" and o["fmt"] in W_MODEL_CMP:
        return ["wlint", o["fmt"], C.enc(o["cur"]), C.enc(o["ref"]) if o.get("ref") else "-"]
    if k == "wread" and o["fmt"] in MODEL_PARSE:
        return ["readfile", o["fmt"], C.enc(o["path"])]
    if k in ("parse", "compare", "lint", "merge") and model_ok_m(o):
        return m_tokens(o)
    return None


def model_ok_m(o):
    if o.get("name") or o.get("extra") or o.get("via") or o.get("keyed"):
        return False
    if o["op"] == "parse":
        return o["fmt"] in MODEL_PARSE
    return o["fmt"] in W_MODEL_CMP


def w_fresh_op(o):
    """the operation as a fresh interpreter runs it (a shared ContentComparer / linter is a new one there anyway)"""
    return {k: v for k, v in o.items() if k not in ("cc", "linter", "respelled")}


def world_stream(ctx, out, base, rng):
    """FILE IDENTITY: histories in which the same path carries different contents at different times.  Oracle: the result
    of every compare-locales operation equals the result of the same operation in a FRESH interpreter on a copy of
    the files as they were at that moment.  Correspondence: the histories the model covers through `c18.wrun`
    (result, junk counter, inc flag and EVERY file of the world after every operation)."""
    hs = []
    for fmt in FORMATS:
        hs.append(("directed", fmt, w_directed(fmt, rng)))
    fmts = FORMATS + ["ini", "inc", "ini", "inc", "properties", "dtd"]
    for i in range(ctx.n(22, 160)):
        fmt = fmts[i % len(fmts)]
        g = WGen(rng, fmt)
        hs.append(("pool", fmt, g.history(rng.randrange(2, 5))))
    for _ in range(ctx.n(6, 40)):
        hs.append(("project", None, w_project_history(rng)))
    # more histories for the correspondence only (ini / inc: every operation is one the model has)
    for i in range(ctx.n(12, 120)):
        g = WGen(rng, ["ini", "inc"][i % 2], model=True)
        hs.append(("modelonly", g.fmt, g.history(rng.randrange(2, 6))))
    # some path-free operations in between (the shared parsers read other texts): model histories stay model histories
    for tag, fmt, h in hs:
        if tag == "pool" and rng.random() < 0.4:
            f2 = rng.choice(MODEL_PARSE)
            h.insert(rng.randrange(3, len(h)), {"op": "parse", "fmt": f2, "text": rng.choice(gen_pair(rng, f2) + tuple(STATEFUL.get(f2, [])))})
    runs = [[{"op": "wenv", "root": "w%d" % i}] + h for i, (_, _, h) in enumerate(hs)]
    used = fresh_calls(base, runs, timeout=60.0)
    # every distinct (operation, world) once in a fresh interpreter
    jobs, index = [], {}
    for (tag, fmt, h), res in zip(hs, used):
        if not isinstance(res, list) or tag == "modelonly":
            continue
        for o, r in zip(h, res[1:]):
            if o.get("nocmp") or "world" not in r:
                continue
            key = opkey({"o": w_fresh_op(o), "w": r["world"]})
            if key not in index:
                index[key] = len(jobs)
                jobs.append([{"op": "wenv", "root": "f%d" % len(jobs)}, {"op": "wrestore", "world": r["world"]}, w_fresh_op(o)])
    fres = fresh_calls(base, jobs, timeout=60.0)
    out.count("processes", len(runs) + len(jobs))
    lines, expect = [], []
    shrink_budget = [3]
    for (tag, fmt, h), res in zip(hs, used):
        if not isinstance(res, list):
            out.violations.append({"what": "world history did not finish / adapter failed: %r" % (res,),
                                   "input": {"history": [{"op": "wenv", "root": "w"}] + h, "index": len(h)}, "finding": None})
            continue
        out.count("world.histories." + tag)
        rewritten = False
        for i, (o, r) in enumerate(zip(h, res[1:])):
            if o["op"] == "wfs":
                rewritten = rewritten or i > 3
                continue
            if o.get("nocmp") or "world" not in r or tag == "modelonly":
                continue
            out.evaluations += 1
            out.count("world." + o["op"])
            fr = fres[index[opkey({"o": w_fresh_op(o), "w": r["world"]})]]
            hist = [{"op": "wenv", "root": "w"}] + h[:i + 1]
            if not isinstance(fr, list) or "canon" not in fr[2]:
                out.violations.append({"what": "operation failed in a fresh interpreter on a copy of the files: %r" % (fr,),
                                       "input": {"history": hist, "index": i + 1}, "finding": None})
                continue
            if fr[2]["canon"] != r["canon"]:
                finding = FINDING if clash_rootcause_w(o, r["world"], [fr[2]["jid"], r["jid"]]) else None
                out.violations.append({"what": "result of %s (%s) is not the result of a fresh interpreter on the files as "
                                               "they are now: it depends on what was at these paths / processed before"
                                               % (o["op"], o.get("fmt", "-")),
                                       "input": w_shrink(base, hist, i + 1, shrink_budget),
                                       "fresh": fr[2]["canon"][:700], "after_history": r["canon"][:700], "finding": finding})
            elif rewritten and len(r["canon"]) > 40:
                out.nontrivial.add("W" + hashlib.sha256(r["canon"].encode()).hexdigest()[:16])
        # correspondence
        toks = [w_tokens(o) for o in h]
        if ctx.model_ok and all(t is not None for t in toks):
            lines.append("c18.wrun " + " ".join(x for t in toks for x in t))
            expect.append((h, res[1:]))
    mres = C.run_driver_parallel(lines) if lines else []
    for (h, res), mo in zip(expect, mres):
        got = mo.split(" || ")
        out.count("world.model_histories")
        for i, (o, e) in enumerate(zip(h, res)):
            out.evaluations += 1
            out.count("worldmodel." + o["op"])
            exp = "%s @@ %s" % (e.get("model"), e.get("state"))
            g = got[i] if i < len(got) else "<missing>"
            if exp != g:
                out.disagreements.append({"op": "c18.wrun", "history": h[:i + 1], "index": i, "impl": exp[:1500], "model": g[:1500]})
                break
            if o["op"] != "wfs" and i > 4:
                out.nontrivial.add("WM" + hashlib.sha256(exp.encode()).hexdigest()[:16])


def w_shrink(base, hist, idx, budget):
    """a shorter history with the same failure: drop operations (never the last one) while the last result still
    differs from the fresh one on the files it met.  Greedy, bounded (the first few violations only); every candidate
    runs in a directory of its own."""
    cur = list(hist[:idx + 1])
    budget[0] -= 1
    serial = [0]

    def root():
        serial[0] += 1
        return {"op": "wenv", "root": "shrink%d_%d" % (budget[0], serial[0])}
    for _ in range(4 if budget[0] >= 0 else 0):
        cands = [[root()] + cur[1:j] + cur[j + 1:] for j in range(1, len(cur) - 1)][:14]
        if not cands:
            break
        rs = fresh_calls(base, cands, timeout=60.0)
        ok = [(c, r) for c, r in zip(cands, rs) if isinstance(r, list) and len(r) == len(c) and "world" in r[-1]]
        fs = fresh_calls(base, [[root(), {"op": "wrestore", "world": r[-1]["world"]}, w_fresh_op(c[-1])] for c, r in ok], timeout=60.0)
        nxt = None
        for (c, r), f in zip(ok, fs):
            if isinstance(f, list) and len(f) == 3 and "canon" in f[2] and "canon" in r[-1] and f[2]["canon"] != r[-1]["canon"]:
                nxt = c
                break
        if nxt is None:
            break
        cur = nxt
    cur = [{"op": "wenv", "root": "w"}] + cur[1:]
    return {"history": cur, "index": len(cur) - 1}


def clash_rootcause_w(o, world, jid_ranges):
    """F8 on files: the operation's texts as the world holds them"""
    if "fmt" not in o:
        return False
    files = {rel: data for rel, kind, data in world if kind == "f"}
    links = {rel: data for rel, kind, data in world if kind == "l"}

    def get(rel):
        rel = os.path.normpath(rel).replace(os.sep, "/") if rel else rel
        for _ in range(8):
            if rel in links:
                rel = links[rel]
        return files.get(rel)
    op = {"fmt": o["fmt"], "op": "compare"}
    for k, f in (("ref", "ref"), ("l10n", "l10n"), ("cur", "cur"), ("path", "text")):
        if o.get(k):
            op[f] = get(o[k])
    try:
        return clash_rootcause(op, jid_ranges)
    except Exception:       # noqa: the predicate only tags
        return False


def strip(op):
    return {k: v for k, v in op.items() if k != "probe"}


def union_reports(reports):
    """by construction: the report of a multi-file run = details of every file, summaries added up"""
    details, summary = {}, {}
    for r in reports:
        for path, items in r["details"].items():
            details.setdefault(path, [])
            details[path] += items
        for loc, s in r["summary"].items():
            t = summary.setdefault(loc, {})
            for k, v in s.items():
                t[k] = t.get(k, 0) + v
    return {"details": details, "summary": summary}


def nonzero(report):
    """summaries without the all-zero rows and zero entries (a locale without findings has no row in a single-file run)"""
    return {"details": {k: v for k, v in report["details"].items() if v},
            "summary": {l: {k: v for k, v in s.items() if v} for l, s in report["summary"].items()
                        if any(s.values())}}


# ---------------------------------------------------------------- run
def run(ctx):
    out = Outcome()
    out.rule = ("histories: all ordered pairs over a core set of operations (every kind x format once), seeded random histories "
                "of 3-6 operations (parse, compare, lint, merge, serialize, mozpath.match, compareProjects, multi-file "
                "ContentComparer) over properties/dtd/ini/inc/po/ftl/android, every operation's result compared with the same "
                "operation in a fresh interpreter; 4-file projects in all 24 orders vs. the union of single-file runs; held "
                "entity objects re-read after the parser was reused; model histories through Hist.run. "
                "FILE IDENTITY: histories over a small pool of paths per format in which the same path carries different contents at "
                "different times (rewrite, same-size rewrite, rewrite with the old mtime, swap by renames, delete + recreate, "
                "rename onto, copy away, same base name in another directory, symbolic link / re-targeted link, another spelling "
                "of the path), for reference, localization, linted file, lint reference, merge target (read back as input) and "
                "project directories with TOML configuration + included TOML; every compare-locales operation against a fresh "
                "interpreter on a copy of the files as they were at that moment. "
                "non-trivial = an operation evaluated after the junk counter had moved (state really differs from a fresh "
                "interpreter) whose result is not empty; distinct = distinct canonical results among those")
    base = tempfile.mkdtemp(prefix="verif-c18-")
    try:
        _run(ctx, out, base)
    finally:
        shutil.rmtree(base, ignore_errors=True)
    return out


def _run(ctx, out, base):
    rng = ctx.rng("c18")
    # ---- operation pool
    core = []
    for fmt in FORMATS:
        core.append(gen_op(rng, "parse", fmt))
        core.append(gen_op(rng, "compare", fmt))
    for kind in ("lint", "merge", "serialize"):
        for fmt in rng.sample(FORMATS, 2 if ctx.tier == "quick" else 5):
            core.append(gen_op(rng, kind, fmt))
    core.append(gen_op(rng, "mozmatch"))
    core.append(gen_op(rng, "project"))
    core.append(gen_op(rng, "files"))
    core.append({"op": "compare", "fmt": "dtd", "ref": '<!ENTITY a "x">\n<!ENTITY b "&foo; y">\n',
                 "l10n": '<!ENTITY a "it\'s \\u00zz">\n<!ENTITY b "&bar; y">\n', "extra": ["android-dtd"]})
    core.append({"op": "lint", "fmt": "dtd", "ref": None, "cur": '<!ENTITY q "say \\u0022hi it\'s">\n<!ENTITY r "plain">\n',
                 "extra": ["android-dtd"]})
    core.append({"op": "compare", "fmt": "dtd", "extra": ["android-dtd"],
                 "ref": '<!ENTITY a "&foo; x">\n<!ENTITY b "&bar;">\n<!ENTITY c "10em">\n<!ENTITY d "12">\n<!ENTITY e "x">\n'
                        '<!ENTITY f "width: 10em">\n<!ENTITY g "t">\n<!ENTITY h "t">\n<!ENTITY k "t">\n',
                 "l10n": '<!ENTITY a "&baz; &bar; x">\n<!ENTITY b "&foo;">\n<!ENTITY c "big">\n<!ENTITY d "many">\n'
                         '<!ENTITY e "<b>open\n">\n<!ENTITY f "width: 1ch">\n<!ENTITY g "100%">\n<!ENTITY h "\'say it\'s\'">\n'
                         '<!ENTITY k "x <b> y">\n'})
    core.append({"op": "parse", "fmt": "inc", "text": "#filter emptyLines\n\n\n#define a 1\n"})
    core.append({"op": "parse", "fmt": "inc", "text": "# c\n#define a 1\n\n\n# d\n\n\n#define b 2\n#filter emptyLines\n# e\n\n\n#define c 3\n"})
    pool_ops = list(core)
    for _ in range(ctx.n(145, 1400)):
        pool_ops.append(gen_op(rng))
    probes = collision_probes()
    model_pool = [o for o in pool_ops if model_ok(o)]
    while len(model_pool) < ctx.n(70, 500):
        o = gen_op(rng, rng.choice(["parse", "compare"]), rng.choice(MODEL_PARSE))
        if model_ok(o):
            model_pool.append(o)
            pool_ops.append(o)
    junky = [o for o in pool_ops if o["op"] == "parse" and ("junk" in o["text"] or "zz" in o["text"])]

    # ---- histories
    histories = []                     # (tag, [ops])
    base_spec = {"locales": ["de", "fr"], "env": [["l10n_base", "/l"]], "root": None, "paths": [["{l10n_base}/{locale}/**", None]],
                 "rules": [{"path": "/l/{locale}/a.ini", "key": "a", "action": "ignore"},
                           {"path": ["/l/{locale}/b/**", "/m/{locale}/a.ini"], "key": ["b", "re:key_.*"], "action": "warning"}]}
    qsteps = [["filter", p_, l_, k_] for p_, l_ in M_QUERIES[:7] for k_ in (None, "a", "b")]
    core.insert(len(core) - 2, {"op": "cfgq", "steps": [["all_locales"], ["add_paths", [["/l/{locale}/**", ["he"]]]], ["all_locales"], ["filter", "/l/he/a.ini", "he", None]]
                                + qsteps[:9] + [["all_locales"], ["same"], ["set_locales", ["de"], True]] + qsteps[9:] + [["same"]],
                                "spec": dict(base_spec, children=[{"locales": ["he"], "env": [], "root": "src", "paths": [["l/{locale}/**", ["de"]]],
                                                                   "rules": [{"path": "l/{locale}/a.ini", "key": None, "action": "error"}]}],
                                             excludes=[{"locales": ["de", "fr"], "env": [], "root": None, "paths": [["/l/{locale}/b/**", None]], "rules": []}])})
    core.insert(len(core) - 2, {"op": "cfgq", "steps": qsteps[:6] + [["set_locales", ["fr"], False]] + qsteps[:6],
                                "spec": dict(base_spec, rules=[], filter_py=rng.choice(["ignore-b", "raise", "report"]))})
    core.insert(len(core) - 2, {"op": "lint", "fmt": "dtd", "ref": None, "extra": ["android-dtd"],
                                "cur": '<!ENTITY i "say &quot;hi">\n<!ENTITY h "\'say it\'s\'">\n<!ENTITY j "">\n'})
    pair_core = core if ctx.tier != "quick" else core[:14] + core[-8:]
    for o_ in core:
        if o_ not in pair_core:         # every core operation is in some history of the quick tier
            histories.append(("pair", [rng.choice(pair_core), o_]))
            histories.append(("pair", [o_, rng.choice(pair_core)]))
    for a, b in itertools.product(pair_core, repeat=2):
        histories.append(("pair", [a, b]))
    for _ in range(ctx.n(118, 1500)):
        n = rng.randrange(3, 7)
        histories.append(("random", [rng.choice(pool_ops) for _ in range(n)]))
    for _ in range(ctx.n(95, 1500)):
        n = rng.randrange(2, 7)
        histories.append(("model", [rng.choice(model_pool) for _ in range(n)]))
    # mozpath.match keeps a module-level cache of compiled patterns: every ordered pair of patterns
    mpaths = ["foo/bar", "foo", "foo/x/baz", "a.dtd", "browser/a/b.ftl", "fxo/y/x", "foo/baz", "foo/x/y/baz", "foo/a/b"]
    mpats = ["foo/*", "foo/**", "**/bar", "foo/**/baz", "foo/*/baz", "*.dtd", "browser/**", "foo/bar", "f*o/*/x"]
    mpairs = [(a, b) for a, b in itertools.product(mpats, repeat=2) if a != b]
    if ctx.tier == "quick":
        # always the pairs that differ only in `*` / `**` (a cache key that confuses them), half of the others
        near_ = [(a, b) for a, b in mpairs if a.replace("**", "*") == b.replace("**", "*")]
        rest_ = [x for x in mpairs if x not in near_]
        mpairs = near_ + rng.sample(rest_, len(rest_) // 2)
    for a, b in mpairs:
        histories.append(("mozpair", [{"op": "mozmatch", "pattern": a, "paths": mpaths},
                                      {"op": "mozmatch", "pattern": b, "paths": mpaths}]))
    histories += near_and_empty_histories(ctx, rng)
    histories += repeat_histories(ctx, rng)
    for p in probes:
        pre = rng.choice(junky) if junky else {"op": "parse", "fmt": "ini", "text": "zzz"}
        histories.append(("probe", [pre, p]))
        histories.append(("probe", [p, p]))
    # entity objects held across a history
    hold_hist = []
    for i in range(ctx.n(32, 300)):
        fmt = rng.choice(FORMATS)
        ref, l10n = gen_pair(rng, fmt)
        hold = {"op": "hold", "fmt": fmt, "text": rng.choice([ref, l10n]), "id": 1, "walk": rng.random() < 0.6}
        mid = [gen_op(rng, rng.choice(["parse", "compare", "lint", "serialize", "merge"]), fmt)]
        mid += [rng.choice(pool_ops) for _ in range(rng.randrange(0, 3))]
        rng.shuffle(mid)
        hold_hist.append([hold] + mid + [{"op": "reobs", "id": 1}])

    all_ops = {}
    for _, h in histories:
        for o in h:
            all_ops.setdefault(opkey(strip(o)), strip(o))
    for h in hold_hist:
        o = h[0]
        all_ops.setdefault(opkey(o), o)
    keys = list(all_ops)
    fresh_res = fresh_calls(base, [[all_ops[k]] for k in keys])
    fresh = {}
    for k, r in zip(keys, fresh_res):
        fresh[k] = r[0] if isinstance(r, list) else r
    hist_res = fresh_calls(base, [[strip(o) for o in h] for _, h in histories])
    out.count("processes", len(keys) + len(histories) + len(hold_hist))

    viol_budget = [12]

    def report(what, hist, idx, fr, hr, finding=None):
        v = {"what": what, "input": {"history": hist[:idx + 1], "index": idx},
             "fresh": (fr or {}).get("canon", fr) if isinstance(fr, dict) else fr,
             "after_history": (hr or {}).get("canon", hr) if isinstance(hr, dict) else hr,
             "finding": finding}
        # a two-operation reproducer, if one exists
        if finding is None and idx > 1 and viol_budget[0] > 0:
            viol_budget[0] -= 1
            pairs = [[hist[j], hist[idx]] for j in range(idx)]
            rs = fresh_calls(base, pairs)
            for p, r in zip(pairs, rs):
                if isinstance(r, list) and isinstance(fr, dict) and r[1].get("canon") != fr.get("canon"):
                    v["input"] = {"history": p, "index": 1}
                    v["after_history"] = r[1].get("canon")
                    break
        out.violations.append(v)

    model_lines, model_expect = [], []
    stale_seen = set()
    for (tag, h), res in zip(histories, hist_res):
        hs = [strip(o) for o in h]
        if not isinstance(res, list):
            out.violations.append({"what": "history did not finish / adapter failed: %r" % (res,),
                                   "input": {"history": hs, "index": len(hs) - 1}, "finding": None})
            continue
        seen_junk = []
        for i, (o, r) in enumerate(zip(hs, res)):
            out.evaluations += 1
            fr = fresh.get(opkey(o))
            out.count("op." + o["op"])
            out.count("hist." + tag)
            if not isinstance(fr, dict) or "canon" not in fr:
                out.violations.append({"what": "operation failed in a fresh interpreter: %r" % (fr,),
                                       "input": {"history": [o], "index": 0}, "finding": None})
                continue
            if r.get("jid", [0, 0])[0] > 0 and len(r["canon"]) > 20:
                out.nontrivial.add(hashlib.sha256(r["canon"].encode()).hexdigest()[:16])
            if o.get("nocmp"):
                seen_junk += r.get("junk", [])
                continue
            if r.get("stale") and opkey(o) not in stale_seen:
                stale_seen.add(opkey(o))
                out.violations.append({"what": ("walk2: a later pass over the same Context does not see what the first pass saw: %s"
                                                if o["op"] == "walk2" else "%s: an object that was used before answers differently "
                                                "from a freshly built one: %%s" % o["op"]) % (str(r["stale"])[:800],), "input": {"history": [o], "index": 0}, "finding": None})
            if r["canon"] != fr["canon"]:
                finding = FINDING if clash_rootcause(o, [fr["jid"], r["jid"]]) else None
                if h[i].get("probe"):
                    out.count("probe.%s.differs" % h[i]["probe"])
                report("result of %s (%s) depends on what was processed before" % (o["op"], o.get("fmt", "-")),
                       hs, i, fr, r, finding)
            elif h[i].get("probe"):
                out.count("probe.%s.same" % h[i]["probe"])
            seen_junk += r.get("junk", [])
            if len(out.samples) < 6 and i >= 2 and r["jid"][0] > 3 and "Unparsed" in r["canon"] and o["op"] != "parse":
                out.samples.append({"history": [(x["op"], x.get("fmt")) for x in hs[:i + 1]], "junkid_before": r["jid"][0],
                                    "result": r["canon"][:300], "equals_fresh": True})
        if len(seen_junk) != len(set(seen_junk)):
            out.violations.append({"what": "two Junk objects of one run share a key", "finding": None,
                                   "input": {"history": hs, "index": len(hs) - 1, "keys": seen_junk}})
        if tag == "model":
            model_lines.append(model_line(hs))
            model_expect.append((hs, [r.get("model") for r in res]))

    # ---- held entities
    hold_res = fresh_calls(base, hold_hist)
    for h, res in zip(hold_hist, hold_res):
        out.evaluations += 1
        if not isinstance(res, list) or "raw" not in res[0] or "raw" not in res[-1]:
            out.violations.append({"what": "hold/reobs history failed: %r" % (str(res)[:300],),
                                   "input": {"history": h, "index": len(h) - 1}, "finding": None})
            continue
        out.count("hold")
        if res[-1]["jid"][0] > res[0]["jid"][1]:
            out.nontrivial.add("hold" + hashlib.sha256(res[0]["raw"].encode()).hexdigest()[:16])
        if res[0]["raw"] != res[-1]["raw"]:
            out.violations.append({"what": "entity objects changed after the same parser read another file",
                                   "input": {"history": h, "index": len(h) - 1}, "before": res[0]["raw"],
                                   "after": res[-1]["raw"], "finding": None})
        fr = fresh.get(opkey(h[0]))
        if isinstance(fr, dict) and fr.get("canon") != res[0]["canon"]:
            out.violations.append({"what": "fresh interpreters disagree (nondeterministic parse)",
                                   "input": {"history": [h[0]], "index": 0}, "finding": None})

    # ---- multi-file projects: all orders = union of the single-file runs
    nproj = ctx.n(7, 50)
    jobs, meta = [], []
    for pi in range(nproj):
        files = gen_files(rng, 4)
        perms = list(itertools.permutations(range(4)))
        rng.shuffle(perms)
        jobs.append([{"op": "files", "files": files, "order": list(p)} for p in perms])
        meta.append(("perms", files, perms))
        for i in range(4):
            jobs.append([{"op": "files", "files": files, "order": [i]}])
            meta.append(("single", files, i))
        if pi == 0:
            # directed: a legacy `module` entry on the first directory only, plain entries after it, findings everywhere
            files = [["browser/f0.properties", "a=1\nb=2\n", "a=1\n"], ["toolkit/x/f1.ini", "a=1\n", "a=2\nzz"],
                     ["f2.dtd", '<!ENTITY a "x">\n<!ENTITY c "z">\n', '<!ENTITY a "y">\n'], ["zother/f3.ftl", "a = 1\nb = 2\n", "a = 2\n"]]
        proj = gen_project(rng, files)
        tops = sorted({rel.split("/")[0] for rel in proj["files"] if "/" in rel})
        if tops and pi % 2 == 0:
            proj["modules"] = tops[:1]          # the alphabetically first directory: every later file follows a module file
        jobs.append([proj])
        meta.append(("project", proj, None))
        for rel in proj["files"]:
            for loc in proj["locales"]:
                one = dict(proj, files={rel: proj["files"][rel]}, locales=[loc], all_locales=proj["locales"])
                jobs.append([one])
                meta.append(("project1", one, (rel, loc)))
    res = fresh_calls(base, jobs, timeout=60.0)
    obs_projects = []
    i = 0
    while i < len(jobs):
        kind, files, perms = meta[i]
        assert kind == "perms"
        singles = res[i + 1:i + 5]
        permres = res[i]
        ok = isinstance(permres, list) and all(isinstance(s, list) for s in singles)
        if not ok:
            out.violations.append({"what": "multi-file run failed: %r" % (str(permres)[:200],),
                                   "input": {"files": files}, "finding": None})
        else:
            sj = [json.loads(s[0]["canon"]) for s in singles]
            if any(s["exc"] for s in sj):
                out.count("files.single_exc")
            expected = union_reports([s["obs"] for s in sj])
            for p, r in zip(perms, permres):
                out.evaluations += 1
                got = json.loads(r["canon"])
                if r["jid"][0] > 0:
                    out.nontrivial.add("perm" + hashlib.sha256(r["canon"].encode()).hexdigest()[:16])
                if got["obs"] != expected or bool(got["exc"]) != any(s["exc"] for s in sj):
                    out.violations.append({"what": "multi-file report is not the union of the single-file reports",
                                           "input": {"files": files, "order": list(p)}, "got": got["obs"],
                                           "expected": expected, "finding": None})
                    break
            out.count("files.permutations", len(perms))
            obs_projects.append((files, perms, singles, permres))
        j = i + 5
        projres = res[j]
        proj = meta[j][1]
        k = j + 1
        ones = []
        while k < len(jobs) and meta[k][0] == "project1":
            ones.append(res[k])
            k += 1
        out.evaluations += 1
        if not isinstance(projres, list) or not all(isinstance(o, list) for o in ones):
            out.violations.append({"what": "compareProjects run failed: %r" % (str(projres)[:200],),
                                   "input": {"project": proj}, "finding": None})
        else:
            got = json.loads(projres[0]["canon"])
            oj = [json.loads(o[0]["canon"]) for o in ones]
            if got["exc"] or any(o["exc"] for o in oj):
                out.count("project.exc")
                if bool(got["exc"]) != any(o["exc"] for o in oj):
                    out.violations.append({"what": "compareProjects raises in the multi-file run only (or in a single run only)",
                                           "input": {"project": proj}, "got": got["exc"], "finding": None})
            else:
                expected = nonzero(union_reports([o["report"]["obs"][0] for o in oj]))
                if nonzero(got["report"]["obs"][0]) != expected:
                    out.violations.append({"what": "compareProjects report is not the union of the single-file, single-locale reports",
                                           "input": {"project": proj}, "got": nonzero(got["report"]["obs"][0]),
                                           "expected": expected, "finding": None})
                out.count("project.union")
                out.nontrivial.add("proj" + hashlib.sha256(projres[0]["canon"].encode()).hexdigest()[:16])
        i = k

    # ---- correspondence: whole histories through the Lean model (Hist.run from G.init)
    # plus a bounded-exhaustive family of compares in long histories
    blocks = {"ini": ["a=1\n", "a=2\n", "b=x y\n", "zz\n", "akey=1\n", "u=\ufffd\n"],
              "inc": ["#define a 1\n", "#define a 2\n", "#define b x y\n", "zz\n", "\n", "#filter emptyLines\n"]}
    L = 2
    for fmt, bl in blocks.items():
        texts = ["".join(t) for n in range(L + 1) for t in itertools.product(bl, repeat=n)]
        pairs = [(r, l) for r in texts for l in texts]
        if ctx.tier == "quick":
            pairs = rng.sample(pairs, 600)
        for s in range(0, len(pairs), 40):
            hs = [{"op": "compare", "fmt": fmt, "ref": r, "l10n": l} for r, l in pairs[s:s + 40]]
            model_lines.append(model_line(hs))
            model_expect.append((hs, None))
    pending = [i for i, (_, exp) in enumerate(model_expect) if exp is None]
    pres = fresh_calls(base, [model_expect[i][0] for i in pending], timeout=60.0)
    for i, r in zip(pending, pres):
        model_expect[i] = (model_expect[i][0], [x.get("model") for x in r] if isinstance(r, list) else None)
    mres = C.run_driver_parallel(model_lines) if ctx.model_ok else [None] * len(model_lines)
    for (hs, exp), mo in zip(model_expect, mres):
        if mo is None:
            continue
        if exp is None:
            out.disagreements.append({"op": "c18.run", "history": hs, "impl": "failed", "model": mo[:200]})
            continue
        got = mo.split(" || ")
        out.count("model.histories")
        for i, (o, e, g) in enumerate(zip(hs, exp, got)):
            out.evaluations += 1
            out.count("model.ops")
            if e != g:
                out.disagreements.append({"op": "c18.run", "history": hs[:i + 1], "index": i, "impl": e, "model": g})
                break
            if i > 0 and ("J " in g or "error" in g):
                out.nontrivial.add("m" + hashlib.sha256(g.encode()).hexdigest()[:16])
    observer_union_stream(ctx, out, obs_projects)
    machine_correspondence(ctx, out, base, ctx.rng("c18.machine"))
    junkkey_correspondence(ctx, out, base, ctx.rng("c18.junkkey"))
    plugin_stream(ctx, out, base, ctx.rng("c18.plugin"))
    world_stream(ctx, out, base, ctx.rng("c18.world"))
    if not out.distribution.get("probe.dup.differs") and not out.distribution.get("probe.equal.differs"):
        out.notes.append("collision probes did not change any report")
    out.contracts["collision_probes"] = {k: v for k, v in out.distribution.items() if k.startswith("probe.")}


def classify(v):
    return v.get("finding")


def replay(payload):
    res = []
    base = tempfile.mkdtemp(prefix="verif-c18-")
    try:
        for v in payload.get("violations", []):
            i = v.get("input", {})
            if "history" not in i:
                res.append({"input": i, "violates": None, "note": "replay supports history inputs only"})
                continue
            h = [strip(o) for o in i["history"]]
            if h and h[0].get("op") == "wenv":
                idx = i.get("index")
                idx = len(h) - 1 if idx is None else idx
                a = fresh_calls(base, [h[:idx + 1]], timeout=60.0)[0]
                if not isinstance(a, list) or "world" not in a[idx]:
                    res.append({"input": i, "violates": True, "after_history": str(a)[:300]})
                    continue
                b = fresh_calls(base, [[{"op": "wenv", "root": "replay-fresh"}, {"op": "wrestore", "world": a[idx]["world"]},
                                        w_fresh_op(h[idx])]], timeout=60.0)[0]
                bad = not isinstance(b, list) or a[idx]["canon"] != b[2].get("canon")
                res.append({"input": i, "violates": bool(bad), "after_history": a[idx]["canon"][:700],
                            "fresh": b[2].get("canon", "")[:700] if isinstance(b, list) else b})
                continue
            if any(o["op"] == "reobs" for o in h):
                r = fresh_calls(base, [h])[0]
                bad = isinstance(r, list) and r[0].get("raw") != r[-1].get("raw")
                res.append({"input": i, "violates": bool(bad)})
                continue
            idx = i.get("index", len(h) - 1)
            pre = [h[0]] if h and h[0].get("op") == "env" and idx > 0 else []
            a, b = fresh_calls(base, [h, pre + [h[idx]]])
            if isinstance(b, list):
                b = b[len(pre):]
            bad = not (isinstance(a, list) and isinstance(b, list)) or a[idx]["canon"] != b[0]["canon"] or bool(a[idx].get("stale"))
            res.append({"input": i, "violates": bool(bad),
                        "after_history": a[idx]["canon"] if isinstance(a, list) else a,
                        "fresh": b[0]["canon"] if isinstance(b, list) else b})
    finally:
        shutil.rmtree(base, ignore_errors=True)
    return {"violates": any(r["violates"] for r in res), "cases": res}
